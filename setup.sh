#!/bin/bash
# MANIFEST.setup_cmd: warms the Go build cache for the monitor (offline, from files on disk only).
set -eu
export GOFLAGS=-mod=mod GOPROXY=off GOSUMDB=off GOTOOLCHAIN=local
here=$(cd "$(dirname "$0")" && pwd)
cd "$here/harness"
[ -f go.sum ] || : > go.sum
mkdir -p run bin ../evidence ../replay
go build -tags verif -o bin/verif ./cmd/verif
go build -race -gcflags=all=-d=checkptr=0 -tags verif -o bin/verif-race ./cmd/verif
rm -f bin/verif bin/verif-race
echo setup ok
