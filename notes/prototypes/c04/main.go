package main

import (
	"bytes"
	"encoding/json"
	"fmt"
	"math"
	"math/rand"
	"reflect"
	"sort"
	"strings"
	"unicode/utf8"

	"github.com/ohler55/ojg"
	"github.com/ohler55/ojg/alt"
	"github.com/ohler55/ojg/oj"
	"github.com/ohler55/ojg/pretty"
)

var strs = []string{"", "a", "a b", "q\"q", "b\\s", "\n\t\r\b\f", "\x00\x1f\x7f", "<&>", "  ", "é日本😀", "\xff\xfe", "a\xc3", strings.Repeat("x", 70), "true", "-1"}

func genTree(r *rand.Rand, depth int) any {
	if depth <= 0 || r.Intn(4) == 0 {
		switch r.Intn(7) {
		case 0:
			return nil
		case 1:
			return r.Intn(2) == 0
		case 2:
			return strs[r.Intn(len(strs))]
		case 3:
			return []float64{0, -0.0, 1.5, 1e21, 1e-7, math.MaxFloat64, math.SmallestNonzeroFloat64, 123456789.125, 1e6, 100}[r.Intn(10)]
		default:
			return []int64{0, 1, -1, math.MaxInt64, math.MinInt64, 42}[r.Intn(6)]
		}
	}
	if r.Intn(2) == 0 {
		n := r.Intn(5)
		a := make([]any, n)
		for i := range a {
			a[i] = genTree(r, depth-1)
		}
		return a
	}
	n := r.Intn(5)
	m := map[string]any{}
	for i := 0; i < n; i++ {
		m[strs[r.Intn(len(strs))]] = genTree(r, depth-1)
	}
	return m
}

func fixStr(s string) string {
	if utf8.ValidString(s) {
		return s
	}
	var b strings.Builder
	for i := 0; i < len(s); {
		r, n := utf8.DecodeRuneInString(s[i:])
		if r == utf8.RuneError && n == 1 {
			b.WriteString("�")
		} else {
			b.WriteString(s[i : i+n])
		}
		i += n
	}
	return b.String()
}

// expected tree E(o, v) in encoding/json's decoded form (float64 numbers via UseNumber -> json.Number)
func expect(v any, o *ojg.Options) any {
	switch t := v.(type) {
	case string:
		return fixStr(t)
	case int64:
		return json.Number(fmt.Sprint(t))
	case float64:
		return t
	case []any:
		out := make([]any, len(t))
		for i, c := range t {
			out[i] = expect(c, o)
		}
		return out
	case map[string]any:
		out := map[string]any{}
		for k, c := range t {
			switch tc := c.(type) {
			case nil:
				if o.OmitNil {
					continue
				}
			case string:
				if o.OmitEmpty && len(tc) == 0 {
					continue
				}
			case []any:
				if o.OmitEmpty && len(tc) == 0 {
					continue
				}
			case map[string]any:
				if o.OmitEmpty && len(tc) == 0 {
					continue
				}
			}
			out[fixStr(k)] = expect(c, o)
		}
		return out
	}
	return v
}

func decode(text []byte) (any, error) {
	d := json.NewDecoder(bytes.NewReader(text))
	d.UseNumber()
	var v any
	if err := d.Decode(&v); err != nil {
		return nil, err
	}
	if d.More() {
		return nil, fmt.Errorf("trailing data")
	}
	return v, nil
}

func same(got, want any) bool {
	switch tw := want.(type) {
	case float64:
		n, ok := got.(json.Number)
		if !ok {
			return false
		}
		f, err := n.Float64()
		return err == nil && f == tw
	case []any:
		tg, ok := got.([]any)
		if !ok || len(tg) != len(tw) {
			return false
		}
		for i := range tw {
			if !same(tg[i], tw[i]) {
				return false
			}
		}
		return true
	case map[string]any:
		tg, ok := got.(map[string]any)
		if !ok || len(tg) != len(tw) {
			return false
		}
		for k, w := range tw {
			g, has := tg[k]
			if !has || !same(g, w) {
				return false
			}
		}
		return true
	}
	return reflect.DeepEqual(got, want)
}

type chunkW struct{ bytes.Buffer; writes int }

func (w *chunkW) Write(p []byte) (int, error) { w.writes++; return w.Buffer.Write(p) }

func main() {
	r := rand.New(rand.NewSource(1))
	bad := map[string]int{}
	ex := map[string][]string{}
	note := func(cls, detail string) {
		bad[cls]++
		if len(ex[cls]) < 3 {
			ex[cls] = append(ex[cls], detail)
		}
	}
	n := 0
	for it := 0; it < 4000; it++ {
		v := genTree(r, 4)
		gv := alt.Generify(v, &ojg.Options{})
		for mask := 0; mask < 32; mask++ {
			o := ojg.Options{Sort: true, Tab: mask&1 != 0, OmitNil: mask&2 != 0, OmitEmpty: mask&4 != 0, HTMLUnsafe: mask&8 != 0}
			if mask&16 != 0 {
				o.Indent = []int{1, 2, 7, 200}[r.Intn(4)]
			}
			want := expect(v, &o)
			check := func(name string, text string) {
				n++
				if !json.Valid([]byte(text)) {
					note(name+" invalid JSON", fmt.Sprintf("opts=%+v mask=%d %q", o.Indent, mask, text))
					return
				}
				got, err := decode([]byte(text))
				if err != nil {
					note(name+" decode", err.Error())
					return
				}
				if !same(got, want) {
					note(name+" value", fmt.Sprintf("mask=%d text=%.200q want=%.200v", mask, text, want))
				}
				if !o.HTMLUnsafe && strings.ContainsAny(text, "<>&") {
					note(name+" html", text)
				}
				if strings.Contains(text, " ") || strings.Contains(text, " ") {
					note(name+" u2028 raw", text)
				}
			}
			j := oj.JSON(v, &o)
			check("oj.JSON", j)
			if g := oj.JSON(gv, &o); g != j {
				note("oj.JSON gen!=simple", fmt.Sprintf("%.150q vs %.150q", g, j))
			}
			for _, wl := range []int{1, 3, 17, 1024} {
				o2 := o
				o2.WriteLimit = wl
				var w chunkW
				if err := oj.Write(&w, v, &o2); err != nil {
					note("oj.Write error", err.Error())
				} else if w.String() != j {
					note("oj.Write != oj.JSON", fmt.Sprintf("wl=%d mask=%d\n        %.200q\n        %.200q", wl, mask, w.String(), j))
				}
			}
			if mask&16 == 0 && mask&1 == 0 {
				m, err := oj.Marshal(v, &o)
				if err != nil {
					note("oj.Marshal error", err.Error())
				} else if string(m) != j {
					note("oj.Marshal != oj.JSON", fmt.Sprintf("%.150q vs %.150q", m, j))
				}
				for _, width := range []int{1, 20, 80} {
					for _, align := range []bool{false, true} {
						p := pretty.JSON(v, &o, width, align)
						n++
						if !json.Valid([]byte(p)) {
							note(fmt.Sprintf("pretty.JSON invalid (align=%v)", align), fmt.Sprintf("%.300q", p))
							continue
						}
						got, _ := decode([]byte(p))
						if !same(got, want) {
							note(fmt.Sprintf("pretty.JSON value (OmitNil=%v OmitEmpty=%v)", o.OmitNil, o.OmitEmpty), fmt.Sprintf("%.200q want %.200v", p, want))
						}
						var w chunkW
						o3 := o
						o3.WriteLimit = 7
						if err := pretty.WriteJSON(&w, v, &o3, width, align); err != nil {
							note("pretty.WriteJSON error", err.Error())
						} else if w.String() != p {
							note("pretty.WriteJSON != pretty.JSON", fmt.Sprintf("%.150q vs %.150q", w.String(), p))
						}
					}
				}
			}
		}
	}
	var keys []string
	for k := range bad {
		keys = append(keys, k)
	}
	sort.Strings(keys)
	for _, k := range keys {
		fmt.Println(bad[k], k)
		for _, e := range ex[k] {
			fmt.Println("     ", e)
		}
	}
	fmt.Println("checked", n)
}
