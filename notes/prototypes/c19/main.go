package main

import (
	"fmt"
	"math/rand"
	"os"
	"sort"
	"strings"

	"github.com/ohler55/ojg/alt"
	"github.com/ohler55/ojg/sen"
)

type loc []any

func cat(a loc, b ...any) loc { return append(append(loc{}, a...), b...) }
func lk(l []any) string {
	var b strings.Builder
	for _, e := range l {
		fmt.Fprintf(&b, "/%v", e)
	}
	return b.String()
}

var leaf int

func genTree(r *rand.Rand, depth int) any {
	if depth <= 0 || r.Intn(4) == 0 {
		switch r.Intn(6) {
		case 0:
			return nil
		case 1:
			return r.Intn(2) == 0
		case 2:
			return fmt.Sprintf("s%d", r.Intn(5))
		case 3:
			return float64(r.Intn(5)) + 0.5
		default:
			return int64(r.Intn(9))
		}
	}
	if r.Intn(2) == 0 {
		n := r.Intn(4)
		a := make([]any, n)
		for i := range a {
			a[i] = genTree(r, depth-1)
		}
		return a
	}
	n := r.Intn(4)
	m := map[string]any{}
	for i := 0; i < n; i++ {
		m[string(rune('a'+r.Intn(4)))] = genTree(r, depth-1)
	}
	return m
}

// ref diff: list of differing locations (minimal: stops at first kind/leaf difference)
func isNum(v any) bool {
	switch v.(type) {
	case int64, float64:
		return true
	}
	return false
}
func refDiff(a, b any, pre loc, out *[]loc, lenDiffs *[]loc) {
	switch ta := a.(type) {
	case []any:
		tb, ok := b.([]any)
		if !ok {
			*out = append(*out, pre)
			return
		}
		n := len(ta)
		if len(tb) < n {
			n = len(tb)
		}
		for i := 0; i < n; i++ {
			refDiff(ta[i], tb[i], cat(pre, i), out, lenDiffs)
		}
		if len(ta) != len(tb) {
			*lenDiffs = append(*lenDiffs, cat(pre, n))
		}
	case map[string]any:
		tb, ok := b.(map[string]any)
		if !ok {
			*out = append(*out, pre)
			return
		}
		keys := map[string]bool{}
		for k := range ta {
			keys[k] = true
		}
		for k := range tb {
			keys[k] = true
		}
		for k := range keys {
			refDiff(ta[k], tb[k], cat(pre, k), out, lenDiffs)
		}
	default:
		switch b.(type) {
		case []any, map[string]any:
			*out = append(*out, pre)
			return
		}
		if a != b {
			*out = append(*out, pre)
		}
	}
}

func perturb(r *rand.Rand, v any) any {
	switch t := v.(type) {
	case []any:
		if len(t) > 0 && r.Intn(3) > 0 {
			i := r.Intn(len(t))
			t[i] = perturb(r, t[i])
			return t
		}
		switch r.Intn(3) {
		case 0:
			return append(t, int64(99))
		case 1:
			if len(t) > 0 {
				return t[:len(t)-1]
			}
		}
		return "changed"
	case map[string]any:
		if len(t) > 0 && r.Intn(3) > 0 {
			for k := range t {
				t[k] = perturb(r, t[k])
				break
			}
			return t
		}
		switch r.Intn(3) {
		case 0:
			t["zz"] = int64(1)
			return t
		case 1:
			for k := range t {
				delete(t, k)
				break
			}
			return t
		}
		return int64(-1)
	case nil:
		return int64(5)
	case int64:
		return t + 100
	default:
		return nil
	}
}

func key(v any) string { return sen.String(v, &sen.Options{Sort: true}) }

func main() {
	n := 200000
	if len(os.Args) > 1 {
		fmt.Sscan(os.Args[1], &n)
	}
	r := rand.New(rand.NewSource(1))
	bad := map[string]int{}
	ex := map[string][]string{}
	note := func(cls, detail string) {
		bad[cls]++
		if len(ex[cls]) < 4 {
			ex[cls] = append(ex[cls], detail)
		}
	}
	for it := 0; it < n; it++ {
		a := genTree(r, 3)
		b := alt.Dup(a, &alt.Options{})
		for k := r.Intn(3); k > 0; k-- {
			b = perturb(r, b)
		}
		// optional ignores
		var ignores []alt.Path
		var rd, ld []loc
		refDiff(a, b, loc{}, &rd, &ld)
		all := append(append([]loc{}, rd...), ld...)
		if len(all) > 0 && r.Intn(3) == 0 {
			// ignore one of the differences (maybe a prefix of it)
			d := all[r.Intn(len(all))]
			cut := len(d)
			if cut > 1 && r.Intn(2) == 0 {
				cut--
			}
			if cut > 0 {
				ign := alt.Path{}
				for _, e := range d[:cut] {
					ign = append(ign, e)
				}
				ignores = append(ignores, ign)
				if r.Intn(2) == 0 && len(all) > 1 {
					d2 := all[r.Intn(len(all))]
					if len(d2) > 0 {
						ign2 := alt.Path{}
						for _, e := range d2 {
							ign2 = append(ign2, e)
						}
						ignores = append(ignores, ign2)
					}
				}
			}
		}
		ignored := func(l loc) bool {
			for _, ig := range ignores {
				if len(ig) <= len(l) {
					ok := true
					for i, e := range ig {
						if e != nil && e != l[i] {
							ok = false
						}
					}
					if ok {
						return true
					}
				}
			}
			return false
		}
		var diffs []alt.Path
		var cmp alt.Path
		func() {
			defer func() {
				if rr := recover(); rr != nil {
					note("panic", fmt.Sprint(rr))
				}
			}()
			diffs = alt.Diff(a, b, ignores...)
			cmp = alt.Compare(a, b, ignores...)
		}()
		// expected set of (non ignored) difference roots
		want := map[string]bool{}
		for _, l := range all {
			if !ignored(l) {
				want[lk(l)] = true
			}
		}
		got := map[string]bool{}
		for _, d := range diffs {
			dd := []any{}
			for _, e := range d {
				if e != nil {
					dd = append(dd, e)
				}
			}
			got[lk(dd)] = true
		}
		ctx := fmt.Sprintf("a=%s b=%s ign=%v diffs=%v", key(a), key(b), ignores, diffs)
		for w := range want {
			if !got[w] {
				note("missed", "want "+w+" "+ctx)
				break
			}
		}
		for g := range got {
			if !want[g] {
				note("spurious", "got "+g+" "+ctx)
				break
			}
		}
		if (cmp == nil) != (len(diffs) == 0) {
			note("compare-nilness", ctx+fmt.Sprint(" cmp=", cmp))
		}
	}
	var keys []string
	for k := range bad {
		keys = append(keys, k)
	}
	sort.Strings(keys)
	for _, k := range keys {
		fmt.Println(bad[k], k)
		for _, e := range ex[k] {
			fmt.Println("     ", e)
		}
	}
	fmt.Println("done", n)
}
