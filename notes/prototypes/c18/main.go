package main

import (
	"encoding/json"
	"fmt"
	"math/rand"
	"reflect"
	"sort"
	"time"

	"github.com/ohler55/ojg"
	"github.com/ohler55/ojg/alt"
	"github.com/ohler55/ojg/gen"
	"github.com/ohler55/ojg/oj"
	"github.com/ohler55/ojg/sen"
)

func genTree(r *rand.Rand, depth int) any {
	if depth <= 0 || r.Intn(4) == 0 {
		switch r.Intn(8) {
		case 0:
			return nil
		case 1:
			return r.Intn(2) == 0
		case 2:
			return fmt.Sprintf("s%d", r.Intn(5))
		case 3:
			return float64(r.Intn(5)) + 0.5
		case 4:
			return time.Unix(int64(r.Intn(1e9)), int64(r.Intn(1e9))).UTC()
		case 5:
			return json.Number("123456789012345678901234567890")
		default:
			return int64(r.Intn(9))
		}
	}
	if r.Intn(2) == 0 {
		n := r.Intn(4)
		a := make([]any, n)
		for i := range a {
			a[i] = genTree(r, depth-1)
		}
		return a
	}
	n := r.Intn(4)
	m := map[string]any{}
	for i := 0; i < n; i++ {
		m[string(rune('a'+r.Intn(4)))] = genTree(r, depth-1)
	}
	return m
}

func ptrs(v any, out map[uintptr]string, path string) {
	rv := reflect.ValueOf(v)
	switch rv.Kind() {
	case reflect.Map:
		if rv.Len() > 0 || true {
			out[rv.Pointer()] = path
		}
		it := rv.MapRange()
		for it.Next() {
			ptrs(it.Value().Interface(), out, path+"."+it.Key().String())
		}
	case reflect.Slice:
		if rv.Cap() > 0 {
			out[rv.Pointer()] = path
		}
		for i := 0; i < rv.Len(); i++ {
			ptrs(rv.Index(i).Interface(), out, fmt.Sprintf("%s[%d]", path, i))
		}
	}
}

func shares(a, b any) string {
	pa, pb := map[uintptr]string{}, map[uintptr]string{}
	ptrs(a, pa, "")
	ptrs(b, pb, "")
	for p, w := range pa {
		if w2, ok := pb[p]; ok {
			return w + " ~ " + w2
		}
	}
	return ""
}

func ser(v any) string { return sen.String(v, &ojg.Options{Sort: true, TimeFormat: time.RFC3339Nano}) }

func main() {
	r := rand.New(rand.NewSource(1))
	bad := map[string]int{}
	ex := map[string][]string{}
	note := func(cls, detail string) {
		bad[cls]++
		if len(ex[cls]) < 4 {
			ex[cls] = append(ex[cls], detail)
		}
	}
	keep := &ojg.Options{TimeFormat: "time"}
	for it := 0; it < 50000; it++ {
		v := genTree(r, 3)
		s0 := ser(v)
		func() {
			defer func() {
				if rr := recover(); rr != nil {
					note("panic", fmt.Sprintf("%v on %s", rr, s0))
				}
			}()
			// Dup / Decompose
			d := alt.Dup(v, keep)
			if ser(d) != s0 {
				note("Dup value", s0+" -> "+ser(d))
			}
			if sh := shares(v, d); sh != "" {
				note("Dup shares", sh+" in "+s0)
			}
			// Generify -> Simplify
			g := alt.Generify(v, keep)
			var back any
			if g != nil {
				back = g.Simplify()
			}
			if ser(back) != s0 {
				note("Generify/Simplify value", s0+" -> "+ser(back))
			}
			if sh := shares(v, back); sh != "" {
				note("Generify/Simplify shares", sh)
			}
			if g != nil {
				g2 := g.Dup()
				if sh := shares(g, g2); sh != "" {
					note("Node.Dup shares", sh+" in "+s0)
				}
				if ser(g2) != ser(g) {
					note("Node.Dup value", ser(g)+" -> "+ser(g2))
				}
				// writers same text for gen and simple
				o := &ojg.Options{Sort: true, TimeFormat: time.RFC3339Nano}
				if oj.JSON(g, o) != oj.JSON(v, o) {
					note("oj.JSON gen!=simple", oj.JSON(g, o)+" vs "+oj.JSON(v, o))
				}
				if sen.String(g, o) != sen.String(v, o) {
					note("sen.String gen!=simple", sen.String(g, o)+" vs "+sen.String(v, o))
				}
			}
			// GenAlter -> Alter on a copy
			c := alt.Dup(v, keep)
			ga := alt.GenAlter(c, keep)
			var al any
			if ga != nil {
				al = ga.Alter()
			}
			if ser(al) != s0 {
				note("GenAlter/Alter value", s0+" -> "+ser(al))
			}
			if ser(v) != s0 {
				note("original changed", s0+" -> "+ser(v))
			}
		}()
	}
	// gen.Parser vs Generify(oj.Parse)
	for _, src := range []string{`[1,2.5,"a",null,true,{"a":[]}]`, `[123456789012345678901234567890, 1e400, 0.1e-400]`, `{"a":{"b":[1,{"c":null}]}}`} {
		var gp gen.Parser
		n, _ := gp.Parse([]byte(src))
		v, _ := oj.Parse([]byte(src))
		g := alt.Generify(v, keep)
		if !reflect.DeepEqual(n, g) {
			note("gen.Parse != Generify(oj.Parse)", fmt.Sprintf("%s: %#v vs %#v", src, n, g))
		}
	}
	var keys []string
	for k := range bad {
		keys = append(keys, k)
	}
	sort.Strings(keys)
	for _, k := range keys {
		fmt.Println(bad[k], k)
		for _, e := range ex[k] {
			fmt.Println("     ", e)
		}
	}
	fmt.Println("done")
}
