package main

import (
	"sort"

	"github.com/ohler55/ojg/jp"
)

type loc []any

type res struct {
	loc loc
	v   any
}

func children(v any) []res {
	var out []res
	switch t := v.(type) {
	case []any:
		for i, c := range t {
			out = append(out, res{loc{i}, c})
		}
	case map[string]any:
		keys := make([]string, 0, len(t))
		for k := range t {
			keys = append(keys, k)
		}
		sort.Strings(keys)
		for _, k := range keys {
			out = append(out, res{loc{k}, t[k]})
		}
	}
	return out
}

func isContainer(v any) bool {
	switch v.(type) {
	case []any, map[string]any:
		return true
	}
	return false
}

func cat(a loc, b ...any) loc { return append(append(loc{}, a...), b...) }

func sliceIdx(f jp.Slice, n int) []int {
	start, end, step := 0, 1<<31-1, 1
	if 0 < len(f) {
		start = f[0]
	}
	if 1 < len(f) {
		end = f[1]
	}
	if 2 < len(f) {
		step = f[2]
	}
	if step == 0 {
		return nil
	}
	if start < 0 {
		start += n
		if start < 0 {
			start = 0
		}
	}
	if end < 0 {
		end += n
	}
	if n <= start {
		return nil
	}
	var out []int
	if step > 0 {
		if n < end {
			end = n
		}
		for i := start; i < end; i += step {
			out = append(out, i)
		}
	} else {
		if end < -1 {
			end = -1
		}
		for i := start; end < i; i += step {
			out = append(out, i)
		}
	}
	return out
}

func eval(x jp.Expr, root any, cur res) []res {
	if len(x) == 0 {
		return []res{cur}
	}
	f, rest := x[0], x[1:]
	var next []res
	switch tf := f.(type) {
	case jp.Root:
		next = []res{{loc{}, root}}
	case jp.At, jp.Bracket:
		next = []res{cur}
	case jp.Child:
		if m, ok := cur.v.(map[string]any); ok {
			if v, has := m[string(tf)]; has {
				next = []res{{cat(cur.loc, string(tf)), v}}
			}
		}
	case jp.Nth:
		if a, ok := cur.v.([]any); ok {
			i := int(tf)
			if i < 0 {
				i += len(a)
			}
			if 0 <= i && i < len(a) {
				next = []res{{cat(cur.loc, i), a[i]}}
			}
		}
	case jp.Wildcard:
		for _, c := range children(cur.v) {
			next = append(next, res{cat(cur.loc, c.loc...), c.v})
		}
	case jp.Union:
		for _, u := range tf {
			switch tu := u.(type) {
			case string:
				if m, ok := cur.v.(map[string]any); ok {
					if v, has := m[tu]; has {
						next = append(next, res{cat(cur.loc, tu), v})
					}
				}
			case int64:
				if a, ok := cur.v.([]any); ok {
					i := int(tu)
					if i < 0 {
						i += len(a)
					}
					if 0 <= i && i < len(a) {
						next = append(next, res{cat(cur.loc, i), a[i]})
					}
				}
			}
		}
	case jp.Slice:
		if a, ok := cur.v.([]any); ok {
			for _, i := range sliceIdx(tf, len(a)) {
				next = append(next, res{cat(cur.loc, i), a[i]})
			}
		}
	case jp.Descent:
		var all []res
		var walk func(r res)
		walk = func(r res) {
			all = append(all, r)
			for _, c := range children(r.v) {
				walk(res{cat(r.loc, c.loc...), c.v})
			}
		}
		walk(cur)
		if len(rest) == 0 {
			return all
		}
		var out []res
		for _, r := range all {
			out = append(out, eval(rest, root, r)...)
		}
		return out
	case *jp.Filter:
		for _, c := range children(cur.v) {
			if tf.Match(c.v) {
				next = append(next, res{cat(cur.loc, c.loc...), c.v})
			}
		}
	}
	var out []res
	for _, r := range next {
		if len(rest) > 0 && !isContainer(r.v) {
			switch rest[0].(type) {
			case jp.Root, jp.At, jp.Bracket:
			default:
				continue
			}
		}
		out = append(out, eval(rest, root, r)...)
	}
	return out
}

