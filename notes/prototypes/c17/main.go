package main

import (
	"fmt"
	"math/rand"
	"os"
	"sort"
	"strings"

	"github.com/ohler55/ojg"
	"github.com/ohler55/ojg/jp"
	"github.com/ohler55/ojg/oj"
	"github.com/ohler55/ojg/sen"
)

var leaf int

func genTree(r *rand.Rand, depth int) any {
	if depth <= 0 || r.Intn(4) == 0 {
		leaf++
		return int64(leaf)
	}
	if r.Intn(2) == 0 {
		n := r.Intn(5)
		a := make([]any, n)
		for i := range a {
			a[i] = genTree(r, depth-1)
		}
		return a
	}
	n := r.Intn(4)
	m := map[string]any{}
	for i := 0; i < n; i++ {
		m[string(rune('a'+r.Intn(4)))] = genTree(r, depth-1)
	}
	return m
}

func genPath(r *rand.Rand) jp.Expr {
	x := jp.Expr{jp.Root('$')}
	n := 1 + r.Intn(3)
	for i := 0; i < n; i++ {
		k := r.Intn(8)
		switch k {
		case 0, 1:
			x = append(x, jp.Child(string(rune('a'+r.Intn(5)))))
		case 2:
			x = append(x, jp.Nth(r.Intn(6)-1))
		case 3:
			x = append(x, jp.Wildcard('*'))
		case 4:
			if i < n-1 {
				x = append(x, jp.Descent('.'))
			} else {
				x = append(x, jp.Wildcard('*'))
			}
		case 5:
			var u jp.Union
			for j := 0; j < 1+r.Intn(3); j++ {
				if r.Intn(2) == 0 {
					u = append(u, string(rune('a'+r.Intn(5))))
				} else {
					u = append(u, int64(r.Intn(5)))
				}
			}
			x = append(x, u)
		case 6:
			s := jp.Slice{r.Intn(4)}
			if r.Intn(2) > 0 {
				s = append(s, 1+r.Intn(5))
			}
			x = append(x, s)
		case 7:
			if i == n-1 {
				x = append(x, jp.MustNewFilter(fmt.Sprintf("[?(@ > %d)]", r.Intn(30))))
			} else {
				x = append(x, jp.Wildcard('*'))
			}
		}
	}
	return x
}

func key(v any) string { return sen.String(v, &ojg.Options{Sort: true}) }

func locLess(a, b loc) bool {
	for i := 0; i < len(a) && i < len(b); i++ {
		if a[i] == b[i] {
			continue
		}
		ai, aok := a[i].(int)
		bi, bok := b[i].(int)
		if aok && bok {
			return ai < bi
		}
		return fmt.Sprint(a[i]) < fmt.Sprint(b[i])
	}
	return len(a) < len(b)
}

func locStr(l loc) string {
	x := jp.R()
	for _, e := range l {
		switch t := e.(type) {
		case int:
			x = x.N(t)
		case string:
			x = x.C(t)
		}
	}
	return x.String()
}

func main() {
	n := 50000
	if len(os.Args) > 1 {
		fmt.Sscan(os.Args[1], &n)
	}
	r := rand.New(rand.NewSource(1))
	bad := map[string]int{}
	ex := map[string][]string{}
	for it := 0; it < n; it++ {
		leaf = 0
		d := genTree(r, 3)
		doc := oj.JSON(d, &ojg.Options{Sort: true})
		var targets []jp.Expr
		for k := 1 + r.Intn(2); k > 0; k-- {
			targets = append(targets, genPath(r))
		}
		// expected
		sel := map[string]res{}
		for _, t := range targets {
			for _, l := range eval(t, d, res{loc{}, d}) {
				sel[locStr(l.loc)] = l
			}
		}
		var outer []res
		for _, l := range sel {
			nested := false
			for _, o := range sel {
				if len(o.loc) < len(l.loc) {
					pre := true
					for i := range o.loc {
						if o.loc[i] != l.loc[i] {
							pre = false
						}
					}
					if pre {
						nested = true
					}
				}
			}
			if !nested {
				outer = append(outer, l)
			}
		}
		sort.Slice(outer, func(i, j int) bool { return locLess(outer[i].loc, outer[j].loc) })
		var want []string
		for _, l := range outer {
			want = append(want, locStr(l.loc)+"="+key(l.v))
		}
		var got []string
		var err error
		func() {
			defer func() {
				if rr := recover(); rr != nil {
					err = fmt.Errorf("PANIC %v", rr)
				}
			}()
			err = oj.Match([]byte(doc), func(p jp.Expr, v any) { got = append(got, p.String()+"="+key(v)) }, targets...)
		}()
		if err != nil || fmt.Sprint(got) != fmt.Sprint(want) {
			sig := ""
			kinds := map[string]bool{}
			for _, t := range targets {
				for _, f := range t[1:] {
					k := strings.TrimPrefix(fmt.Sprintf("%T", f), "jp.")
					if nth, ok := f.(jp.Nth); ok && nth < 0 {
						k = "NegNth"
					}
					kinds[k] = true
				}
			}
			var ks []string
			for k := range kinds {
				ks = append(ks, k)
			}
			sort.Strings(ks)
			sig = strings.Join(ks, "+")
			if err != nil {
				sig = "ERR " + sig
			}
			bad[sig]++
			if len(ex[sig]) < 2 {
				ex[sig] = append(ex[sig], fmt.Sprintf("%v on %s\n        got  %v %v\n        want %v", targets, doc, got, err, want))
			}
		}
	}
	type kv struct {
		k string
		v int
	}
	var l []kv
	tot := 0
	for k, v := range bad {
		l = append(l, kv{k, v})
		tot += v
	}
	sort.Slice(l, func(i, j int) bool { return l[i].v > l[j].v })
	fmt.Println("mismatches", tot, "of", n)
	for i, e := range l {
		if i > 25 {
			break
		}
		fmt.Println(e.v, e.k)
		for _, s := range ex[e.k][:1] {
			fmt.Println("   ", s)
		}
	}
}
