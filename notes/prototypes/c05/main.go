package main

import (
	"fmt"
	"math/rand"
	"os"
	"sort"

	"github.com/ohler55/ojg/jp"
	"github.com/ohler55/ojg/sen"
)

type loc []any

type res struct {
	loc loc
	v   any
}

func children(v any) []res {
	var out []res
	switch t := v.(type) {
	case []any:
		for i, c := range t {
			out = append(out, res{loc{i}, c})
		}
	case map[string]any:
		keys := make([]string, 0, len(t))
		for k := range t {
			keys = append(keys, k)
		}
		sort.Strings(keys)
		for _, k := range keys {
			out = append(out, res{loc{k}, t[k]})
		}
	}
	return out
}

func isContainer(v any) bool {
	switch v.(type) {
	case []any, map[string]any:
		return true
	}
	return false
}

func cat(a loc, b ...any) loc { return append(append(loc{}, a...), b...) }

func sliceIdx(f jp.Slice, n int) []int {
	start, end, step := 0, 1<<31-1, 1
	if 0 < len(f) {
		start = f[0]
	}
	if 1 < len(f) {
		end = f[1]
	}
	if 2 < len(f) {
		step = f[2]
	}
	if step == 0 {
		return nil
	}
	if start < 0 {
		start += n
		if start < 0 {
			start = 0
		}
	}
	if end < 0 {
		end += n
	}
	if n <= start {
		return nil
	}
	var out []int
	if step > 0 {
		if n < end {
			end = n
		}
		for i := start; i < end; i += step {
			out = append(out, i)
		}
	} else {
		if end < -1 {
			end = -1
		}
		for i := start; end < i; i += step {
			out = append(out, i)
		}
	}
	return out
}

func eval(x jp.Expr, root any, cur res) []res {
	if len(x) == 0 {
		return []res{cur}
	}
	f, rest := x[0], x[1:]
	var next []res
	switch tf := f.(type) {
	case jp.Root:
		next = []res{{loc{}, root}}
	case jp.At, jp.Bracket:
		next = []res{cur}
	case jp.Child:
		if m, ok := cur.v.(map[string]any); ok {
			if v, has := m[string(tf)]; has {
				next = []res{{cat(cur.loc, string(tf)), v}}
			}
		}
	case jp.Nth:
		if a, ok := cur.v.([]any); ok {
			i := int(tf)
			if i < 0 {
				i += len(a)
			}
			if 0 <= i && i < len(a) {
				next = []res{{cat(cur.loc, i), a[i]}}
			}
		}
	case jp.Wildcard:
		for _, c := range children(cur.v) {
			next = append(next, res{cat(cur.loc, c.loc...), c.v})
		}
	case jp.Union:
		for _, u := range tf {
			switch tu := u.(type) {
			case string:
				if m, ok := cur.v.(map[string]any); ok {
					if v, has := m[tu]; has {
						next = append(next, res{cat(cur.loc, tu), v})
					}
				}
			case int64:
				if a, ok := cur.v.([]any); ok {
					i := int(tu)
					if i < 0 {
						i += len(a)
					}
					if 0 <= i && i < len(a) {
						next = append(next, res{cat(cur.loc, i), a[i]})
					}
				}
			}
		}
	case jp.Slice:
		if a, ok := cur.v.([]any); ok {
			for _, i := range sliceIdx(tf, len(a)) {
				next = append(next, res{cat(cur.loc, i), a[i]})
			}
		}
	case jp.Descent:
		var all []res
		var walk func(r res)
		walk = func(r res) {
			all = append(all, r)
			for _, c := range children(r.v) {
				walk(res{cat(r.loc, c.loc...), c.v})
			}
		}
		walk(cur)
		if len(rest) == 0 {
			return all
		}
		var out []res
		for _, r := range all {
			out = append(out, eval(rest, root, r)...)
		}
		return out
	case *jp.Filter:
		for _, c := range children(cur.v) {
			if tf.Match(c.v) {
				next = append(next, res{cat(cur.loc, c.loc...), c.v})
			}
		}
	}
	var out []res
	for _, r := range next {
		if len(rest) > 0 && !isContainer(r.v) {
			switch rest[0].(type) {
			case jp.Root, jp.At, jp.Bracket:
			default:
				continue
			}
		}
		out = append(out, eval(rest, root, r)...)
	}
	return out
}

var leaf int

func genTree(r *rand.Rand, depth int) any {
	if depth <= 0 || r.Intn(4) == 0 {
		leaf++
		return int64(leaf)
	}
	if r.Intn(2) == 0 {
		n := r.Intn(5)
		a := make([]any, n)
		for i := range a {
			a[i] = genTree(r, depth-1)
		}
		return a
	}
	n := r.Intn(4)
	m := map[string]any{}
	for i := 0; i < n; i++ {
		m[string(rune('a'+r.Intn(4)))] = genTree(r, depth-1)
	}
	return m
}

func genPath(r *rand.Rand) jp.Expr {
	var x jp.Expr
	if r.Intn(2) == 0 {
		x = append(x, jp.Root('$'))
	}
	n := 1 + r.Intn(4)
	for i := 0; i < n; i++ {
		switch r.Intn(8) {
		case 0:
			x = append(x, jp.Child(string(rune('a'+r.Intn(5)))))
		case 1:
			x = append(x, jp.Nth(r.Intn(9)-4))
		case 2:
			x = append(x, jp.Wildcard('*'))
		case 3:
			if i < n-1 {
				x = append(x, jp.Descent('.'))
			} else {
				x = append(x, jp.Wildcard('*'))
			}
		case 4:
			var u jp.Union
			for j := 0; j < 1+r.Intn(3); j++ {
				if r.Intn(2) == 0 {
					u = append(u, string(rune('a'+r.Intn(5))))
				} else {
					u = append(u, int64(r.Intn(9)-4))
				}
			}
			x = append(x, u)
		case 5, 6:
			s := jp.Slice{r.Intn(13) - 6}
			if r.Intn(4) > 0 {
				s = append(s, r.Intn(13)-6)
				if r.Intn(2) > 0 {
					s = append(s, r.Intn(7)-3)
				}
			}
			x = append(x, s)
		case 7:
			x = append(x, jp.MustNewFilter(fmt.Sprintf("[?(@ > %d)]", r.Intn(40))))
		}
	}
	return x
}

func key(v any) string { return sen.String(v, &sen.Options{Sort: true}) }

func keys(vs []any) []string {
	out := make([]string, len(vs))
	for i, v := range vs {
		out[i] = key(v)
	}
	sort.Strings(out)
	return out
}

func main() {
	n := 200000
	if len(os.Args) > 1 {
		fmt.Sscan(os.Args[1], &n)
	}
	r := rand.New(rand.NewSource(1))
	bad := map[string]int{}
	ex := map[string][]string{}
	note := func(kind string, x jp.Expr, d any, detail string) {
		sig := kind + ": "
		for _, f := range x {
			sig += fmt.Sprintf("%T ", f)
		}
		bad[sig]++
		if len(ex[sig]) < 2 {
			ex[sig] = append(ex[sig], fmt.Sprintf("%s on %s\n      %s", x, key(d), detail))
		}
	}
	for it := 0; it < n; it++ {
		leaf = 0
		d := genTree(r, 4)
		x := genPath(r)
		var got []any
		var locs []jp.Expr
		var has bool
		var first any
		var walked []any
		func() {
			defer func() {
				if rr := recover(); rr != nil {
					got = []any{fmt.Sprintf("PANIC %v", rr)}
				}
			}()
			got = x.Get(d)
			locs = x.Locate(d, 0)
			has = x.Has(d)
			first = x.First(d)
			x.Walk(d, func(p jp.Expr, nodes []any) { walked = append(walked, nodes[len(nodes)-1]) })
		}()
		want := eval(x, d, res{loc{}, d})
		wv := make([]any, len(want))
		for i, w := range want {
			wv[i] = w.v
		}
		gk, wk := keys(got), keys(wv)
		if fmt.Sprint(gk) != fmt.Sprint(wk) {
			note("Get!=J", x, d, fmt.Sprintf("got %v\n      want %v", gk, wk))
			continue
		}
		if has != (len(got) > 0) {
			note("Has", x, d, fmt.Sprint(has, len(got)))
		}
		if len(got) > 0 {
			fk := key(first)
			found := false
			for _, g := range gk {
				if g == fk {
					found = true
				}
			}
			if !found {
				note("First", x, d, fk)
			}
		} else if first != nil {
			note("First-nonempty", x, d, key(first))
		}
		var lv []any
		for _, l := range locs {
			lv = append(lv, l.Get(d)...)
		}
		if fmt.Sprint(keys(lv)) != fmt.Sprint(gk) {
			note("Locate", x, d, fmt.Sprintf("locs %v\n      get %v", locs, gk))
		}
		if fmt.Sprint(keys(walked)) != fmt.Sprint(gk) {
			note("Walk", x, d, fmt.Sprintf("walk %v\n      get %v", keys(walked), gk))
		}
	}
	type kv struct {
		k string
		v int
	}
	var l []kv
	tot := 0
	for k, v := range bad {
		l = append(l, kv{k, v})
		tot += v
	}
	sort.Slice(l, func(i, j int) bool { return l[i].v > l[j].v })
	kinds := map[string]int{}
	for _, e := range l {
		kinds[e.k[:6]] += e.v
	}
	fmt.Println("mismatches", tot, "of", n, "classes", len(l), kinds)
	for i, e := range l {
		if i > 400 {
			break
		}
		fmt.Println(e.v, e.k)
		for _, s := range ex[e.k] {
			fmt.Println("   ", s)
		}
	}
}
