package main

import (
	"fmt"
	"math/rand"
	"os"
	"reflect"
	"sort"
	"strings"

	"github.com/ohler55/ojg/alt"
	"github.com/ohler55/ojg/jp"
	"github.com/ohler55/ojg/sen"
)

var leaf int

func genTree(r *rand.Rand, depth int) any {
	if depth <= 0 || r.Intn(4) == 0 {
		leaf++
		return int64(leaf)
	}
	if r.Intn(2) == 0 {
		n := r.Intn(5)
		a := make([]any, n)
		for i := range a {
			a[i] = genTree(r, depth-1)
		}
		return a
	}
	n := r.Intn(4)
	m := map[string]any{}
	for i := 0; i < n; i++ {
		m[string(rune('a'+r.Intn(4)))] = genTree(r, depth-1)
	}
	return m
}

func genPath(r *rand.Rand, lastKinds []int) jp.Expr {
	var x jp.Expr
	if r.Intn(2) == 0 {
		x = append(x, jp.Root('$'))
	}
	n := 1 + r.Intn(3)
	for i := 0; i < n; i++ {
		k := r.Intn(8)
		if i == n-1 {
			k = lastKinds[r.Intn(len(lastKinds))]
		}
		switch k {
		case 0:
			x = append(x, jp.Child(string(rune('a'+r.Intn(5)))))
		case 1:
			x = append(x, jp.Nth(r.Intn(9)-4))
		case 2:
			x = append(x, jp.Wildcard('*'))
		case 3:
			if i < n-1 {
				x = append(x, jp.Descent('.'))
			} else {
				x = append(x, jp.Wildcard('*'))
			}
		case 4:
			var u jp.Union
			for j := 0; j < 1+r.Intn(3); j++ {
				if r.Intn(2) == 0 {
					u = append(u, string(rune('a'+r.Intn(5))))
				} else {
					u = append(u, int64(r.Intn(9)-4))
				}
			}
			x = append(x, u)
		case 5, 6:
			s := jp.Slice{r.Intn(13) - 6}
			if r.Intn(4) > 0 {
				s = append(s, r.Intn(13)-6)
				if r.Intn(2) > 0 {
					s = append(s, r.Intn(7)-3)
				}
			}
			x = append(x, s)
		case 7:
			x = append(x, jp.MustNewFilter(fmt.Sprintf("[?(@ > %d)]", r.Intn(40))))
		}
	}
	return x
}

func key(v any) string { return sen.String(v, &sen.Options{Sort: true}) }

func locKey(l loc) string {
	var b strings.Builder
	for _, e := range l {
		fmt.Fprintf(&b, "/%v", e)
	}
	return b.String()
}

// leaves returns map location->value for every node (containers as markers) of v
func flatten(v any, pre loc, out map[string]string) {
	switch t := v.(type) {
	case []any:
		out[locKey(pre)] = fmt.Sprintf("[%d]", len(t))
		for i, c := range t {
			flatten(c, cat(pre, i), out)
		}
	case map[string]any:
		out[locKey(pre)] = "{}"
		for k, c := range t {
			flatten(c, cat(pre, k), out)
		}
	default:
		out[locKey(pre)] = key(v)
	}
}

func under(q string, ls map[string]bool) bool {
	for l := range ls {
		if q == l || strings.HasPrefix(q, l+"/") {
			return true
		}
	}
	return false
}

func above(q string, ls map[string]bool) bool {
	for l := range ls {
		if strings.HasPrefix(l, q+"/") || q == "" && l != "" {
			return true
		}
	}
	return false
}

func refDel(v any, pre loc, ls map[string]bool) any {
	switch t := v.(type) {
	case []any:
		out := make([]any, len(t))
		for i, c := range t {
			if ls[locKey(cat(pre, i))] {
				out[i] = nil
			} else {
				out[i] = refDel(c, cat(pre, i), ls)
			}
		}
		return out
	case map[string]any:
		out := map[string]any{}
		for k, c := range t {
			if ls[locKey(cat(pre, k))] {
				continue
			}
			out[k] = refDel(c, cat(pre, k), ls)
		}
		return out
	}
	return v
}

func refRemove(v any, pre loc, ls map[string]bool) any {
	switch t := v.(type) {
	case []any:
		out := []any{}
		for i, c := range t {
			if ls[locKey(cat(pre, i))] {
				continue
			}
			out = append(out, refRemove(c, cat(pre, i), ls))
		}
		return out
	case map[string]any:
		out := map[string]any{}
		for k, c := range t {
			if ls[locKey(cat(pre, k))] {
				continue
			}
			out[k] = refRemove(c, cat(pre, k), ls)
		}
		return out
	}
	return v
}

func main() {
	n := 100000
	if len(os.Args) > 1 {
		fmt.Sscan(os.Args[1], &n)
	}
	r := rand.New(rand.NewSource(1))
	bad := map[string]int{}
	ex := map[string][]string{}
	note := func(kind string, x jp.Expr, d any, detail string) {
		sig := kind + ": "
		for _, f := range x {
			sig += strings.TrimPrefix(fmt.Sprintf("%T ", f), "jp.")
		}
		bad[sig]++
		if len(ex[sig]) < 2 {
			ex[sig] = append(ex[sig], fmt.Sprintf("%s on %s\n      %s", x, key(d), detail))
		}
	}
	counts := map[string]int{}
	for it := 0; it < n; it++ {
		leaf = 0
		d0 := genTree(r, 3)
		op := []string{"Set", "SetOne", "Del", "DelOne", "Remove", "RemoveOne", "Modify"}[r.Intn(7)]
		var x jp.Expr
		switch op {
		case "Set", "SetOne", "Del", "DelOne":
			x = genPath(r, []int{0, 1, 2, 4})
		default:
			x = genPath(r, []int{0, 1, 2, 4, 5, 7})
		}
		L0 := eval(x, d0, res{loc{}, d0})
		l0 := map[string]bool{}
		for _, l := range L0 {
			l0[locKey(l.loc)] = true
		}
		d := alt.Dup(d0, &alt.Options{})
		var err error
		var result any = d
		func() {
			defer func() {
				if rr := recover(); rr != nil {
					err = fmt.Errorf("PANIC %v", rr)
				}
			}()
			switch op {
			case "Set":
				err = x.Set(d, "S")
			case "SetOne":
				err = x.SetOne(d, "S")
			case "Del":
				err = x.Del(d)
			case "DelOne":
				err = x.DelOne(d)
			case "Remove":
				result, err = x.Remove(d)
			case "RemoveOne":
				result, err = x.RemoveOne(d)
			case "Modify":
				result, err = x.Modify(d, func(e any) (any, bool) {
					if i, ok := e.(int64); ok {
						return fmt.Sprintf("M%d", i), true
					}
					return e, false
				})
			}
		}()
		counts[op]++
		if err != nil {
			msg := err.Error()
			if strings.HasPrefix(msg, "PANIC") {
				note(op+" panic", x, d0, msg)
			} else if !strings.HasPrefix(msg, "can not ") {
				note(op+" odd-error", x, d0, msg)
			} else if op == "Remove" || op == "RemoveOne" || op == "Modify" {
				note(op+" error", x, d0, msg)
			}
			continue
		}
		switch op {
		case "Del":
			want := refDel(d0, loc{}, l0)
			if !reflect.DeepEqual(want, result) {
				note(op+" state", x, d0, fmt.Sprintf("got  %s\n      want %s", key(result), key(want)))
			}
		case "Remove":
			want := refRemove(d0, loc{}, l0)
			if !reflect.DeepEqual(want, result) {
				note(op+" state", x, d0, fmt.Sprintf("got  %s\n      want %s", key(result), key(want)))
			}
		case "DelOne", "RemoveOne":
			ok := len(l0) == 0 && reflect.DeepEqual(d0, result)
			for l := range l0 {
				one := map[string]bool{l: true}
				var want any
				if op == "DelOne" {
					want = refDel(d0, loc{}, one)
				} else {
					want = refRemove(d0, loc{}, one)
				}
				if reflect.DeepEqual(want, result) {
					ok = true
				}
			}
			if !ok {
				note(op+" state", x, d0, fmt.Sprintf("got  %s locs %v", key(result), l0))
			}
		case "Modify":
			want := alt.Dup(d0, &alt.Options{})
			// rewrite scalars at l0
			var rw func(v any, pre loc) any
			rw = func(v any, pre loc) any {
				switch t := v.(type) {
				case []any:
					for i, c := range t {
						t[i] = rw(c, cat(pre, i))
					}
				case map[string]any:
					for k, c := range t {
						t[k] = rw(c, cat(pre, k))
					}
				case int64:
					if l0[locKey(pre)] {
						return fmt.Sprintf("M%d", t)
					}
				}
				return v
			}
			want = rw(want, loc{})
			if !reflect.DeepEqual(want, result) {
				note(op+" state", x, d0, fmt.Sprintf("got  %s\n      want %s", key(result), key(want)))
			}
		case "Set", "SetOne":
			L1 := eval(x, d, res{loc{}, d})
			l1 := map[string]bool{}
			for _, l := range L1 {
				l1[locKey(l.loc)] = true
			}
			f0, f1 := map[string]string{}, map[string]string{}
			flatten(d0, loc{}, f0)
			flatten(d, loc{}, f1)
			changedSel := 0
			for q, v1 := range f1 {
				v0, had := f0[q]
				if had && v0 == v1 {
					continue
				}
				if under(q, l1) {
					continue
				}
				if above(q, l1) && (!had || strings.HasPrefix(v0, "[") || v0 == "{}") {
					continue // created / grown container on the way
				}
				if !had && v1 == "null" {
					continue // filler
				}
				note(op+" frame-changed", x, d0, fmt.Sprintf("at %s: %q -> %q ; after %s", q, v0, v1, key(d)))
				break
			}
			for q := range f0 {
				if _, still := f1[q]; !still && !under(q, l1) && !under(q, l0) {
					note(op+" frame-removed", x, d0, fmt.Sprintf("at %s ; after %s", q, key(d)))
					break
				}
			}
			for l := range l1 {
				if f1[l] != `S` {
					if op == "Set" {
						note(op+" selected-not-set", x, d0, fmt.Sprintf("at %s = %s; after %s", l, f1[l], key(d)))
						break
					}
				} else if f0[l] != f1[l] {
					changedSel++
				}
			}
			if op == "Set" {
				for l := range l0 {
					if !l1[l] {
						note(op+" lost-selection", x, d0, fmt.Sprintf("%s; after %s", l, key(d)))
						break
					}
				}
			}
			if op == "SetOne" && changedSel > 1 {
				note(op+" many", x, d0, fmt.Sprintf("changed %d; after %s", changedSel, key(d)))
			}
		}
	}
	type kv struct {
		k string
		v int
	}
	var l []kv
	tot := 0
	kinds := map[string]int{}
	for k, v := range bad {
		l = append(l, kv{k, v})
		tot += v
		kinds[strings.SplitN(k, ":", 2)[0]] += v
	}
	sort.Slice(l, func(i, j int) bool { return l[i].v > l[j].v })
	fmt.Println("mismatches", tot, "of", n, "classes", len(l), "\n", kinds, "\n", counts)
	shown := map[string]int{}
	for _, e := range l {
		kind := strings.SplitN(e.k, ":", 2)[0]
		if shown[kind] >= 3 {
			continue
		}
		shown[kind]++
		fmt.Println(e.v, e.k)
		for _, s := range ex[e.k] {
			fmt.Println("   ", s)
		}
	}
}
