package main

import (
	"fmt"
	"math/rand"
		"sort"

	"github.com/ohler55/ojg/jp"
)

func try(f func()) (p any) {
	defer func() { p = recover() }()
	f()
	return nil
}

var datas = []any{
	map[string]any{"a": []any{int64(1), map[string]any{"x": int64(1), "a": int64(2)}, []any{int64(3), int64(4)}}, "b c": int64(5), "x.y": map[string]any{"a": int64(6)}, "": int64(7), "x": int64(1)},
	[]any{map[string]any{"a": int64(1), "x": int64(1)}, []any{int64(2), int64(3), int64(4)}, int64(5), map[string]any{"b c": []any{int64(6)}}},
}

func sortedKeys(vs []any) []string {
	out := make([]string, len(vs))
	for i, v := range vs {
		out[i] = fmt.Sprintf("%v", v)
	}
	sort.Strings(out)
	return out
}

func main() {
	bad := map[string]int{}
	ex := map[string][]string{}
	note := func(cls, detail string) {
		bad[cls]++
		if len(ex[cls]) < 8 {
			ex[cls] = append(ex[cls], detail)
		}
	}
	check := func(x jp.Expr, label string) {
		for _, br := range []bool{false, true} {
			var s1, s2 string
			var x2 jp.Expr
			var err error
			if p := try(func() {
				if br {
					s1 = x.BracketString()
				} else {
					s1 = x.String()
				}
				x2, err = jp.ParseString(s1)
				if err == nil {
					if br {
						s2 = x2.BracketString()
					} else {
						s2 = x2.String()
					}
				}
			}); p != nil {
				note(label+" panic", fmt.Sprintf("%#v: %v", x, p))
				continue
			}
			if err != nil {
				note(label+" parse-error", fmt.Sprintf("%q: %v", s1, err))
				continue
			}
			if s1 != s2 {
				note(label+" print-differs", fmt.Sprintf("%q -> %q", s1, s2))
				continue
			}
			// evaluation equality on sample data
			for _, d := range datas {
				if fmt.Sprint(sortedKeys(x.Get(d))) != fmt.Sprint(sortedKeys(x2.Get(d))) {
					note(label+" evaluates-differently", fmt.Sprintf("%q", s1))
					break
				}
			}
		}
	}
	// every single byte key, alone and embedded, in first/middle/last position
	for b := 0; b < 256; b++ {
		for _, k := range []string{string([]byte{byte(b)}), "a" + string([]byte{byte(b)}) + "b"} {
			check(jp.C(k), "key-first")
			check(jp.R().C(k), "key-afterroot")
			check(jp.R().C("x").C(k).N(0), "key-middle")
			check(jp.R().D().C(k), "key-afterdescent")
			check(jp.R().U(k, 1, "z"), "union-key")
		}
	}
	for _, k := range []string{"", "*", "$", "@", "1", "-1", "0x", "a.b", "a b", "a'b", `a"b`, `a\b`, "a]b", "a[b", "日本", "true", "..", "?", "a,b", " ", "\xff\xfe"} {
		check(jp.C(k), "special-first")
		check(jp.R().C(k), "special-afterroot")
		check(jp.R().D().C(k), "special-afterdescent")
		check(jp.R().W().C(k).W(), "special-middle")
		check(jp.R().U(k, "b"), "special-union")
	}
	// fragment kinds in positions
	r := rand.New(rand.NewSource(1))
	frag := func() jp.Frag {
		switch r.Intn(9) {
		case 0:
			return jp.Child([]string{"a", "b c", "x.y", ""}[r.Intn(4)])
		case 1:
			return jp.Nth(r.Intn(7) - 3)
		case 2:
			return jp.Wildcard('*')
		case 3:
			return jp.Descent('.')
		case 4:
			return jp.Union{"a", int64(r.Intn(5) - 2)}
		case 5:
			s := jp.Slice{r.Intn(7) - 3}
			for i := r.Intn(3); i > 0; i-- {
				s = append(s, r.Intn(7)-3)
			}
			return s
		case 6:
			return jp.MustNewFilter("[?(@.x == 1)]")
		default:
			return jp.Slice{}
		}
	}
	for i := 0; i < 20000; i++ {
		var x jp.Expr
		switch r.Intn(3) {
		case 0:
			x = append(x, jp.Root('$'))
		case 1:
			x = append(x, jp.At('@'))
		}
		for n := 1 + r.Intn(4); n > 0; n-- {
			x = append(x, frag())
		}
		check(x, "random")
	}
	var keys []string
	for k := range bad {
		keys = append(keys, k)
	}
	sort.Strings(keys)
	for _, k := range keys {
		fmt.Println(bad[k], k)
		for _, e := range ex[k] {
			fmt.Println("     ", e)
		}
	}
}
