package main

import (
	"encoding/json"
	"fmt"
	"math/rand"
	"reflect"
	"sort"
	"strings"

	"github.com/ohler55/ojg"
	"github.com/ohler55/ojg/alt"
	"github.com/ohler55/ojg/oj"
	"github.com/ohler55/ojg/pretty"
	"github.com/ohler55/ojg/sen"
)

var scalarTypes = []reflect.Type{
	reflect.TypeOf(int(0)), reflect.TypeOf(int8(0)), reflect.TypeOf(int16(0)), reflect.TypeOf(int32(0)), reflect.TypeOf(int64(0)),
	reflect.TypeOf(uint(0)), reflect.TypeOf(uint8(0)), reflect.TypeOf(uint16(0)), reflect.TypeOf(uint32(0)), reflect.TypeOf(uint64(0)),
	reflect.TypeOf(float32(0)), reflect.TypeOf(float64(0)), reflect.TypeOf(""), reflect.TypeOf(true),
}

var names = []string{"Alpha", "Bravo", "Charlie", "Delta", "Echo", "Fox", "Golf", "Hotel", "India", "Juliet"}

func genType(r *rand.Rand, depth int) reflect.Type {
	k := r.Intn(10)
	if depth <= 0 {
		k = r.Intn(4)
	}
	switch {
	case k < 4:
		return scalarTypes[r.Intn(len(scalarTypes))]
	case k == 4:
		return reflect.PointerTo(genType(r, depth-1))
	case k == 5:
		return reflect.SliceOf(genType(r, depth-1))
	case k == 6:
		return reflect.MapOf(reflect.TypeOf(""), genType(r, depth-1))
	case k == 7:
		return reflect.TypeOf((*any)(nil)).Elem()
	case k == 8:
		return reflect.ArrayOf(1+r.Intn(2), genType(r, depth-1))
	default:
		return genStruct(r, depth-1)
	}
}

func genStruct(r *rand.Rand, depth int) reflect.Type {
	n := 1 + r.Intn(4)
	perm := r.Perm(len(names))
	var fs []reflect.StructField
	for i := 0; i < n; i++ {
		f := reflect.StructField{Name: names[perm[i]], Type: genType(r, depth)}
		switch r.Intn(6) {
		case 0:
			f.Tag = reflect.StructTag(fmt.Sprintf(`json:"t%d"`, i))
		case 1:
			f.Tag = reflect.StructTag(fmt.Sprintf(`json:"t%d,omitempty"`, i))
		case 2:
			f.Tag = `json:",omitempty"`
		case 3:
			f.Tag = `json:"-"`
		}
		fs = append(fs, f)
	}
	return reflect.StructOf(fs)
}

func fill(r *rand.Rand, v reflect.Value, depth int) {
	switch v.Kind() {
	case reflect.Int, reflect.Int8, reflect.Int16, reflect.Int32, reflect.Int64:
		v.SetInt(int64(r.Intn(5) - 1))
	case reflect.Uint, reflect.Uint8, reflect.Uint16, reflect.Uint32, reflect.Uint64:
		v.SetUint(uint64(r.Intn(4)))
	case reflect.Float32, reflect.Float64:
		v.SetFloat([]float64{0, 1.5, -2.25, 3}[r.Intn(4)])
	case reflect.String:
		v.SetString([]string{"", "a", "b c", "<x>"}[r.Intn(4)])
	case reflect.Bool:
		v.SetBool(r.Intn(2) == 0)
	case reflect.Ptr:
		if r.Intn(3) > 0 && depth > 0 {
			v.Set(reflect.New(v.Type().Elem()))
			fill(r, v.Elem(), depth-1)
		}
	case reflect.Slice:
		switch r.Intn(4) {
		case 0: // nil
		case 1:
			v.Set(reflect.MakeSlice(v.Type(), 0, 0))
		default:
			n := 1 + r.Intn(2)
			v.Set(reflect.MakeSlice(v.Type(), n, n))
			for i := 0; i < n; i++ {
				fill(r, v.Index(i), depth-1)
			}
		}
	case reflect.Array:
		for i := 0; i < v.Len(); i++ {
			fill(r, v.Index(i), depth-1)
		}
	case reflect.Map:
		switch r.Intn(4) {
		case 0:
		case 1:
			v.Set(reflect.MakeMap(v.Type()))
		default:
			v.Set(reflect.MakeMap(v.Type()))
			for i := 0; i < 1+r.Intn(2); i++ {
				e := reflect.New(v.Type().Elem()).Elem()
				fill(r, e, depth-1)
				v.SetMapIndex(reflect.ValueOf(fmt.Sprintf("k%d", i)), e)
			}
		}
	case reflect.Interface:
		switch r.Intn(4) {
		case 0:
		case 1:
			v.Set(reflect.ValueOf(int64(7)))
		case 2:
			v.Set(reflect.ValueOf("s"))
		case 3:
			v.Set(reflect.ValueOf([]any{int64(1), nil}))
		}
	case reflect.Struct:
		for i := 0; i < v.NumField(); i++ {
			fill(r, v.Field(i), depth-1)
		}
	}
}

func norm(v any) any {
	switch t := v.(type) {
	case nil:
		return nil
	case []any:
		out := make([]any, len(t))
		for i, c := range t {
			out[i] = norm(c)
		}
		if len(out) == 0 {
			return nil // nil/empty tolerance
		}
		return out
	case map[string]any:
		out := map[string]any{}
		for k, c := range t {
			out[k] = norm(c)
		}
		if len(out) == 0 {
			return nil
		}
		return out
	case json.Number:
		f, _ := t.Float64()
		return f
	case int64:
		return float64(t)
	case float64:
		return t
	}
	return v
}

func key(v any) string { return oj.JSON(v, &ojg.Options{Sort: true}) }

func main() {
	r := rand.New(rand.NewSource(1))
	bad := map[string]int{}
	ex := map[string][]string{}
	note := func(cls, detail string) {
		bad[cls]++
		if len(ex[cls]) < 3 {
			ex[cls] = append(ex[cls], detail)
		}
	}
	n := 0
	for it := 0; it < 30000; it++ {
		st := genStruct(r, 2)
		pv := reflect.New(st)
		fill(r, pv.Elem(), 3)
		for _, addr := range []bool{false, true} {
			var val any = pv.Elem().Interface()
			if addr {
				val = pv.Interface()
			}
			for _, base := range []ojg.Options{ojg.GoOptions, {}, {KeyExact: true}, {UseTags: true, OmitNil: true}, {OmitEmpty: true, UseTags: true}, {NestEmbed: true, UseTags: true}} {
				o := base
				o.Sort = true
				n++
				outs := map[string]any{}
				texts := map[string]string{}
				run := func(name string, f func() (any, string)) {
					defer func() {
						if rr := recover(); rr != nil {
							outs[name] = fmt.Sprintf("PANIC %.80v", rr)
						}
					}()
					v, t := f()
					outs[name] = norm(v)
					texts[name] = t
				}
				run("oj.tight", func() (any, string) {
					t := oj.JSON(val, &o)
					v, err := oj.ParseString(t)
					if err != nil || t == "" {
						return "UNPARSEABLE:" + t, t
					}
					return v, t
				})
				run("oj.indent", func() (any, string) {
					oi := o
					oi.Indent = 2
					t := oj.JSON(val, &oi)
					v, err := oj.ParseString(t)
					if err != nil || t == "" {
						return "UNPARSEABLE:" + t, t
					}
					return v, t
				})
				run("sen.tight", func() (any, string) {
					t := sen.String(val, &o)
					v, err := sen.Parse([]byte(t))
					if err != nil || t == "" {
						return "UNPARSEABLE:" + t, t
					}
					return v, t
				})
				run("sen.indent", func() (any, string) {
					oi := o
					oi.Indent = 2
					t := sen.String(val, &oi)
					v, err := sen.Parse([]byte(t))
					if err != nil || t == "" {
						return "UNPARSEABLE:" + t, t
					}
					return v, t
				})
				run("decompose", func() (any, string) {
					v := alt.Decompose(val, &o)
					t := key(v)
					v2, err := oj.ParseString(t)
					if err != nil {
						return "UNPARSEABLE:" + t, t
					}
					return v2, t
				})
				run("pretty", func() (any, string) {
					t := pretty.JSON(val, &o)
					v, err := oj.ParseString(t)
					if err != nil || t == "" {
						return "UNPARSEABLE:" + t, t
					}
					return v, t
				})
				if o.UseTags && o.KeyExact && !o.OmitNil && !o.OmitEmpty {
					run("encoding/json", func() (any, string) {
						b, err := json.Marshal(val)
						if err != nil {
							return "ERR " + err.Error(), ""
						}
						d := json.NewDecoder(strings.NewReader(string(b)))
						d.UseNumber()
						var v any
						_ = d.Decode(&v)
						return v, string(b)
					})
				}
				ref := "decompose"
				for name, v := range outs {
					if name == ref {
						continue
					}
					if !reflect.DeepEqual(v, outs[ref]) {
						cls := fmt.Sprintf("%s != %s (tags=%v exact=%v omitnil=%v omitempty=%v nest=%v addr=%v)", name, ref, o.UseTags, o.KeyExact, o.OmitNil, o.OmitEmpty, o.NestEmbed, addr)
						if s, ok := v.(string); ok && strings.HasPrefix(s, "PANIC") {
							cls = name + " " + s
						} else if ok && strings.HasPrefix(s, "UNPARSEABLE") {
							cls = name + " unparseable/empty output"
						}
						note(cls, fmt.Sprintf("type %v\n        %s: %.300s\n        %s: %.300s", st, name, key(v), ref, key(outs[ref])))
					}
				}
			}
		}
	}
	type kv struct {
		k string
		v int
	}
	var l []kv
	for k, v := range bad {
		l = append(l, kv{k, v})
	}
	sort.Slice(l, func(i, j int) bool { return l[i].v > l[j].v })
	for i, e := range l {
		if i > 30 {
			break
		}
		fmt.Println(e.v, e.k)
		for _, s := range ex[e.k][:1] {
			fmt.Println("     ", s)
		}
	}
	fmt.Println("cases", n, "classes", len(l))
}
