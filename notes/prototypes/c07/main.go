package main

import (
	"bytes"
	"fmt"
	"sort"
	"strings"

	"github.com/ohler55/ojg"
	"github.com/ohler55/ojg/alt"
	"github.com/ohler55/ojg/gen"
	"github.com/ohler55/ojg/oj"
	"github.com/ohler55/ojg/sen"
)

type call struct {
	name string
	src  string
	mode string // "", "cb", "cbpanic", "numfloat", "numstr", "reader", "readererr"
}

type errReader struct {
	b   []byte
	bad int
}

func (r *errReader) Read(p []byte) (int, error) {
	if r.bad <= 0 {
		return 0, fmt.Errorf("boom")
	}
	n := copy(p, r.b)
	if n > r.bad {
		n = r.bad
	}
	r.b = r.b[n:]
	r.bad -= n
	return n, nil
}

func guard(f func() string) (s string) {
	defer func() {
		if r := recover(); r != nil {
			s = fmt.Sprintf("PANIC(%v)", r)
		}
	}()
	return f()
}

func ser(v any) string { return sen.String(v, &ojg.Options{Sort: true}) }

type parserLike interface {
	Parse(buf []byte, args ...any) (any, error)
}

func args(c call, docs *[]string) []any {
	switch c.mode {
	case "cb":
		return []any{func(v any) bool { *docs = append(*docs, ser(v)); return false }}
	case "cbpanic":
		return []any{func(v any) bool { panic("stop") }}
	case "numfloat":
		return []any{ojg.NumConvFloat64}
	case "numstr":
		return []any{ojg.NumConvString}
	}
	return nil
}

func runOJ(p *oj.Parser, c call) string {
	return guard(func() string {
		var docs []string
		var v any
		var err error
		switch c.mode {
		case "reader":
			v, err = p.ParseReader(strings.NewReader(c.src))
		case "readererr":
			v, err = p.ParseReader(&errReader{b: []byte(c.src), bad: len(c.src) / 2})
		default:
			v, err = p.Parse([]byte(c.src), args(c, &docs)...)
		}
		return fmt.Sprintf("%s|%v|%v", ser(v), err, docs)
	})
}
func runSEN(p *sen.Parser, c call) string {
	return guard(func() string {
		var docs []string
		var v any
		var err error
		switch c.mode {
		case "reader":
			v, err = p.ParseReader(strings.NewReader(c.src))
		case "readererr":
			v, err = p.ParseReader(&errReader{b: []byte(c.src), bad: len(c.src) / 2})
		default:
			v, err = p.Parse([]byte(c.src), args(c, &docs)...)
		}
		return fmt.Sprintf("%s|%v|%v", ser(v), err, docs)
	})
}
func runGEN(p *gen.Parser, c call) string {
	return guard(func() string {
		var docs []string
		var v gen.Node
		var err error
		switch c.mode {
		case "reader":
			v, err = p.ParseReader(strings.NewReader(c.src))
		case "readererr":
			v, err = p.ParseReader(&errReader{b: []byte(c.src), bad: len(c.src) / 2})
		case "cb":
			v, err = p.Parse([]byte(c.src), func(n gen.Node) bool { docs = append(docs, ser(n)); return false })
		case "cbpanic":
			v, err = p.Parse([]byte(c.src), func(n gen.Node) bool { panic("stop") })
		default:
			v, err = p.Parse([]byte(c.src))
		}
		return fmt.Sprintf("%s|%v|%v", ser(v), err, docs)
	})
}

type collect struct {
	b   alt.Builder
	ev  []string
	key *string
}

func (h *collect) add(s string) { h.ev = append(h.ev, s) }
func (h *collect) Null()           { h.add("null") }
func (h *collect) Bool(b bool)     { h.add(fmt.Sprint(b)) }
func (h *collect) Int(i int64)     { h.add(fmt.Sprint("i", i)) }
func (h *collect) Float(f float64) { h.add(fmt.Sprint("f", f)) }
func (h *collect) Number(s string) { h.add("n" + s) }
func (h *collect) String(s string) { h.add("s" + s) }
func (h *collect) ObjectStart()    { h.add("{") }
func (h *collect) ObjectEnd()      { h.add("}") }
func (h *collect) Key(k string)    { h.add("k" + k) }
func (h *collect) ArrayStart()     { h.add("[") }
func (h *collect) ArrayEnd()       { h.add("]") }

func runTOK(t *oj.Tokenizer, c call) string {
	return guard(func() string {
		h := &collect{}
		var err error
		if c.mode == "reader" {
			err = t.Load(strings.NewReader(c.src), h)
		} else if c.mode == "readererr" {
			err = t.Load(&errReader{b: []byte(c.src), bad: len(c.src) / 2}, h)
		} else {
			err = t.Parse([]byte(c.src), h)
		}
		return fmt.Sprintf("%v|%v", h.ev, err)
	})
}
func runSTOK(t *sen.Tokenizer, c call) string {
	return guard(func() string {
		h := &collect{}
		var err error
		if c.mode == "reader" {
			err = t.Load(strings.NewReader(c.src), h)
		} else if c.mode == "readererr" {
			err = t.Load(&errReader{b: []byte(c.src), bad: len(c.src) / 2}, h)
		} else {
			err = t.Parse([]byte(c.src), h)
		}
		return fmt.Sprintf("%v|%v", h.ev, err)
	})
}
func runVAL(v *oj.Validator, c call) string {
	return guard(func() string {
		if c.mode == "reader" {
			return fmt.Sprint(v.ValidateReader(strings.NewReader(c.src)))
		}
		return fmt.Sprint(v.Validate([]byte(c.src)))
	})
}

func main() {
	srcs := []string{
		`{"a":[1,2.5,"xA\n",null,true,{"b":{}}],"c":123456789012345678901234567890}`,
		`[1,2`, `{"a":`, `{"a"`, `{"a":"x`, `"abc\`, `"ab\u00`, `[1.`, `[-`, `[1e`, `[1e+`, `[tru`, `[nul`, `[fals`, `{"a":1,`, `[[[[`, `]`, `}`, `1 2 3`, `{"a":1}{"b":2}`,
		`12345678901234567890123`, `1.5e400`, `-0.000000000000000000000001`, `"only string"`, `true`, ` `, ``, "\xef\xbb\xbf[1]", "\xef\xbb[]", `[1,2,3]x`,
		`{a:abc b:'q' c:[x y z]}`, `[+ "a"]`, `["a" + "b"]`, `["a" +`, `fun(1 2`, `{a:1 // c`, `[1 /* c`, `{a:{b:{c:`, `[x`, `{x`, `{x:`, `{a:"b" + `,
	}
	modes := []string{"", "cb", "cbpanic", "numfloat", "numstr", "reader", "readererr"}
	var calls []call
	for _, s := range srcs {
		for _, m := range modes {
			calls = append(calls, call{src: s, mode: m})
		}
	}
	bad := map[string]int{}
	ex := map[string][]string{}
	note := func(cls, detail string) {
		bad[cls]++
		if len(ex[cls]) < 5 {
			ex[cls] = append(ex[cls], detail)
		}
	}
	pairs := 0
	for _, poison := range calls {
		for _, probe := range calls {
			if probe.mode == "cbpanic" {
				continue
			}
			pairs++
			desc := fmt.Sprintf("poison %q/%s then %q/%s", poison.src, poison.mode, probe.src, probe.mode)
			{
				var p, f oj.Parser
				runOJ(&p, poison)
				if got, want := runOJ(&p, probe), runOJ(&f, probe); got != want {
					note("oj.Parser", desc+"\n        got  "+got+"\n        want "+want)
				}
				var pr, fr oj.Parser
				pr.Reuse, fr.Reuse = true, true
				runOJ(&pr, poison)
				if got, want := runOJ(&pr, probe), runOJ(&fr, probe); got != want {
					note("oj.Parser(Reuse)", desc+"\n        got  "+got+"\n        want "+want)
				}
			}
			{
				var p, f gen.Parser
				runGEN(&p, poison)
				if got, want := runGEN(&p, probe), runGEN(&f, probe); got != want {
					note("gen.Parser", desc+"\n        got  "+got+"\n        want "+want)
				}
			}
			{
				var p, f sen.Parser
				runSEN(&p, poison)
				if got, want := runSEN(&p, probe), runSEN(&f, probe); got != want {
					note("sen.Parser", desc+"\n        got  "+got+"\n        want "+want)
				}
			}
			if probe.mode == "" || probe.mode == "reader" || probe.mode == "readererr" {
				if poison.mode == "" || poison.mode == "reader" || poison.mode == "readererr" {
					var t, f oj.Tokenizer
					runTOK(&t, poison)
					if got, want := runTOK(&t, probe), runTOK(&f, probe); got != want {
						note("oj.Tokenizer", desc+"\n        got  "+got+"\n        want "+want)
					}
					var st, sf sen.Tokenizer
					runSTOK(&st, poison)
					if got, want := runSTOK(&st, probe), runSTOK(&sf, probe); got != want {
						note("sen.Tokenizer", desc+"\n        got  "+got+"\n        want "+want)
					}
					var v, vf oj.Validator
					runVAL(&v, poison)
					if got, want := runVAL(&v, probe), runVAL(&vf, probe); got != want {
						note("oj.Validator", desc+"\n        got  "+got+"\n        want "+want)
					}
				}
			}
		}
	}
	// writers: sequence of option changes on one writer vs fresh
	vals := []any{map[string]any{"a": []any{1, nil, "", []any{}}, "b": map[string]any{}, "c": nil, "d": "<x>"}, []any(nil), []any{}, "s", nil}
	opts := []ojg.Options{{}, {Indent: 2}, {Tab: true}, {Sort: true}, {OmitNil: true}, {OmitEmpty: true}, {HTMLUnsafe: true}, {Color: true}, {Sort: true, Indent: 3, OmitNil: true}}
	for _, o1 := range opts {
		for _, o2 := range opts {
			for _, v1 := range vals {
				for _, v2 := range vals {
					o1.Sort, o2.Sort = true, true
					w := oj.Writer{Options: o1}
					_ = w.JSON(v1)
					var b bytes.Buffer
					_ = w.Write(&b, v1)
					_, _ = oj.Marshal(v1, &w)
					w.Options = o2
					f := oj.Writer{Options: o2}
					if got, want := w.JSON(v2), f.JSON(v2); got != want {
						note("oj.Writer", fmt.Sprintf("v1=%s v2=%s: %q vs %q", ser(v1), ser(v2), got, want))
					}
					sw := sen.Writer{Options: o1}
					_ = sw.SEN(v1)
					sw.Options = o2
					sf := sen.Writer{Options: o2}
					if got, want := sw.SEN(v2), sf.SEN(v2); got != want {
						note("sen.Writer", fmt.Sprintf("%q vs %q", got, want))
					}
				}
			}
		}
	}
	var keys []string
	for k := range bad {
		keys = append(keys, k)
	}
	sort.Strings(keys)
	for _, k := range keys {
		fmt.Println(bad[k], k)
		for _, e := range ex[k] {
			fmt.Println("     ", e)
		}
	}
	fmt.Println("pairs", pairs)
}
