package main

import (
	"fmt"
	"os"
	"sort"
	"strings"

	"github.com/ohler55/ojg/jp"
)

var alpha = []string{"$", "@", ".", "*", "[", "]", "?", "(", ")", "'", "\"", "\\", ",", ":", "-", "0", "1", "a", "x", " ", "=", "!", "<", ">", "&", "|", "~", "/", "+", "e", "u", "n", "t", "N", "i", "h", "\xff", "\n"}

func fault(msg string) bool {
	return strings.HasPrefix(msg, "runtime error: ") || strings.HasPrefix(msg, "interface conversion: ") || msg == "assignment to entry in nil map" || strings.HasPrefix(msg, "reflect")
}

func main() {
	maxLen := 4
	if len(os.Args) > 1 {
		fmt.Sscan(os.Args[1], &maxLen)
	}
	bad := map[string]int{}
	ex := map[string][]string{}
	note := func(cls, detail string) {
		bad[cls]++
		if len(ex[cls]) < 12 {
			ex[cls] = append(ex[cls], detail)
		}
	}
	total := 0
	try := func(name, s string, f func() error) {
		defer func() {
			if r := recover(); r != nil {
				note(name+" ESCAPED PANIC: "+fmt.Sprintf("%.60v", r), fmt.Sprintf("%q", s))
			}
		}()
		if err := f(); err != nil && fault(err.Error()) {
			msg := err.Error()
			if i := strings.Index(msg, " ["); i > 0 && strings.HasPrefix(msg, "runtime error: index") {
				msg = msg[:i]
			}
			if i := strings.Index(msg, "[:"); i > 0 {
				msg = msg[:i]
			}
			note(name+" recovered fault: "+fmt.Sprintf("%.70s", msg), fmt.Sprintf("%q", s))
		}
	}
	var rec func(prefix string, n int)
	rec = func(prefix string, n int) {
		total++
		try("jp.ParseString", prefix, func() error { _, err := jp.ParseString(prefix); return err })
		try("jp.NewScript", prefix, func() error { _, err := jp.NewScript(prefix); return err })
		try("jp.NewScript()", "("+prefix+")", func() error { _, err := jp.NewScript("(" + prefix + ")"); return err })
		try("jp.ParseString[?", "[?"+prefix+"]", func() error { _, err := jp.ParseString("$[?" + prefix + "]"); return err })
		try("jp.NewFilter", "[?("+prefix+")]", func() error { _, err := jp.NewFilter("[?(" + prefix + ")]"); return err })
		if n == maxLen {
			return
		}
		for _, a := range alpha {
			rec(prefix+a, n+1)
		}
	}
	rec("", 0)
	var keys []string
	for k := range bad {
		keys = append(keys, k)
	}
	sort.Strings(keys)
	for _, k := range keys {
		fmt.Println(bad[k], k)
		fmt.Println("     ", ex[k])
	}
	fmt.Println("inputs", total)
}
