package main

import (
	"encoding/json"
	"fmt"
	"io"
	"math"
	"math/big"
	"regexp"
	"sort"
	"strconv"
	"strings"

	"github.com/ohler55/ojg/gen"
	"github.com/ohler55/ojg/oj"
	"github.com/ohler55/ojg/sen"
)

type oneByte struct{ b []byte }

func (r *oneByte) Read(p []byte) (int, error) {
	if len(r.b) == 0 {
		return 0, io.EOF
	}
	p[0] = r.b[0]
	r.b = r.b[1:]
	return 1, nil
}

var plainInt = regexp.MustCompile(`^-?(0|[1-9][0-9]*)$`)

func exact(lit string) (*big.Rat, bool) {
	// handle exponent manually to avoid huge rats
	m := lit
	exp := 0
	if i := strings.IndexAny(m, "eE"); i >= 0 {
		e, err := strconv.Atoi(m[i+1:])
		if err != nil {
			return nil, false
		}
		exp = e
		m = m[:i]
	}
	if exp > 5000 || exp < -5000 {
		return nil, false
	}
	r, ok := new(big.Rat).SetString(m)
	if !ok {
		return nil, false
	}
	p := new(big.Int).Exp(big.NewInt(10), big.NewInt(int64(abs(exp))), nil)
	if exp >= 0 {
		r.Mul(r, new(big.Rat).SetInt(p))
	} else {
		r.Quo(r, new(big.Rat).SetInt(p))
	}
	return r, true
}
func abs(i int) int {
	if i < 0 {
		return -i
	}
	return i
}

// check returns "" if ok
func check(lit string, v any) string {
	want, ok := exact(lit)
	if !ok {
		return ""
	}
	switch tv := v.(type) {
	case int64:
		if new(big.Rat).SetInt64(tv).Cmp(want) != 0 {
			return fmt.Sprintf("int64 %d != literal", tv)
		}
		return ""
	case float64:
		f, err := strconv.ParseFloat(lit, 64)
		if err != nil && math.IsInf(f, 0) {
			return "" // out of range: don't care
		}
		if plainInt.MatchString(lit) {
			if iv, err2 := strconv.ParseInt(lit, 10, 64); err2 == nil && iv != math.MinInt64 {
				return fmt.Sprintf("plain int literal returned as float64 %v", tv)
			}
		}
		if f != tv {
			return fmt.Sprintf("float64 %v != nearest %v", tv, f)
		}
		return ""
	case json.Number:
		if plainInt.MatchString(lit) {
			if iv, err2 := strconv.ParseInt(lit, 10, 64); err2 == nil && iv != math.MinInt64 {
				return fmt.Sprintf("plain int literal returned as Number %q", string(tv))
			}
		}
		got, ok := exact(string(tv))
		if !ok {
			return fmt.Sprintf("Number %q unparsable", string(tv))
		}
		if got.Cmp(want) != 0 {
			return fmt.Sprintf("Number %q != literal", string(tv))
		}
		return ""
	case nil:
		return "nil result"
	}
	return fmt.Sprintf("unexpected type %T", v)
}

func norm(n gen.Node) any {
	switch t := n.(type) {
	case gen.Int:
		return int64(t)
	case gen.Float:
		return float64(t)
	case gen.Big:
		return json.Number(string(t))
	}
	return n
}

type tokH struct {
	oj.ZeroHandler
	v any
}

func (h *tokH) Int(i int64)      { h.v = i }
func (h *tokH) Float(f float64)  { h.v = f }
func (h *tokH) Number(s string)  { h.v = json.Number(s) }

func main() {
	var lits []string
	ints := []string{"0", "1", "9", "10", "12", "123456789", "922337203685477580", "922337203685477581", "9223372036854775806", "9223372036854775807", "9223372036854775808", "9223372036854775809", "9223372036854775800", "9223372036854775799", "18446744073709551615", "18446744073709551616", "20000000000000000000", "92233720368547758070", "99999999999999999999", "100000000000000000000", "123456789012345678901234567890", "999999999999999999", "1000000000000000000", "9999999999999999999", "10000000000000000000"}
	for n := 1; n <= 22; n++ {
		ints = append(ints, "1"+strings.Repeat("0", n-1), strings.Repeat("9", n), ("1234567890123456789012")[:n])
	}
	fracs := []string{"", ".0", ".5", ".25", ".1", ".01", ".10", ".000000000000000001", ".0000000000000000001", ".00000000000000000001", ".123456789012345678", ".1234567890123456789", ".12345678901234567890", ".999999999999999999", ".9999999999999999999", ".000000000000000000000001", ".5000000000000000000000", ".3", ".7", ".456"}
	for n := 1; n <= 22; n++ {
		fracs = append(fracs, "."+strings.Repeat("0", n-1)+"1", "."+strings.Repeat("9", n), "."+strings.Repeat("0", n))
	}
	exps := []string{"", "e0", "e1", "E+1", "e-1", "e007", "e22", "e23", "e-22", "e308", "e309", "e-308", "e-324", "e-325", "e1022", "e1023", "e-1022", "e-1023", "e99999", "e10", "E5", "e+05"}
	for _, s := range []string{"", "-"} {
		for _, i := range ints {
			for _, f := range fracs {
				for _, e := range exps {
					lits = append(lits, s+i+f+e)
				}
			}
		}
	}
	fmt.Println("literals", len(lits))
	bad := map[string]int{}
	ex := map[string][]string{}
	note := func(fe, lit, msg string) {
		cls := fe + ": " + regexp.MustCompile(`[0-9.eE+-]{3,}|"[^"]*"`).ReplaceAllString(msg, "#")
		bad[cls]++
		if len(ex[cls]) < 6 {
			ex[cls] = append(ex[cls], lit+" => "+msg)
		}
	}
	for _, lit := range lits {
		for _, ctx := range []string{"%s", "[%s]", "[%s ]", "{\"a\":%s}", "[%s\n]", "[%s,1]"} {
			src := []byte(fmt.Sprintf(ctx, lit))
			pick := func(v any) any {
				switch t := v.(type) {
				case []any:
					if len(t) > 0 {
						return t[0]
					}
					return nil
				case map[string]any:
					return t["a"]
				}
				return v
			}
			var p oj.Parser
			v, err := p.Parse(src)
			if err != nil {
				note("oj.Parse", lit, "error "+err.Error())
			} else if m := check(lit, pick(v)); m != "" {
				note("oj.Parse", lit, m)
			}
			v1, err := p.ParseReader(&oneByte{src})
			if err != nil {
				note("oj.Reader1", lit, "error "+err.Error())
			} else {
				if m := check(lit, pick(v1)); m != "" {
					note("oj.Reader1", lit, m)
				}
				if fmt.Sprintf("%T%v", pick(v), pick(v)) != fmt.Sprintf("%T%v", pick(v1), pick(v1)) {
					note("oj.Parse-vs-Reader1", lit, fmt.Sprintf("%T vs %T", pick(v), pick(v1)))
				}
			}
			if ctx == "%s" {
				h := &tokH{}
				if err := oj.Tokenize(src, h); err != nil {
					note("oj.Tokenize", lit, "error "+err.Error())
				} else if m := check(lit, h.v); m != "" {
					note("oj.Tokenize", lit, m)
				}
				var gp gen.Parser
				if n, err := gp.Parse(src); err != nil {
					note("gen.Parse", lit, "error "+err.Error())
				} else if m := check(lit, norm(n)); m != "" {
					note("gen.Parse", lit, m)
				}
				if n, err := gp.ParseReader(&oneByte{src}); err != nil {
					note("gen.Reader1", lit, "error "+err.Error())
				} else if m := check(lit, norm(n)); m != "" {
					note("gen.Reader1", lit, m)
				}
				var sp sen.Parser
				if v, err := sp.Parse(src); err != nil {
					note("sen.Parse", lit, "error "+err.Error())
				} else if m := check(lit, v); m != "" {
					note("sen.Parse", lit, m)
				}
			}
		}
	}
	keys := []string{}
	for k := range bad {
		keys = append(keys, k)
	}
	sort.Strings(keys)
	for _, k := range keys {
		fmt.Println(bad[k], k)
		for _, e := range ex[k] {
			fmt.Println("     ", e)
		}
	}
}
