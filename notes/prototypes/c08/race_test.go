package main

import (
	"bytes"
	"fmt"
	"reflect"
	"runtime"
	"sync"
	"testing"

	"github.com/ohler55/ojg"
	"github.com/ohler55/ojg/alt"
	"github.com/ohler55/ojg/jp"
	"github.com/ohler55/ojg/oj"
	"github.com/ohler55/ojg/pretty"
	"github.com/ohler55/ojg/sen"
)

type S1 struct {
	A int
	B string `json:"b,omitempty"`
	C []int
	D map[string]*S2
}
type S2 struct {
	X float64
	Y *S1
}

func TestRace(t *testing.T) {
	x1 := jp.MustParseString("$.a[?(@.x > 1)].y")
	x2 := jp.MustParseString("$..y")
	x3 := jp.MustParseString("$.a[*].x")
	sc := jp.MustNewScript("(@.x == 2 || @.y =~ /b/)")
	var s1 S1
	_, _ = alt.Recompose(map[string]any{"a": 1}, &s1) // warm up
	var wg sync.WaitGroup
	G := 48
	var mu sync.Mutex
	seen := map[string]int{}
	report := func(e string) { mu.Lock(); seen[e]++; mu.Unlock() }
	for g := 0; g < G; g++ {
		wg.Add(1)
		go func(g int) {
			defer wg.Done()
			for i := 0; i < 400; i++ {
				src := fmt.Sprintf(`{"a":[{"x":%d,"y":"a%d"},{"x":2,"y":"b"},{"x":3,"y":[1,2,{"y":%d}]}],"g":%d}`, i, g, i, g)
				v, err := oj.ParseString(src)
				if err != nil {
					report(err.Error())
					continue
				}
				v2, _ := sen.Parse([]byte(src))
				if !reflect.DeepEqual(v, v2) {
					report("oj/sen differ")
				}
				_ = oj.Validate([]byte(src))
				j := oj.JSON(v, &ojg.Options{Sort: true})
				b := sen.Bytes(v)
				exp := string(b)
				m, _ := oj.Marshal(v)
				p := pretty.JSON(v)
				ps := pretty.SEN(v, true)
				var buf bytes.Buffer
				_ = oj.Write(&buf, v, &ojg.Options{Sort: true, WriteLimit: 16})
				if buf.String() != j {
					report("write != json")
				}
				runtime.Gosched()
				if string(b) != exp {
					report("sen.Bytes buffer changed after return")
				}
				_, _, _ = m, p, ps
				r1 := x1.Get(v)
				r2 := x2.Get(v)
				_ = x3.Has(v)
				_ = x3.First(v)
				_ = x2.Locate(v, 0)
				_, _ = r1, r2
				_ = sc.Match(map[string]any{"x": i, "y": "b"})
				_ = x3.Set(v, g)
				_ = jp.MustParseString("$.a[1]").Del(v)
				_, _ = x1.Remove(v)
				d := alt.Decompose(&S1{A: i, C: []int{1, 2}, D: map[string]*S2{"k": {X: 1.5}}})
				_ = alt.Generify(d)
				_ = alt.Dup(d)
				var s S1
				if _, err := alt.Recompose(map[string]any{"a": i, "c": []any{1, 2}}, &s); err != nil || s.A != i {
					report(fmt.Sprint("recompose ", err, s.A))
				}
				var u S1
				if err := oj.Unmarshal([]byte(`{"a":5,"b":"x"}`), &u); err != nil || u.A != 5 {
					report("unmarshal")
				}
				// new struct types first seen concurrently
				st := reflect.StructOf([]reflect.StructField{
					{Name: fmt.Sprintf("F%d", g), Type: reflect.TypeOf(0)},
					{Name: fmt.Sprintf("G%d", i%50), Type: reflect.TypeOf("")},
				})
				sv := reflect.New(st).Elem()
				sv.Field(0).SetInt(int64(i))
				out := oj.JSON(sv.Interface(), &ojg.Options{Sort: true})
				out2 := sen.String(sv.Addr().Interface(), &ojg.Options{Sort: true})
				_ = alt.Decompose(sv.Interface())
				if len(out) < 5 || len(out2) < 5 {
					report("struct out " + out + out2)
				}
			}
		}(g)
	}
	wg.Wait()
	for e, n := range seen {
		t.Errorf("%d x %s", n, e)
	}
}
