package main

import (
	"fmt"
	"io"
	"math/rand"
	"reflect"
	"sort"
	"strings"

	"github.com/ohler55/ojg"
	"github.com/ohler55/ojg/gen"
	"github.com/ohler55/ojg/oj"
	"github.com/ohler55/ojg/sen"
)

type chunker struct {
	b    []byte
	plan []int
	i    int
}

func (c *chunker) Read(p []byte) (int, error) {
	if len(c.b) == 0 {
		return 0, io.EOF
	}
	n := len(c.b)
	if c.i < len(c.plan) {
		n = c.plan[c.i]
		c.i++
	}
	if n > len(c.b) {
		n = len(c.b)
	}
	if n > len(p) {
		n = len(p)
	}
	copy(p, c.b[:n])
	c.b = c.b[n:]
	return n, nil
}

func ser(v any) string { return fmt.Sprintf("%T:", v) + sen.String(v, &ojg.Options{Sort: true}) }

type outcome struct {
	docs []string
	err  bool
}

func (o outcome) String() string { return fmt.Sprintf("%v err=%v", o.docs, o.err) }

func guard(f func() outcome) (o outcome) {
	defer func() {
		if r := recover(); r != nil {
			o = outcome{docs: []string{fmt.Sprintf("PANIC %v", r)}, err: true}
		}
	}()
	return f()
}

type collect struct {
	stack []any
	keys  []string
	docs  []string
}

func (h *collect) val(v any) {
	if len(h.stack) == 0 {
		h.docs = append(h.docs, ser(v))
		return
	}
	switch t := h.stack[len(h.stack)-1].(type) {
	case []any:
		h.stack[len(h.stack)-1] = append(t, v)
	case map[string]any:
		t[h.keys[len(h.keys)-1]] = v
	}
}
func (h *collect) Null()           { h.val(nil) }
func (h *collect) Bool(b bool)     { h.val(b) }
func (h *collect) Int(i int64)     { h.val(i) }
func (h *collect) Float(f float64) { h.val(f) }
func (h *collect) Number(s string) { h.val("N" + s) }
func (h *collect) String(s string) { h.val(s) }
func (h *collect) ObjectStart()    { h.stack = append(h.stack, map[string]any{}); h.keys = append(h.keys, "") }
func (h *collect) ObjectEnd() {
	v := h.stack[len(h.stack)-1]
	h.stack = h.stack[:len(h.stack)-1]
	h.keys = h.keys[:len(h.keys)-1]
	h.val(v)
}
func (h *collect) Key(k string) { h.keys[len(h.keys)-1] = k }
func (h *collect) ArrayStart()  { h.stack = append(h.stack, []any{}) }
func (h *collect) ArrayEnd() {
	v := h.stack[len(h.stack)-1]
	h.stack = h.stack[:len(h.stack)-1]
	if a, ok := v.([]any); ok && len(a) == 0 {
		v = []any{}
	}
	h.val(v)
}

var jsonDocs = []string{`1`, `-2.5`, `"s"`, `true`, `null`, `[]`, `{}`, `[1,[2,{"a":null}],"x"]`, `{"a":{"b":[1,2,3]},"c":"d"}`, `"esc\nA"`, `123456789012345678901234567890`, `[1 ,2]`, `{"k" : 1}`}
var senDocs = []string{`abc`, `{a:1 b:[x y z]}`, `[1 2 3]`, `'single'`, `{a:"x" // c
 b:2}`, `[a /* c */ b]`, `["a" + "b"]`, `fun(1 2)`, `{"a":1,"b":2}`, `[true false null]`, `{a:{b:{c:d}}}`, `-1.5e3`}
var broken = []string{`[1,`, `{"a"`, `]`, `nul`, `"abc`, `[1 2`, `{a:`, `1.`, `+`}

func main() {
	r := rand.New(rand.NewSource(1))
	bad := map[string]int{}
	ex := map[string][]string{}
	note := func(cls, detail string) {
		bad[cls]++
		if len(ex[cls]) < 3 {
			ex[cls] = append(ex[cls], detail)
		}
	}
	plans := func(n int) [][]int {
		out := [][]int{nil, {1, 1, 1, 1, 1, 1, 1, 1, 1, 1, 1, 1, 1, 1, 1, 1, 1, 1, 1, 1, 1, 1, 1, 1, 1, 1, 1, 1, 1, 1, 1, 1, 1, 1, 1, 1, 1, 1, 1, 1, 1, 1, 1, 1, 1, 1, 1, 1, 1, 1, 1, 1, 1, 1, 1, 1, 1, 1, 1, 1, 1, 1, 1, 1, 1, 1, 1, 1, 1, 1, 1, 1, 1, 1, 1, 1, 1, 1, 1, 1, 1, 1, 1, 1, 1, 1, 1, 1, 1, 1, 1, 1, 1, 1, 1, 1, 1, 1, 1, 1}}
		for i := 1; i < n; i++ {
			out = append(out, []int{i})
		}
		return out
	}
	total := 0
	for it := 0; it < 3000; it++ {
		// stream of documents
		isSen := r.Intn(3) == 0
		pool := jsonDocs
		if isSen {
			pool = append(append([]string{}, jsonDocs...), senDocs...)
		}
		var parts []string
		for k := r.Intn(5); k > 0; k-- {
			parts = append(parts, pool[r.Intn(len(pool))])
		}
		if r.Intn(5) == 0 {
			parts = append(parts, broken[r.Intn(len(broken))])
		}
		sep := []string{" ", "\n", "  \n ", "\t"}[r.Intn(4)]
		src := strings.Join(parts, sep)
		if r.Intn(4) == 0 {
			src += sep
		}
		b := []byte(src)
		total++
		type runner struct {
			name string
			f    func(plan []int) outcome
		}
		ojRunners := []runner{
			{"oj.Parse(cb)", func(plan []int) outcome {
				return guard(func() outcome {
					var o outcome
					var p oj.Parser
					var err error
					if plan == nil {
						_, err = p.Parse(append([]byte{}, b...), func(v any) bool { o.docs = append(o.docs, ser(v)); return false })
					} else {
						_, err = p.ParseReader(&chunker{b: append([]byte{}, b...), plan: plan}, func(v any) { o.docs = append(o.docs, ser(v)) })
					}
					o.err = err != nil
					return o
				})
			}},
			{"oj.Parse(chan)", func(plan []int) outcome {
				return guard(func() outcome {
					var o outcome
					var p oj.Parser
					ch := make(chan any, 100)
					var err error
					if plan == nil {
						_, err = p.Parse(append([]byte{}, b...), ch)
					} else {
						_, err = p.ParseReader(&chunker{b: append([]byte{}, b...), plan: plan}, ch)
					}
					close(ch)
					for v := range ch {
						o.docs = append(o.docs, ser(v))
					}
					o.err = err != nil
					return o
				})
			}},
			{"oj.Tokenize", func(plan []int) outcome {
				return guard(func() outcome {
					h := &collect{}
					var t oj.Tokenizer
					var err error
					if plan == nil {
						err = t.Parse(append([]byte{}, b...), h)
					} else {
						err = t.Load(&chunker{b: append([]byte{}, b...), plan: plan}, h)
					}
					return outcome{docs: h.docs, err: err != nil}
				})
			}},
			{"gen.Parse(cb)", func(plan []int) outcome {
				return guard(func() outcome {
					var o outcome
					var p gen.Parser
					cb := func(n gen.Node) bool {
						var v any
						if n != nil {
							v = n.Simplify()
						}
						o.docs = append(o.docs, ser(v))
						return false
					}
					var err error
					if plan == nil {
						_, err = p.Parse(append([]byte{}, b...), cb)
					} else {
						_, err = p.ParseReader(&chunker{b: append([]byte{}, b...), plan: plan}, cb)
					}
					o.err = err != nil
					return o
				})
			}},
		}
		senRunners := []runner{
			{"sen.Parse(cb)", func(plan []int) outcome {
				return guard(func() outcome {
					var o outcome
					var p sen.Parser
					var err error
					if plan == nil {
						_, err = p.Parse(append([]byte{}, b...), func(v any) bool { o.docs = append(o.docs, ser(v)); return false })
					} else {
						_, err = p.ParseReader(&chunker{b: append([]byte{}, b...), plan: plan}, func(v any) { o.docs = append(o.docs, ser(v)) })
					}
					o.err = err != nil
					return o
				})
			}},
			{"sen.Tokenize", func(plan []int) outcome {
				return guard(func() outcome {
					h := &collect{}
					var t sen.Tokenizer
					var err error
					if plan == nil {
						err = t.Parse(append([]byte{}, b...), h)
					} else {
						err = t.Load(&chunker{b: append([]byte{}, b...), plan: plan}, h)
					}
					return outcome{docs: h.docs, err: err != nil}
				})
			}},
		}
		norm := func(o outcome) outcome {
			// big numbers: json.Number vs tokenizer "N.." vs gen string
			for i, d := range o.docs {
				d = strings.ReplaceAll(d, `json.Number:"`, `NUM:"`)
				d = strings.ReplaceAll(d, `string:N`, `NUM:`)
				o.docs[i] = d
			}
			return o
		}
		_ = norm
		compare := func(rs []runner, fam string) {
			base := rs[0].f(nil)
			for _, ru := range rs {
				for _, plan := range plans(len(b)) {
					got := ru.f(plan)
					same := got.err == base.err && len(got.docs) == len(base.docs)
					if same {
						for i := range got.docs {
							g, w := got.docs[i], base.docs[i]
							if g != w && !(strings.Contains(g, "12345678901234567890") && strings.Contains(w, "12345678901234567890")) {
								same = false
							}
						}
					}
					if !same {
						pl := "bytes"
						if plan != nil {
							if len(plan) > 1 {
								pl = "1-byte"
							} else {
								pl = "split"
							}
						}
						note(fam+": "+ru.name+"/"+pl+" != "+rs[0].name+"/bytes", fmt.Sprintf("%q plan=%.5v\n        got  %.200s\n        want %.200s", src, plan, got, base))
						break
					}
				}
			}
		}
		if !isSen {
			compare(ojRunners, "json")
		}
		compare(senRunners, "sen")
		_ = reflect.DeepEqual
	}
	var keys []string
	for k := range bad {
		keys = append(keys, k)
	}
	sort.Strings(keys)
	for _, k := range keys {
		fmt.Println(bad[k], k)
		for _, e := range ex[k] {
			fmt.Println("     ", e)
		}
	}
	fmt.Println("streams", total)
}
