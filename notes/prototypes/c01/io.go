package main

import "io"

var ioEOF = io.EOF
