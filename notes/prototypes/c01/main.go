package main

import (
	"bytes"
	"encoding/json"
	"errors"
	"fmt"
	"os"
	"sort"
	"time"

	"probe/jsonref"

	"github.com/ohler55/ojg/gen"
	"github.com/ohler55/ojg/oj"
)

var alpha = []byte("{}[]:,\"\\/-+.019eEtrufalsnbx \n\t\r\x00\x1f\x7f\x80\xEF\xBB\xBF\xFF")

type fe struct {
	name string
	f    func([]byte) error
}

func guard(f func([]byte) error, x []byte) (err error) {
	defer func() {
		if r := recover(); r != nil {
			err = fmt.Errorf("PANIC: %v", r)
		}
	}()
	return f(x)
}

type oneByte struct{ b []byte }

func (r *oneByte) Read(p []byte) (int, error) {
	if len(r.b) == 0 {
		return 0, errEOF
	}
	p[0] = r.b[0]
	r.b = r.b[1:]
	return 1, nil
}

var errEOF = fmt.Errorf("x: %w", eofErr())

func eofErr() error { return ioEOF }

func pos(err error) (int, int, bool) {
	var pe *oj.ParseError
	if errors.As(err, &pe) {
		return pe.Line, pe.Column, true
	}
	var ge *gen.ParseError
	if errors.As(err, &ge) {
		return ge.Line, ge.Column, true
	}
	return 0, 0, false
}

func main() {
	fes := []fe{
		{"oj.Parse", func(x []byte) error { var p oj.Parser; _, e := p.Parse(x); return e }},
		{"oj.ParseReader", func(x []byte) error { var p oj.Parser; _, e := p.ParseReader(bytes.NewReader(x)); return e }},
		{"oj.ParseReader1", func(x []byte) error { var p oj.Parser; _, e := p.ParseReader(&oneByte{x}); return e }},
		{"oj.Validate", func(x []byte) error { v := oj.Validator{OnlyOne: true}; return v.Validate(x) }},
		{"oj.ValidateR1", func(x []byte) error { v := oj.Validator{OnlyOne: true}; return v.ValidateReader(&oneByte{x}) }},
		{"oj.Tokenize", func(x []byte) error { t := oj.Tokenizer{}; t.OnlyOne = true; return t.Parse(x, &oj.ZeroHandler{}) }},
		{"oj.TokenLoad1", func(x []byte) error { t := oj.Tokenizer{}; t.OnlyOne = true; return t.Load(&oneByte{x}, &oj.ZeroHandler{}) }},
		{"gen.Parse", func(x []byte) error { var p gen.Parser; _, e := p.Parse(x); return e }},
		{"gen.ParseR1", func(x []byte) error { var p gen.Parser; _, e := p.ParseReader(&oneByte{x}); return e }},
	}
	maxLen := 4
	if len(os.Args) > 1 {
		fmt.Sscan(os.Args[1], &maxLen)
	}
	type key struct{ fe, kind string }
	counts := map[key]int{}
	examples := map[key][]string{}
	refdis, total := 0, 0
	start := time.Now()
	buf := make([]byte, maxLen)
	var rec func(n int)
	rec = func(n int) {
		x := buf[:n]
		total++
		v, k := jsonref.Check(x)
		bomish := n > 0 && x[0] == 0xEF
		if n > 0 && !bomish {
			if jv := json.Valid(x); jv != (v == 1) {
				refdis++
			}
		}
		line := 1 + bytes.Count(x[:k], []byte{'\n'})
		col := k - bytes.LastIndexByte(x[:k], '\n')
		for _, f := range fes {
			err := guard(f.f, append([]byte{}, x...))
			kind := ""
			switch {
			case err != nil && len(err.Error()) > 6 && err.Error()[:6] == "PANIC:":
				kind = "panic"
			case (err == nil) != (v != 0):
				if err == nil {
					kind = "false-accept"
				} else {
					kind = "false-reject"
				}
			case err != nil && !bomish:
				l, c, ok := pos(err)
				switch {
				case !ok:
					kind = "not-ParseError"
				case l != line:
					kind = "line"
				case c != col:
					kind = fmt.Sprintf("col%+d", c-col)
				}
			}
			if kind != "" {
				kk := key{f.name, kind}
				counts[kk]++
				if len(examples[kk]) < 8 {
					examples[kk] = append(examples[kk], fmt.Sprintf("%q(want %d:%d got %v)", x, line, col, err))
				}
			}
		}
		if n == maxLen {
			return
		}
		for _, b := range alpha {
			buf[n] = b
			rec(n + 1)
		}
	}
	rec(0)
	fmt.Printf("total=%d refdis=%d elapsed=%v\n", total, refdis, time.Since(start))
	var keys []key
	for k := range counts {
		keys = append(keys, k)
	}
	sort.Slice(keys, func(i, j int) bool { return keys[i].fe+keys[i].kind < keys[j].fe+keys[j].kind })
	for _, k := range keys {
		fmt.Printf("%-16s %-14s %8d  %v\n", k.fe, k.kind, counts[k], examples[k])
	}
}
