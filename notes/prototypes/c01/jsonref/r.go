package jsonref

// Byte-at-a-time PDA for RFC 8259 with ojg-documented deviations (prototype).
type State int

const (
	sValue State = iota
	sArrFirst
	sObjFirst
	sKey
	sColon
	sAfter
	sStr
	sEsc
	sU0
	sU1
	sU2
	sU3
	sNeg
	sZero
	sInt
	sDot
	sFrac
	sE
	sESign
	sExp
	sLit
	sDone
	sStart
	sDead
)

type PDA struct {
	St    State
	Stack []byte
	isKey bool
	lit   string
	li    int
	Multi bool
	Docs  int
}

func isWS(b byte) bool { return b == ' ' || b == '\t' || b == '\n' || b == '\r' }

func New() *PDA { return &PDA{St: sStart} }

func (p *PDA) afterValue() {
	if len(p.Stack) == 0 {
		p.Docs++
		if p.Multi {
			p.St = sStart
		} else {
			p.St = sDone
		}
	} else {
		p.St = sAfter
	}
}

func (p *PDA) endNumber(b byte) {
	p.afterValue()
	p.Step(b)
}

func (p *PDA) startValue(b byte) bool {
	switch {
	case b == '{':
		p.Stack = append(p.Stack, '{')
		p.St = sObjFirst
	case b == '[':
		p.Stack = append(p.Stack, '[')
		p.St = sArrFirst
	case b == '"':
		p.St = sStr
		p.isKey = false
	case b == '-':
		p.St = sNeg
	case b == '0':
		p.St = sZero
	case '1' <= b && b <= '9':
		p.St = sInt
	case b == 't':
		p.St, p.lit, p.li = sLit, "true", 1
	case b == 'f':
		p.St, p.lit, p.li = sLit, "false", 1
	case b == 'n':
		p.St, p.lit, p.li = sLit, "null", 1
	default:
		return false
	}
	return true
}

func (p *PDA) Step(b byte) {
	if p.St == sDead {
		return
	}
	ok := true
	switch p.St {
	case sStart, sValue:
		if isWS(b) {
			break
		}
		ok = p.startValue(b)
	case sArrFirst:
		if isWS(b) {
			break
		}
		if b == ']' {
			p.Stack = p.Stack[:len(p.Stack)-1]
			p.afterValue()
			break
		}
		ok = p.startValue(b)
	case sObjFirst:
		if isWS(b) {
			break
		}
		switch b {
		case '}':
			p.Stack = p.Stack[:len(p.Stack)-1]
			p.afterValue()
		case '"':
			p.St = sStr
			p.isKey = true
		default:
			ok = false
		}
	case sKey:
		if isWS(b) {
			break
		}
		if b == '"' {
			p.St = sStr
			p.isKey = true
		} else {
			ok = false
		}
	case sColon:
		if isWS(b) {
			break
		}
		if b == ':' {
			p.St = sValue
		} else {
			ok = false
		}
	case sAfter:
		if isWS(b) {
			break
		}
		top := p.Stack[len(p.Stack)-1]
		switch {
		case b == ',' && top == '[':
			p.St = sValue
		case b == ',' && top == '{':
			p.St = sKey
		case b == ']' && top == '[', b == '}' && top == '{':
			p.Stack = p.Stack[:len(p.Stack)-1]
			p.afterValue()
		default:
			ok = false
		}
	case sStr:
		switch {
		case b == '"':
			if p.isKey {
				p.St = sColon
			} else {
				p.afterValue()
			}
		case b == '\\':
			p.St = sEsc
		case b < 0x20:
			ok = false
		}
	case sEsc:
		switch b {
		case '"', '\\', '/', 'b', 'f', 'n', 'r', 't':
			p.St = sStr
		case 'u':
			p.St = sU0
		default:
			ok = false
		}
	case sU0, sU1, sU2, sU3:
		if ('0' <= b && b <= '9') || ('a' <= b && b <= 'f') || ('A' <= b && b <= 'F') {
			if p.St == sU3 {
				p.St = sStr
			} else {
				p.St++
			}
		} else {
			ok = false
		}
	case sNeg:
		switch {
		case b == '0':
			p.St = sZero
		case '1' <= b && b <= '9':
			p.St = sInt
		default:
			ok = false
		}
	case sZero:
		switch {
		case b == '.':
			p.St = sDot
		case b == 'e' || b == 'E':
			p.St = sE
		default:
			p.endNumber(b)
			return
		}
	case sInt:
		switch {
		case '0' <= b && b <= '9':
		case b == '.':
			p.St = sDot
		case b == 'e' || b == 'E':
			p.St = sE
		default:
			p.endNumber(b)
			return
		}
	case sDot:
		if '0' <= b && b <= '9' {
			p.St = sFrac
		} else {
			ok = false
		}
	case sFrac:
		switch {
		case '0' <= b && b <= '9':
		case b == 'e' || b == 'E':
			p.St = sE
		default:
			p.endNumber(b)
			return
		}
	case sE:
		switch {
		case b == '+' || b == '-':
			p.St = sESign
		case '0' <= b && b <= '9':
			p.St = sExp
		default:
			ok = false
		}
	case sESign:
		if '0' <= b && b <= '9' {
			p.St = sExp
		} else {
			ok = false
		}
	case sExp:
		if '0' <= b && b <= '9' {
			break
		}
		p.endNumber(b)
		return
	case sLit:
		if p.lit[p.li] == b {
			p.li++
			if p.li == len(p.lit) {
				p.afterValue()
			}
		} else {
			ok = false
		}
	case sDone:
		if !isWS(b) {
			ok = false
		}
	}
	if !ok {
		p.St = sDead
	}
}

// Finish returns verdict: 0 invalid, 1 valid, 2 empty
func (p *PDA) Finish() int {
	switch p.St {
	case sDead:
		return 0
	case sStart:
		if p.Docs == 0 {
			return 2
		}
		return 1
	case sDone:
		return 1
	case sZero, sInt, sFrac, sExp:
		if len(p.Stack) == 0 {
			return 1
		}
	}
	return 0
}

// Check returns verdict and, for invalid input, the offset of the first
// offending byte (len(x) if the input is only incomplete).
func Check(x []byte) (verdict int, k int) {
	p := New()
	skip := 0
	if len(x) >= 3 && x[0] == 0xEF && x[1] == 0xBB && x[2] == 0xBF {
		skip = 3
	}
	for i, b := range x[skip:] {
		p.Step(b)
		if p.St == sDead {
			return 0, i + skip
		}
	}
	return p.Finish(), len(x)
}
