package main

import (
	"fmt"
	"reflect"
	"sort"
	"strings"

	"github.com/ohler55/ojg"
	"github.com/ohler55/ojg/alt"
	"github.com/ohler55/ojg/asm"
	"github.com/ohler55/ojg/sen"
)

func fault(msg string) bool {
	return strings.HasPrefix(msg, "runtime error: ") || strings.HasPrefix(msg, "interface conversion: ") || msg == "assignment to entry in nil map" || strings.HasPrefix(msg, "reflect")
}

func root() map[string]any {
	return map[string]any{"src": map[string]any{"i": int64(3), "f": 2.5, "s": "abc", "a": []any{int64(3), int64(1), int64(2)}, "m": map[string]any{"k": "v"}, "n": nil, "b": true, "e": []any{}}}
}

func cyclic(v any, depth int) bool {
	if depth > 40 {
		return true
	}
	switch t := v.(type) {
	case []any:
		for _, c := range t {
			if cyclic(c, depth+1) {
				return true
			}
		}
	case map[string]any:
		for _, c := range t {
			if cyclic(c, depth+1) {
				return true
			}
		}
	}
	return false
}

func ser(v any) string {
	if cyclic(v, 0) {
		return "<cyclic>"
	}
	return sen.String(v, &ojg.Options{Sort: true})
}

func main() {
	names := []string{}
	for n := range asm.FnDocs() {
		names = append(names, n)
	}
	sort.Strings(names)
	kinds := []any{nil, true, int64(2), int64(0), int64(-1), 1.5, "abc", "", []any{int64(1), "x"}, []any{}, map[string]any{"a": int64(1)}, "$.src.i", "$.src.s", "$.src.a", "$.src.m", "$.src.zz", "@.src", []any{"sum", int64(1), int64(2)}, []any{"quote", "$.src.i"}, "$.asm.x", "$.src.f", "$.src.e", int64(99)}
	bad := map[string]int{}
	ex := map[string][]string{}
	note := func(cls, detail string) {
		bad[cls]++
		if len(ex[cls]) < 6 {
			ex[cls] = append(ex[cls], detail)
		}
	}
	total := 0
	runPlan := func(plan []any) (res string, errS string, srcAfter string, pstr string) {
		defer func() {
			if r := recover(); r != nil {
				errS = fmt.Sprintf("ESCAPED PANIC %v", r)
			}
		}()
		p := asm.NewPlan(alt.Dup(plan, &ojg.Options{}).([]any))
		pstr = fmt.Sprintf("%v", p)
		rt := root()
		err := p.Execute(rt)
		if err != nil {
			errS = err.Error()
		}
		return ser(rt["asm"]), errS, ser(rt["src"]), pstr
	}
	mutators := map[string]bool{"set": true, "setall": true, "del": true, "delall": true, "append": true}
	for _, name := range names {
		if name == "inspect" || name == "time" || name == "zone" {
			continue
		}
		var argLists [][]any
		argLists = append(argLists, []any{})
		for _, a := range kinds {
			argLists = append(argLists, []any{a})
			for _, b := range kinds {
				argLists = append(argLists, []any{a, b})
			}
		}
		for _, a := range kinds[:12] {
			for _, b := range kinds[:12] {
				for _, c := range kinds[:12] {
					argLists = append(argLists, []any{a, b, c})
				}
			}
		}
		for _, args := range argLists {
			total++
			call := append([]any{name}, args...)
			plan := []any{"set", "$.asm", call}
			if mutators[name] {
				plan = call
			}
			desc := ser(call)
			r1, e1, s1, _ := runPlan(plan)
			r2, e2, _, _ := runPlan(plan)
			if strings.HasPrefix(e1, "ESCAPED") {
				note(name+": "+fmt.Sprintf("%.70s", e1), desc)
				continue
			}
			if e1 != "" && fault(e1) {
				m := e1
				if i := strings.Index(m, "["); i > 0 {
					m = m[:i]
				}
				note(name+": recovered fault: "+fmt.Sprintf("%.60s", m), desc)
			}
			if r1 != r2 || e1 != e2 {
				note(name+": nondeterministic", desc+" "+r1+" vs "+r2)
			}
			if !mutators[name] && s1 != ser(root()["src"]) {
				note(name+": src changed", desc+" -> "+s1)
			}
		}
	}
	// sibling relations
	for _, a := range []any{int64(1), int64(2), 1.5, "a", "b"} {
		for _, b := range []any{int64(1), int64(2), 1.5, "a", "b"} {
			get := func(fn string, x, y any) string {
				r, e, _, _ := runPlan([]any{"set", "$.asm", []any{fn, x, y}})
				return r + "|" + fmt.Sprint(e != "")
			}
			if get("lt", a, b) != get("gt", b, a) {
				note("lt(a,b) != gt(b,a)", ser([]any{a, b})+" "+get("lt", a, b)+" "+get("gt", b, a))
			}
			if get("lte", a, b) != get("gte", b, a) {
				note("lte(a,b) != gte(b,a)", ser([]any{a, b}))
			}
			if get("<", a, b) != get("lt", a, b) {
				note("< != lt", ser([]any{a, b}))
			}
			eq, neq := get("eq", a, b), get("neq", a, b)
			if strings.HasSuffix(eq, "false") && strings.HasSuffix(neq, "false") && (strings.HasPrefix(eq, "true") == strings.HasPrefix(neq, "true")) {
				note("eq == neq", ser([]any{a, b})+" "+eq+" "+neq)
			}
		}
	}
	_ = reflect.DeepEqual
	var keys []string
	for k := range bad {
		keys = append(keys, k)
	}
	sort.Strings(keys)
	for _, k := range keys {
		fmt.Println(bad[k], k)
		fmt.Println("     ", ex[k])
	}
	fmt.Println("plans", total, "functions", len(names))
}
