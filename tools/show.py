#!/usr/bin/env python3
import json,sys,glob
prop=sys.argv[1]; flt=sys.argv[2] if len(sys.argv)>2 else ''
for f in sorted(glob.glob('/verif/replay/%s-*.json'%prop)):
    v=json.load(open(f))
    if flt and flt not in v['signature']: continue
    c=v['case']
    cs=json.dumps(c,ensure_ascii=False)
    print(v['signature'], ('KNOWN:'+v['known']) if v.get('known') else '')
    print('    case:',cs[:int(sys.argv[3]) if len(sys.argv)>3 else 260])
    print('    exp :',v.get('expected','')[:260].replace('\n','\\n'))
    print('    obs :',v.get('observed','')[:300].replace('\n','\\n'))
