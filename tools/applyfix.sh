#!/bin/bash
# usage: applyfix.sh <fNN script> <property> "<commit subject after 'fix: '>" "<what failed>"
# Applies one candidate repair to /repo as its own "fix:" commit after running the
# repository suite with hooks off, and records it in known_findings.json (fixed list).
set -eu
export GOFLAGS=-mod=mod GOPROXY=off GOSUMDB=off GOTOOLCHAIN=local
script=$1; prop=$2; subj=$3; what=$4
cd /repo
test -z "$(git status --porcelain)" || { echo "/repo dirty"; exit 1; }
PYTHONPATH=/verif/notes/candidate-fixes python3 "$script"
gofmt -l . | grep -v '^cmd/' | xargs -r gofmt -w
if ! go test -vet=off -count=1 ./... > /tmp/fixtest.log 2>&1; then
  echo "SUITE FAILS with $script"; grep -v "^ok" /tmp/fixtest.log | head -30; git checkout -- .; exit 1
fi
git add -A
git commit -qm "fix: $subj"
h=$(git rev-parse --short HEAD)
python3 - "$prop" "$h" "$what" <<'PY'
import json,sys
p='/verif/known_findings.json'
try: k=json.load(open(p))
except Exception: k={"version":1,"open":[],"fixed":[]}
k["fixed"].append({"line":"fixed: property=%s %s %s"%(sys.argv[1],sys.argv[2],sys.argv[3])})
json.dump(k,open(p,'w'),indent=1,ensure_ascii=False); open(p,'a').write("\n")
PY
echo "committed $h fix: $subj"
