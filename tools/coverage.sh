#!/bin/bash
# Measures which ojg code the quick workloads execute (a meta-check on the monitors, not a property check):
# builds the monitor with Go's coverage instrumentation for all ojg packages, runs every quick workload and
# lists the ojg functions that were never executed. usage: tools/coverage.sh [outdir]  (default /tmp/verif-cov)
set -u
export GOFLAGS=-mod=mod GOPROXY=off GOSUMDB=off GOTOOLCHAIN=local
out=${1:-/tmp/verif-cov}
rm -rf "$out"; mkdir -p "$out/data" "$out/run" "$out/verif"
cp /verif/known_findings.json "$out/verif/"
cd /verif/harness && go build -cover -coverpkg=github.com/ohler55/ojg/...,verif/... -tags verif -o "$out/verif-cov" ./cmd/verif || exit 2
for c in C01 C02 C03 C04 C05 C06 C07 C09 C10 C11 C12 C13 C14 C15 C16 C17 C18 C19 C20; do
  GOCOVERDIR="$out/data" "$out/verif-cov" drive -prop $c -tier quick -seed ${VERIF_SEED:-1} -verif "$out/verif" -rundir "$out/run" 2>&1 | grep -v "^KNOWN" | tail -1 | cut -c1-120
done
go tool covdata percent -i="$out/data" | grep "ohler55/ojg" | grep -v "/cmd/\|/tt"
go tool covdata func -i="$out/data" | grep "ohler55/ojg" | grep -v "/cmd/\|/tt/" | awk '$3=="0.0%" {print $1, $2}' | sed 's#github.com/ohler55/ojg/##' > "$out/never-executed.txt"
echo "functions never executed: $(wc -l < "$out/never-executed.txt") (list: $out/never-executed.txt)"
