#!/usr/bin/env python3
"""Regenerates the machine-written part of DESIGN.md (between the BEGIN/END GENERATED markers):
per-property as-built rule/assumptions/cost from evidence/*.json, the repaired defects and open
findings from known_findings.json, and the seeded-change detection matrix from seeded/*/meta.json."""
import json, glob, os, re, subprocess

V = '/verif'

def esc(s):
    return str(s).replace('|', '\\|').replace('\n', ' ')

def props():
    out = {}
    for l in open(V + '/properties.jsonl'):
        p = json.loads(l)
        out[p['id']] = p
    return out

def gen():
    P = props()
    o = []
    o.append('### G.1 What each check does, as built (from the evidence files the checks write)\n')
    o.append('For every property: the rule the monitor enforces (cases, oracle, what counts as non-trivial), the '
             'assumptions and tolerances it runs under, the sub-spaces it enumerates completely, and what the last '
             'quick run on this tree observed. These texts are the ones the monitors carry in their source '
             '(`harness/props/cXX`, fields `Rule`, `Assumptions`, `Exhaustive`) and print into `evidence/<id>.json`.\n')
    for pid in sorted(P):
        f = V + '/evidence/%s.json' % pid
        if not os.path.exists(f):
            continue
        e = json.load(open(f))
        c = e['coverage']
        o.append('#### %s — %s\n' % (pid, P[pid]['title']))
        o.append('* **Rule.** %s' % c.get('rule', ''))
        for a in e.get('assumptions', []):
            o.append('* *Assumption / tolerance.* %s' % a)
        for x in c.get('exhaustive_subspaces', []) or []:
            o.append('* *Enumerated completely.* %s' % x)
        kf = c.get('known_findings_observed') or {}
        o.append('* **Last quick run (seed %s):** %s evaluations of ojg code, %s distinct non-trivial cases, %d batches in child processes, %.0f s wall; verdict `%s`; open findings observed: %s.\n' % (
            e.get('seed'), format(c.get('evaluations', 0), ','), format(c.get('distinct_nontrivial', 0), ','), c.get('batches', 0), e.get('wall_s', 0), c.get('verdict'),
            ', '.join(sorted(kf)) if kf else 'none'))
    # fixes
    k = json.load(open(V + '/known_findings.json'))
    o.append('### G.2 Genuine defects repaired (one `fix:` commit each in `/repo`)\n')
    o.append('Each line is the entry the check machinery keeps in `known_findings.json` (`fixed` list): property, commit, '
             'the failing input or history. A fixed entry suppresses nothing.\n')
    byp = {}
    for ent in k['fixed']:
        m = re.match(r'fixed: property=(C\d+) (\w+) (.*)', ent['line'], re.S)
        byp.setdefault(m.group(1), []).append((m.group(2), m.group(3)))
    n = 0
    for pid in sorted(byp):
        o.append('**%s** (%d)\n' % (pid, len(byp[pid])))
        for h, what in byp[pid]:
            n += 1
            subj = subprocess.run(['git', '-C', '/repo', 'log', '-1', '--format=%s', h], capture_output=True, text=True).stdout.strip()
            o.append('* `%s` %s — %s' % (h, esc(subj), esc(what)))
        o.append('')
    o.append('Total: %d repairs.\n' % n)
    o.append('### G.3 Open findings (genuine defects recorded, not repaired)\n')
    o.append('| id | property | what fails | example |')
    o.append('|---|---|---|---|')
    for f in k['open']:
        o.append('| %s | %s | %s | %s |' % (f['id'], f['property'], esc(f['what']), esc(f.get('example', ''))))
    o.append('')
    # seeds
    o.append('### G.4 Seeded changes and which checks catch them\n')
    o.append('Every change below was written by a fresh sub-agent that saw only the property text and a scratch worktree, '
             'compiles, passes the repository\'s own test suite and comes with a demonstration (kept in `seeded/<id>/`). '
             '"detected by" lists the quick-tier checks that exit 1 with a VIOLATION line when the patch is applied to `/repo` '
             '(`tools/seedtest.sh`); checks that missed a change at first were strengthened until they caught it (the list is in 11.6).\n')
    o.append('| change | what was changed | needs | detected by (quick tier) |')
    o.append('|---|---|---|---|')
    for d in sorted(glob.glob(V + '/seeded/*/meta.json')):
        m = json.load(open(d))
        sid = os.path.basename(os.path.dirname(d))
        det = m.get('detected_by') or {}
        if isinstance(det, dict):
            hits = sorted(x.split('/')[0] for x, r in det.items() if str(r).startswith('detected'))
            miss = sorted(x.split('/')[0] for x, r in det.items() if not str(r).startswith('detected'))
        else:
            hits, miss = det, []
        cell = ', '.join(hits) if hits else '—'
        if miss:
            cell += ' (not by: ' + ', '.join(miss) + ')'
        o.append('| %s | %s | %s | %s |' % (sid, esc(m.get('summary', ''))[:300], esc(m.get('needs', ''))[:300], cell))
    o.append('')
    return '\n'.join(o)

def main():
    p = V + '/DESIGN.md'
    s = open(p).read()
    a, b = '<!-- BEGIN GENERATED -->', '<!-- END GENERATED -->'
    i, j = s.index(a), s.index(b)
    s = s[:i + len(a)] + '\n\n' + gen() + '\n' + s[j:]
    open(p, 'w').write(s)

main()
