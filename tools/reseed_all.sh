#!/bin/bash
# Re-runs every stored seeded change against the check of its own property (tools/seedtest.sh records the result in
# the seed's meta.json). /repo's working tree is patched while a seed runs: nothing else may build meanwhile.
cd /verif
for d in seeded/*/; do
  id=$(basename $d); p=${id%%_*}
  extra=""
  # changes that need a history of calls or another entry point are (also) the business of another property's check
  case $id in
    C02_m3|C02_m6|C02_m8|C02_m9|C02_m11|C02_m14|C03_m5|C03_m12|C04_m11|C10_m11|C15_m7|C18_m7) extra="C07";;
    C01_m6|C01_m14|C17_m13) extra="C03";;
    C08_m7|C08_m10) extra="C15";;
    C05_m12) extra="C11";;
    C17_m12) extra="C03";;
    C08_m12) extra="C12";;
    C05_m8) extra="C12 C14";;
  esac
  tools/seedtest.sh /verif/seeded/$id/patch.diff $p $extra 2>&1 | grep "^seed=" | sed "s/^seed=patch.diff/$id/" | cut -c1-220
done
git -C /repo status --short | head -3
