#!/bin/bash
# Re-runs every stored seeded change against the check of its own property (tools/seedtest.sh records the result in
# the seed's meta.json). /repo's working tree is patched while a seed runs: nothing else may build meanwhile.
cd /verif
for d in seeded/*/; do
  id=$(basename $d); p=${id%%_*}
  extra=""
  [ "$id" = "C02_m3" ] && extra="C07"
  tools/seedtest.sh /verif/seeded/$id/patch.diff $p $extra 2>&1 | grep "^seed=" | sed "s/^seed=patch.diff/$id/" | cut -c1-220
done
git -C /repo status --short | head -3
