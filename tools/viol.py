#!/usr/bin/env python3
"""usage: viol.py <PROP> <substring> [n] : print sample violations from replay files"""
import json,glob,sys
prop,sub=sys.argv[1],sys.argv[2]; n=int(sys.argv[3]) if len(sys.argv)>3 else 3
k=0
for f in sorted(glob.glob('/verif/replay/%s-*.json'%prop)):
    v=json.load(open(f))
    if sub not in v['signature']: continue
    k+=1
    if k>n: break
    print(v['signature'])
    for a,b in v['case'].items(): print('   ',a,'=',str(b)[:1500])
    print('    expected:',v['expected'][:700]); print('    observed:',v['observed'][:700])
