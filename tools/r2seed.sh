#!/bin/bash
# usage: r2seed.sh <ID> <check> [more checks]  : takes the round-2 outputs /tmp/wt/out2/<ID>_m1,m2, stores them as
# <ID>_m3,m4 (verified in a scratch worktree) and runs the given checks against each.
set -u
id=$1; shift
for i in 1 2; do
  j=$((i+2))
  [ -f /tmp/wt/out2/${id}_m$i.diff ] || { echo "no ${id}_m$i"; continue; }
  cp /tmp/wt/out2/${id}_m$i.diff /tmp/wt/out/${id}_m$j.diff
  cp /tmp/wt/out2/${id}_m$i.json /tmp/wt/out/${id}_m$j.json
  cp /tmp/wt/out2/${id}_m${i}_demo_test.go /tmp/wt/out/${id}_m${j}_demo_test.go
  /verif/tools/verifyseed.sh ${id}_m$j 2>&1 | tail -1
  if [ -d /verif/seeded/${id}_m$j ]; then
    /verif/tools/seedtest.sh /verif/seeded/${id}_m$j/patch.diff "$@" 2>&1 | grep "^seed="
  fi
done
git -C /repo worktree remove --force /tmp/wt/${id}r2 2>/dev/null
git -C /repo status --short | head -3
