#!/bin/bash
# usage: seedtest.sh <patch.diff> <Cxx> [Cyy ...]   (VERIF_TIER honoured)
# Applies a seeded change to /repo, runs the given checks, undoes the change. Prints one line per check.
set -u
patch=$1; shift
cd /repo
test -z "$(git status --porcelain)" || { echo "/repo dirty"; exit 2; }
if ! git apply --3way "$patch" 2>/tmp/seedapply.err; then
  if ! git apply "$patch" 2>>/tmp/seedapply.err; then echo "PATCH DOES NOT APPLY: $patch"; cat /tmp/seedapply.err | head -5; git checkout -- . ; exit 2; fi
fi
git reset -q 2>/dev/null
for p in "$@"; do
  out=$(cd /verif && ./check $p 2>&1)
  code=$?
  nviol=$(echo "$out" | grep -c '^VIOLATION')
  sig=$(echo "$out" | grep -m1 'signature=' | sed 's/^ *signature=//' | cut -c1-160)
  echo "seed=$(basename $patch) check=$p exit=$code violation_lines=$nviol :: $sig"
  python3 - "$patch" "$p" "$code" "$sig" "${VERIF_TIER:-quick}" <<'PY'
import json,sys,os
patch,check,code,sig,tier=sys.argv[1:6]
d=os.path.dirname(patch)
mp=os.path.join(d,'meta.json')
if os.path.exists(mp):
    m=json.load(open(mp))
    db=m.get('detected_by')
    if not isinstance(db,dict): db={}
    db[check+'/'+tier]=("detected: "+sig) if code=='1' else ("missed (exit %s)"%code)
    m['detected_by']=db
    json.dump(m,open(mp,'w'),indent=1)
PY
done
git checkout -- . ; git clean -fdq
