#!/bin/bash
# usage: rNseed.sh <round> <ID> <check> [more checks] : takes /tmp/wt/out<round>/<ID>_m1,m2, stores them as
# <ID>_m(2*round-1), m(2*round) after verification in a scratch worktree, and runs the given checks against each.
set -u
round=$1; id=$2; shift 2
for i in 1 2; do
  j=$((2*round-2+i))
  src=/tmp/wt/out$round
  [ -f $src/${id}_m$i.diff ] || { echo "no ${id}_m$i"; continue; }
  cp $src/${id}_m$i.diff /tmp/wt/out/${id}_m$j.diff
  cp $src/${id}_m$i.json /tmp/wt/out/${id}_m$j.json
  cp $src/${id}_m${i}_demo_test.go /tmp/wt/out/${id}_m${j}_demo_test.go
  /verif/tools/verifyseed.sh ${id}_m$j 2>&1 | tail -1
  if [ -d /verif/seeded/${id}_m$j ]; then
    /verif/tools/seedtest.sh /verif/seeded/${id}_m$j/patch.diff "$@" 2>&1 | grep "^seed="
  fi
done
git -C /repo worktree remove --force /tmp/wt/${id}r$round 2>/dev/null
git -C /repo status --short | head -3
