#!/bin/bash
# usage: sweep.sh "<seeds>" [tier] : runs every check at each seed, one line per run (exit code first).
cd /verif
tier=${2:-quick}
for s in $1; do
  for c in C01 C02 C03 C04 C05 C06 C07 C08 C09 C10 C11 C12 C13 C14 C15 C16 C17 C18 C19 C20; do
    out=$(VERIF_SEED=$s ./check $c --tier $tier 2>&1); code=$?
    echo "exit=$code $(echo "$out" | grep -v '^KNOWN' | tail -1 | cut -c1-170)"
    [ $code -ne 0 ] && echo "$out" | grep -v '^KNOWN' | grep -A4 '^VIOL\|^INCONC' | head -12 | cut -c1-400
  done
done
