#!/bin/bash
# usage: verifyseed.sh <ID_mN>   (reads /tmp/wt/out/<ID_mN>.{diff,json} and _demo_test.go)
# Confirms in a scratch worktree: demo passes without the change, suite passes with it, demo fails with it.
# On success stores the seed under /verif/seeded/<ID_mN>/.
set -u
export GOFLAGS=-mod=mod GOPROXY=off GOSUMDB=off GOTOOLCHAIN=local
id=$1; src=/tmp/wt/out
wt=/tmp/sv-$id
git -C /repo worktree remove --force $wt 2>/dev/null
git -C /repo worktree add -q --detach $wt HEAD || exit 2
trap 'git -C /repo worktree remove --force '$wt' 2>/dev/null' EXIT
dir=$(python3 -c "import json;print(json.load(open('$src/$id.json'))['demo_dir'])")
cp $src/${id}_demo_test.go $wt/$dir/zz_demo_${id}_test.go
cd $wt
pkg=./$dir
r1=$(go test -vet=off -count=1 -run 'Demo' $pkg 2>&1 | tail -3); ok1=$?; echo "$r1" | grep -q "^ok" && a=pass || a=FAIL
git apply --3way $src/$id.diff 2>/dev/null || git apply $src/$id.diff || { echo "$id: patch does not apply"; exit 1; }
rm -f $wt/$dir/zz_demo_${id}_test.go
if go build ./... 2>/dev/null && go test -vet=off -count=1 ./... >/tmp/sv-$id.log 2>&1; then b=pass; else b=FAIL; fi
cp $src/${id}_demo_test.go $wt/$dir/zz_demo_${id}_test.go
go test -vet=off -count=1 -run 'Demo' $pkg >/tmp/sv-$id.demo 2>&1 && c=pass-UNEXPECTED || c=fails
echo "$id: demo-without-change=$a suite-with-change=$b demo-with-change=$c"
if [ $a = pass ] && [ $b = pass ] && [ $c = fails ]; then
  mkdir -p /verif/seeded/$id
  cp $src/$id.diff /verif/seeded/$id/patch.diff
  cp $src/${id}_demo_test.go /verif/seeded/$id/demo_test.go
  python3 - $id <<'PY'
import json,sys,subprocess
id=sys.argv[1]
m=json.load(open('/tmp/wt/out/%s.json'%id))
m['verified']={"base_commit":subprocess.check_output(['git','-C','/repo','rev-parse','--short','HEAD']).decode().strip(),
  "ran":["demo without change: pass","go build ./... && go test -vet=off -count=1 ./... with change: pass","demo with change: fails"]}
m.setdefault('detected_by',[])
json.dump(m,open('/verif/seeded/%s/meta.json'%id,'w'),indent=1)
PY
fi
