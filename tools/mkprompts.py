import json,sys
rnd=sys.argv[1]
hint=open('/tmp/wt/hint_r%s.txt'%rnd).read()
for l in open('/verif/properties.jsonl'):
    d=json.loads(l); id=d['id']
    wt='/tmp/wt/%sr%s'%(id,rnd)
    out='/tmp/wt/out%s'%rnd
    p=f"""You are helping test a verification framework for the Go library ohler55/ojg (JSON/SEN parsers, writers, JSONPath, alt conversions, asm plans).
You have your own scratch git worktree of the library at {wt} (a detached checkout; work ONLY inside it; never touch /repo or /verif and do not read anything under /verif).
Every shell command needs: export GOFLAGS=-mod=mod GOPROXY=off GOSUMDB=off GOTOOLCHAIN=local   (no network is available).

Here is a semantic property the library is supposed to satisfy (JSON):

{json.dumps(d,indent=1)}

TASK: produce TWO different, independent source changes ("m1" and "m2") to the library (non-test .go files only, do not touch *_test.go or go.mod) each of which BREAKS this property, while the library still compiles (go build ./...) and the ENTIRE existing test suite still passes (go test -vet=off -count=1 ./...  run from the worktree root) with the change applied.
Each change should look like a plausible, realistic slip a maintainer could make (a refactor, a 'simplification', an optimisation, a copy/paste slip, a dropped reset, a wrong table cell, a wrong bound) - small, and not flagged by comments.
Each change must need something SPECIFIC to manifest - a particular interleaving, a fault at a particular point, a multi-step sequence of operations, an unusual input or option combination, a particular data representation, or two cooperating sites that each look fine alone - NOT something ordinary use would expose at once.
{hint}
For each change also write a demonstration: a Go test file (package of the directory it is to be placed in, test function name starting with TestDemo, unique e.g. TestDemo{id}R{rnd}M1) that FAILS with the change and PASSES without it. It must be self-contained in one _test.go file, use only the library and the standard library, and be deterministic (for a data race, make it fail deterministically by observing the wrong result, or if impossible, say so in 'needs').
The two changes must be independent: each diff is relative to the unchanged checkout (save with `git diff > file`, then `git checkout -- .` between them; do NOT use git stash - the stash is shared between worktrees), touch different mechanisms, and preferably different files.

VERIFY YOURSELF, for each change: (a) demo passes on the unchanged checkout, (b) with the change: go build ./... ok and go test -vet=off -count=1 ./... all ok (without the demo file present), (c) with the change the demo fails.

DELIVERABLES (write exactly these files; create nothing else outside the worktree):
 {out}/{id}_m1.diff            - output of `git diff` for change 1 (library files only, relative to the unchanged checkout; no demo file inside)
 {out}/{id}_m1_demo_test.go    - the demonstration test file for change 1
 {out}/{id}_m1.json            - {{"property":"{id}","summary":"<what was changed, where>","needs":"<what it needs in order to manifest>","demo_dir":"<directory relative to the repo root in which the demo test file must be placed, e.g. oj>","demo_run":"go test -vet=off -count=1 -run '<TestName>$' ./<dir>/"}}
 and the same three files for m2.
Leave the worktree clean at the end (git checkout -- . ; remove your demo files). Your final message: two lines, one per change, saying what it is and that (a)(b)(c) were confirmed. If you find that the UNCHANGED library already violates the property on some input while you work, add a line 'UNCHANGED-TREE DEFECT: <input and what happens>'.
"""
    open('/tmp/wt/prompt_%s_r%s.txt'%(id,rnd),'w').write(p)
