module verif

go 1.18

require github.com/ohler55/ojg v0.0.0

replace github.com/ohler55/ojg => /repo
