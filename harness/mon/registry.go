package mon

// Prop describes one property's monitor to the driver.
type Prop struct {
	ID string
	// Batches returns the number of child processes the case list is split into.
	Batches func(tier string) int
	// Run executes batch c.Batch of c.Batches.
	Run func(c *Ctx)
	// Race asks for a second pass of the same Run under the race detector
	// (build with -race); c.Cover etc. work the same way.
	Race bool
	// RaceBatches is the number of race-detector children (each is one repetition).
	RaceBatches func(tier string) int
	// Rule is the text that states how cases are generated and what makes one
	// non-trivial / distinct.
	Rule string
	// Level is the claimed level (exploration everywhere).
	Assumptions []string
	// Findings maps predicate names (known_findings.json) to predicates.
	Findings map[string]func(v *Violation) bool
	// Floors inspects the merged coverage and returns reasons why the run is
	// inconclusive (a monitor that stopped observing).
	Floors func(tier string, cover map[string]int64, evals int64) []string
	// Exhaustive lists the finite sub-spaces the run enumerates completely.
	Exhaustive func(tier string) []string
	// CPULimit overrides the watchdog's no-progress CPU limit (seconds).
	CPULimit float64
	// WallLimit is the per-child wall-clock kill in seconds (generous; firing is inconclusive).
	WallLimit func(tier string) int
	// Parallel limits concurrently running children (0 = 16).
	Parallel int
}

var Registry = map[string]*Prop{}

func Register(p *Prop) { Registry[p.ID] = p }
