package mon

import (
	"bytes"
	"crypto/sha1"
	"encoding/json"
	"flag"
	"fmt"
	"os"
	"os/exec"
	"path/filepath"
	"regexp"
	"sort"
	"strconv"
	"strings"
	"sync"
	"time"
)

// KnownFindings mirrors /verif/known_findings.json (read-only at run time).
type KnownFindings struct {
	Version int            `json:"version"`
	Open    []OpenFinding  `json:"open"`
	Fixed   []FixedFinding `json:"fixed"`
}

type OpenFinding struct {
	ID        string `json:"id"`
	Property  string `json:"property"`
	Predicate string `json:"predicate"`
	What      string `json:"what"`
	Example   any    `json:"example,omitempty"`
}

type FixedFinding struct {
	Line string `json:"line"`
}

type childOutcome struct {
	batch  int
	race   bool
	res    *BatchResult
	hashes []uint64
	incon  []string
	extraV []*Violation
	wall   float64
}

// Drive is the orchestrator: it runs every batch of a property in child
// processes, merges, decides, writes evidence and prints the verdict lines.
func Drive(args []string) int {
	fs := flag.NewFlagSet("drive", flag.ExitOnError)
	propID := fs.String("prop", "", "")
	tier := fs.String("tier", "quick", "")
	seed := fs.Int64("seed", 1, "")
	replay := fs.String("replay", "", "")
	verifDir := fs.String("verif", "/verif", "")
	runDir := fs.String("rundir", "", "")
	raceBin := fs.String("racebin", "", "")
	fs.Parse(args)
	verifDirGlobal = *verifDir
	p := Registry[*propID]
	if p == nil {
		fmt.Printf("INCONCLUSIVE property=%s reason=unknown-property\n", *propID)
		return 2
	}
	self, _ := os.Executable()
	start := time.Now()
	if *replay != "" {
		return driveReplay(p, self, *raceBin, *replay, *runDir)
	}
	if old, _ := filepath.Glob(filepath.Join(*verifDir, "replay", p.ID+"-*.json")); len(old) > 0 {
		for _, f := range old {
			os.Remove(f)
		}
	}
	n := p.Batches(*tier)
	type job struct {
		batch int
		race  bool
	}
	var jobs []job
	for i := 0; i < n; i++ {
		jobs = append(jobs, job{i, false})
	}
	nr := 0
	if p.Race && p.RaceBatches != nil {
		nr = p.RaceBatches(*tier)
		if *raceBin == "" {
			fmt.Printf("INCONCLUSIVE property=%s reason=no-race-binary\n", p.ID)
			return 2
		}
		for i := 0; i < nr; i++ {
			jobs = append(jobs, job{i, true})
		}
	}
	par := p.Parallel
	if par == 0 {
		par = 16
	}
	wall := 900
	if p.WallLimit != nil {
		wall = p.WallLimit(*tier)
	} else if *tier == "thorough" {
		wall = 3600
	}
	sem := make(chan struct{}, par)
	outs := make([]*childOutcome, len(jobs))
	var wg sync.WaitGroup
	for ji, j := range jobs {
		if j.race {
			continue
		}
		wg.Add(1)
		go func(ji int, j job) {
			defer wg.Done()
			sem <- struct{}{}
			defer func() { <-sem }()
			outs[ji] = runChild(p, self, *tier, *seed, j.batch, n, false, *runDir, wall, "")
		}(ji, j)
	}
	wg.Wait()
	// race children use all cores themselves: one after the other
	for ji, j := range jobs {
		if j.race {
			outs[ji] = runChild(p, *raceBin, *tier, *seed, j.batch, nr, true, *runDir, wall, "")
		}
	}

	// merge
	merged := &BatchResult{Property: p.ID, Cover: map[string]int64{}, SigCounts: map[string]int64{}, Max: map[string]float64{}}
	hashes := map[uint64]struct{}{}
	var incon []string
	perSig := map[string]int{}
	var cpu float64
	for _, o := range outs {
		incon = append(incon, o.incon...)
		for _, v := range o.extraV {
			for _, of := range LoadKnown(*verifDir).Open {
				if pred := p.Findings[of.Predicate]; of.Property == p.ID && pred != nil && pred(v) {
					v.Known = of.ID
					break
				}
			}
			if v.Known != "" {
				merged.SigCounts[v.Sig+"#known:"+v.Known]++
				continue
			}
			merged.SigCounts[v.Sig]++
			if perSig[v.Sig] < maxPerSig {
				perSig[v.Sig]++
				merged.Violations = append(merged.Violations, v)
			}
		}
		if o.res == nil {
			continue
		}
		r := o.res
		merged.Evals += r.Evals
		merged.EnumDist += r.EnumDist
		cpu += r.CPUSec
		for k, v := range r.Cover {
			merged.Cover[k] += v
		}
		for k, v := range r.Max {
			if v > merged.Max[k] {
				merged.Max[k] = v
			}
		}
		for k, v := range r.SigCounts {
			merged.SigCounts[k] += v
		}
		for _, v := range r.Violations {
			key := v.Sig + "#" + v.Known
			if perSig[key] < maxPerSig {
				perSig[key]++
				merged.Violations = append(merged.Violations, v)
			}
		}
		for _, s := range r.Samples {
			if len(merged.Samples) < 6 {
				merged.Samples = append(merged.Samples, s)
			}
		}
		merged.Notes = append(merged.Notes, r.Notes...)
		for _, s := range r.Incon {
			incon = append(incon, fmt.Sprintf("batch %d: %s", r.Batch, s))
		}
		for _, h := range o.hashes {
			hashes[h] = struct{}{}
		}
	}
	if p.Floors != nil && len(incon) == 0 {
		incon = append(incon, p.Floors(*tier, merged.Cover, merged.Evals)...)
	}

	// known findings (matched in the child for every violation, see Ctx.Violation)
	kf := LoadKnown(*verifDir)
	knownSeen := map[string]int64{}
	knownWhat := map[string]string{}
	for _, of := range kf.Open {
		knownWhat[of.ID] = of.What
	}
	var unknown []*Violation
	for _, v := range merged.Violations {
		if v.Known == "" {
			unknown = append(unknown, v)
		}
	}
	for key, n := range merged.SigCounts {
		if i := strings.Index(key, "#known:"); i >= 0 {
			knownSeen[key[i+7:]] += n
		}
	}
	var notSeen []string
	for _, of := range kf.Open {
		if of.Property == p.ID && knownSeen[of.ID] == 0 {
			notSeen = append(notSeen, of.ID)
		}
	}

	// output
	ids := make([]string, 0, len(knownSeen))
	for id := range knownSeen {
		ids = append(ids, id)
	}
	sort.Strings(ids)
	for _, id := range ids {
		fmt.Printf("KNOWN-FINDING: property=%s %s: %s (%d observations)\n", p.ID, id, knownWhat[id], knownSeen[id])
	}
	os.MkdirAll(filepath.Join(*verifDir, "replay"), 0o755)
	printed := map[string]bool{}
	var unknownTotal int64
	for _, v := range unknown {
		if printed[v.Sig] {
			continue
		}
		printed[v.Sig] = true
		unknownTotal += merged.SigCounts[v.Sig]
		b, _ := json.MarshalIndent(v, "", " ")
		sum := sha1.Sum([]byte(v.Sig))
		path := filepath.Join(*verifDir, "replay", fmt.Sprintf("%s-%x.json", p.ID, sum[:6]))
		if len(printed) <= maxReplayFiles() {
			os.WriteFile(path, b, 0o644)
		}
		if len(printed) <= 12 {
			fmt.Printf("VIOLATION property=%s replay=%s\n", p.ID, path)
			fmt.Printf("  signature=%s count=%d\n  case=%s\n  expected=%s\n  observed=%s\n", v.Sig, merged.SigCounts[v.Sig], oneLine(v.Case), oneLine(v.Expected), oneLine(v.Observed))
		}
	}
	if len(printed) > 12 {
		fmt.Printf("  (%d further distinct violation signatures not printed; replay files written)\n", len(printed)-12)
	}
	for _, r := range incon {
		fmt.Printf("INCONCLUSIVE property=%s reason=%s\n", p.ID, oneLine(r))
	}

	// evidence
	distinct := merged.EnumDist + int64(len(hashes))
	cov := map[string]any{
		"evaluations":         merged.Evals,
		"distinct_nontrivial": distinct,
		"rule":                p.Rule,
		"samples":             nonNil(merged.Samples),
		"exhaustive":          false,
		"counters":            merged.Cover,
		"batches":             n,
		"race_batches":        nr,
		"cpu_s":               round1(cpu),
		"violation_signatures": func() map[string]int64 {
			if len(merged.SigCounts) == 0 {
				return map[string]int64{}
			}
			return merged.SigCounts
		}(),
		"known_findings_observed":     knownSeen,
		"known_findings_not_observed": notSeen,
		"inconclusive":                incon,
	}
	if len(merged.Max) > 0 {
		cov["maxima"] = merged.Max
	}
	if len(merged.Notes) > 0 {
		if len(merged.Notes) > 20 {
			merged.Notes = merged.Notes[:20]
		}
		cov["notes"] = merged.Notes
	}
	if p.Exhaustive != nil {
		cov["exhaustive_subspaces"] = p.Exhaustive(*tier)
	}
	verdict := "held-on-observed"
	code := 0
	if len(unknown) > 0 {
		verdict, code = "violated", 1
	} else if len(incon) > 0 {
		verdict, code = "inconclusive", 2
	}
	cov["verdict"] = verdict
	ev := map[string]any{
		"property_id": p.ID,
		"tier":        *tier,
		"seed":        *seed,
		"level":       "exploration",
		"coverage":    cov,
		"assumptions": p.Assumptions,
		"wall_s":      round1(time.Since(start).Seconds()),
		"violations":  unknownTotal,
	}
	eb, _ := json.MarshalIndent(ev, "", " ")
	os.MkdirAll(filepath.Join(*verifDir, "evidence"), 0o755)
	os.WriteFile(filepath.Join(*verifDir, "evidence", p.ID+".json"), append(eb, '\n'), 0o644)
	fmt.Printf("%s %s tier=%s seed=%d evaluations=%d distinct_nontrivial=%d known=%d violations=%d verdict=%s wall=%.1fs\n",
		p.ID, time.Now().Format("15:04:05"), *tier, *seed, merged.Evals, distinct, len(knownSeen), unknownTotal, verdict, time.Since(start).Seconds())
	return code
}

func round1(f float64) float64 { return float64(int64(f*10)) / 10 }

func oneLine(v any) string {
	var s string
	switch t := v.(type) {
	case string:
		s = t
	default:
		b, _ := json.Marshal(v)
		s = string(b)
	}
	s = strings.ReplaceAll(s, "\n", "\\n")
	if len(s) > 400 {
		s = s[:400] + "…"
	}
	return s
}

func LoadKnown(dir string) *KnownFindings {
	if dir == "" {
		dir = "/verif"
	}
	kf := &KnownFindings{}
	b, err := os.ReadFile(filepath.Join(dir, "known_findings.json"))
	if err == nil {
		json.Unmarshal(b, kf)
	}
	return kf
}

var verifDirGlobal = "/verif"

var fatalRe = regexp.MustCompile(`(?m)^(fatal error: .*|runtime: goroutine stack exceeds.*|panic: .*|unexpected fault address.*|SIGSEGV.*)$`)

func runChild(p *Prop, bin, tier string, seed int64, batch, batches int, race bool, runDir string, wall int, sig string) *childOutcome {
	o := &childOutcome{batch: batch, race: race}
	tag := fmt.Sprintf("b%d", batch)
	if race {
		tag = fmt.Sprintf("r%d", batch)
	}
	out := filepath.Join(runDir, tag+".json")
	logp := filepath.Join(runDir, tag+".log")
	attempt := func(intentPath string) (exit int, timedOut bool) {
		os.Remove(out)
		args := []string{"batch", "-prop", p.ID, "-tier", tier, "-seed", fmt.Sprint(seed), "-batch", fmt.Sprint(batch), "-batches", fmt.Sprint(batches), "-out", out}
		if sig != "" {
			args = append(args, "-sig", sig)
		}
		cmd := exec.Command(bin, args...)
		lf, _ := os.Create(logp)
		defer lf.Close()
		cmd.Stdout, cmd.Stderr = lf, lf
		cmd.Env = append(os.Environ(), "GOTRACEBACK=single", "VERIF_DIR="+verifDirGlobal)
		if intentPath != "" {
			cmd.Env = append(cmd.Env, "VERIF_INTENT="+intentPath)
		}
		if race {
			cmd.Env = append(cmd.Env, "VERIF_RACE=1", "GORACE=halt_on_error=0 exitcode=0 history_size=3 log_path="+filepath.Join(runDir, tag+".race"))
		}
		t0 := time.Now()
		if err := cmd.Start(); err != nil {
			return -1, false
		}
		done := make(chan error, 1)
		go func() { done <- cmd.Wait() }()
		select {
		case err := <-done:
			o.wall = time.Since(t0).Seconds()
			if err == nil {
				return 0, false
			}
			if ee, ok := err.(*exec.ExitError); ok {
				return ee.ExitCode(), false
			}
			return -1, false
		case <-time.After(time.Duration(wall) * time.Second):
			cmd.Process.Kill()
			<-done
			return -1, true
		}
	}
	read := func() {
		if b, err := os.ReadFile(out); err == nil {
			var r BatchResult
			if json.Unmarshal(b, &r) == nil {
				o.res = &r
			}
		}
		if b, err := os.ReadFile(out + ".hashes"); err == nil {
			for i := 0; i+8 <= len(b); i += 8 {
				var h uint64
				for k := 0; k < 8; k++ {
					h |= uint64(b[i+k]) << (8 * k)
				}
				o.hashes = append(o.hashes, h)
			}
		}
	}
	exit, to := attempt("")
	switch {
	case to:
		// wall-clock kill: retry once alone-ish; a second kill is inconclusive
		exit, to = attempt("")
		if to {
			o.incon = append(o.incon, fmt.Sprintf("%s: child killed after %ds wall-clock twice", tag, wall))
			return o
		}
		fallthrough
	default:
		if exit == 0 || exit == 3 {
			read()
			if o.res == nil {
				o.incon = append(o.incon, tag+": child wrote no result")
			}
		} else if exit == 4 {
			read()
			if o.res == nil {
				o.incon = append(o.incon, tag+": harness panic, no result")
			}
		} else {
			// the process died (fatal runtime error, os.Exit inside ojg, ...): attribute it
			lb, _ := os.ReadFile(logp)
			first := fatalRe.Find(lb)
			ip := filepath.Join(runDir, tag+".intent")
			exit2, to2 := attempt(ip)
			if to2 || exit2 == 0 || exit2 == 3 {
				read()
				o.incon = append(o.incon, fmt.Sprintf("%s: child died once (exit %d: %s) and did not die again", tag, exit, string(first)))
				return o
			}
			ib, _ := os.ReadFile(ip)
			var it struct {
				Entry string `json:"entry"`
				Case  any    `json:"case"`
			}
			json.Unmarshal(bytes.TrimSpace(ib), &it)
			lb2, _ := os.ReadFile(logp)
			first2 := fatalRe.Find(lb2)
			if it.Entry == "" {
				o.incon = append(o.incon, fmt.Sprintf("%s: child died twice (exit %d: %s) before any intent", tag, exit2, string(first2)))
				return o
			}
			msg := string(first2)
			cls := "fatal"
			if strings.Contains(msg, "stack exceeds") || strings.Contains(msg, "stack overflow") {
				cls = "stack-overflow"
			} else if strings.Contains(msg, "concurrent map") {
				cls = "concurrent-map"
			}
			v := &Violation{Property: p.ID, Entry: it.Entry, Kind: "process-died", Class: cls, Case: it.Case, Expected: "call returns", Observed: msg,
				Tier: tier, Seed: seed, Batch: batch, Batches: batches}
			v.Sig = p.ID + "/" + it.Entry + "/process-died/" + cls
			o.extraV = append(o.extraV, v)
		}
	}
	if race {
		o.extraV = append(o.extraV, raceReports(p, runDir, tag, tier, seed, batch, batches)...)
	}
	return o
}

var frameRe = regexp.MustCompile(`(?m)^  ([^\s(]+)\(\)\n\s+(\S+):(\d+)`)

// raceReports parses the race detector's log files of one child and turns
// every report into a violation, de-duplicated by the pair of innermost ojg
// frames with line numbers stripped.
func raceReports(p *Prop, runDir, tag, tier string, seed int64, batch, batches int) []*Violation {
	files, _ := filepath.Glob(filepath.Join(runDir, tag+".race.*"))
	var vs []*Violation
	seen := map[string]bool{}
	for _, f := range files {
		b, _ := os.ReadFile(f)
		blocks := strings.Split(string(b), "==================")
		for _, blk := range blocks {
			if !strings.Contains(blk, "WARNING: DATA RACE") {
				continue
			}
			// the two access stacks are the first two paragraphs
			paras := strings.Split(strings.TrimSpace(blk), "\n\n")
			var tops []string
			ojg := false
			for i, para := range paras {
				if i > 1 {
					break
				}
				top := ""
				for _, m := range frameRe.FindAllStringSubmatch(para, -1) {
					if strings.Contains(m[1], "github.com/ohler55/ojg") {
						ojg = true
						if top == "" {
							top = m[1]
						}
					}
				}
				tops = append(tops, top)
			}
			sort.Strings(tops)
			cls := strings.Join(tops, "|")
			if !ojg {
				cls = "no-ojg-frame"
			}
			if seen[cls] {
				continue
			}
			seen[cls] = true
			v := &Violation{Property: p.ID, Entry: "race-detector", Kind: "data-race", Class: cls, Case: map[string]any{"report": clip(blk)},
				Expected: "no data race report", Observed: "WARNING: DATA RACE", Tier: tier, Seed: seed, Batch: batch, Batches: batches}
			v.Sig = p.ID + "/race-detector/data-race/" + cls
			vs = append(vs, v)
		}
	}
	return vs
}

func driveReplay(p *Prop, self, raceBin, path, runDir string) int {
	b, err := os.ReadFile(path)
	if err != nil {
		fmt.Printf("INCONCLUSIVE property=%s reason=cannot-read-replay-file\n", p.ID)
		return 2
	}
	var v Violation
	if json.Unmarshal(b, &v) != nil || v.Sig == "" {
		fmt.Printf("INCONCLUSIVE property=%s reason=bad-replay-file\n", p.ID)
		return 2
	}
	bin := self
	race := v.Entry == "race-detector"
	tries := 1
	if race {
		bin = raceBin
		tries = 10
	}
	for t := 0; t < tries; t++ {
		o := runChild(p, bin, v.Tier, v.Seed, v.Batch, v.Batches, race, runDir, 3600, v.Sig)
		var all []*Violation
		all = append(all, o.extraV...)
		if o.res != nil {
			all = append(all, o.res.Violations...)
		}
		for _, w := range all {
			if w.Sig == v.Sig {
				fmt.Printf("VIOLATION property=%s replay=%s\n  reproduced signature=%s\n  case=%s\n  expected=%s\n  observed=%s\n", p.ID, path, w.Sig, oneLine(w.Case), oneLine(w.Expected), oneLine(w.Observed))
				return 1
			}
		}
	}
	if race {
		fmt.Printf("INCONCLUSIVE property=%s reason=race-not-reproduced-in-%d-runs\n", p.ID, tries)
		return 2
	}
	fmt.Printf("%s replay: signature %s not reproduced on the current tree\n", p.ID, v.Sig)
	return 0
}

func nonNil(s []any) []any {
	if s == nil {
		return []any{}
	}
	return s
}

// maxReplayFiles: 60 replay files per run, more with VERIF_MAXREPLAY (triage aid).
func maxReplayFiles() int {
	if n, err := strconv.Atoi(os.Getenv("VERIF_MAXREPLAY")); err == nil && n > 0 {
		return n
	}
	return 60
}
