// Package mon is the shared runtime-monitoring core: the per-batch context
// every property workload reports into (evaluations, coverage counters,
// distinct case digests, violations, samples), the panic guard, the recovered
// runtime-fault classifier and the in-process CPU watchdog.
package mon

import (
	"encoding/base64"
	"encoding/json"
	"fmt"
	"hash/fnv"
	"math/rand"
	"os"
	"runtime/debug"
	"sort"
	"strings"
	"sync"
	"sync/atomic"
	"syscall"
	"time"
	"unicode/utf8"
)

// Violation is one observed refutation of a property.
type Violation struct {
	Property string `json:"property"`
	Entry    string `json:"entry"`           // API entry point or front-end observed
	Kind     string `json:"kind"`            // what went wrong (false-accept, value, panic, ...)
	Class    string `json:"class,omitempty"` // classifier output computed from the (shrunk) witness
	Case     any    `json:"case"`            // the witness, JSON serialisable
	Expected string `json:"expected,omitempty"`
	Observed string `json:"observed,omitempty"`
	Sig      string `json:"signature"`
	Tier     string `json:"tier"`
	Seed     int64  `json:"seed"`
	Batch    int    `json:"batch"`
	Batches  int    `json:"batches"`
	Known    string `json:"known,omitempty"` // id of the open finding that covers it (set by the driver)
}

// BatchResult is what one child process reports.
type BatchResult struct {
	Property   string             `json:"property"`
	Batch      int                `json:"batch"`
	Evals      int64              `json:"evals"`
	EnumDist   int64              `json:"enum_distinct"` // distinct-by-construction non-trivial cases
	Cover      map[string]int64   `json:"cover"`
	Violations []*Violation       `json:"violations"`
	SigCounts  map[string]int64   `json:"sig_counts"`
	Samples    []any              `json:"samples"`
	Max        map[string]float64 `json:"max,omitempty"`
	Notes      []string           `json:"notes,omitempty"`
	Incon      []string           `json:"inconclusive,omitempty"`
	CPUSec     float64            `json:"cpu_s"`
	Done       bool               `json:"done"`
}

// Ctx is the per-batch monitoring context. All methods are safe for
// concurrent use (C08 reports from many goroutines).
type Ctx struct {
	Prop    string
	Tier    string
	Seed    int64
	Batch   int
	Batches int
	OutPath string

	mu       sync.Mutex
	evals    int64
	enumDist int64
	cover    map[string]int64
	hashes   map[uint64]struct{}
	viol     []*Violation
	sigCount map[string]int64
	samples  []any
	maxv     map[string]float64
	notes    []string
	incon    []string

	cur      atomic.Value // *intent
	progress int64
	intentFD *os.File
	OnlySig  string // replay: report only this signature
	known    []OpenFinding
	preds    map[string]func(v *Violation) bool
}

// SetKnown installs the open findings (and their predicates) so that every
// violation - not only the few witnesses kept per signature - is matched.
func (c *Ctx) SetKnown(open []OpenFinding, preds map[string]func(v *Violation) bool) {
	for _, o := range open {
		if o.Property == c.Prop {
			c.known = append(c.known, o)
		}
	}
	c.preds = preds
}

type intent struct {
	Entry string
	Case  any
}

const maxPerSig = 3

func NewCtx(prop, tier string, seed int64, batch, batches int, out string) *Ctx {
	c := &Ctx{Prop: prop, Tier: tier, Seed: seed, Batch: batch, Batches: batches, OutPath: out,
		cover: map[string]int64{}, hashes: map[uint64]struct{}{}, sigCount: map[string]int64{}, maxv: map[string]float64{}}
	if p := os.Getenv("VERIF_INTENT"); p != "" {
		c.intentFD, _ = os.OpenFile(p, os.O_CREATE|os.O_WRONLY|os.O_TRUNC, 0o644)
	}
	return c
}

// Thorough says whether the thorough tier was asked for.
func (c *Ctx) Thorough() bool { return c.Tier == "thorough" }

// Pick returns q for the quick tier and t for the thorough tier.
func (c *Ctx) Pick(q, t int) int {
	if c.Thorough() {
		return t
	}
	return q
}

// Rand returns a PRNG that is a pure function of (seed, property, batch, label).
func (c *Ctx) Rand(label string) *rand.Rand {
	h := fnv.New64a()
	fmt.Fprintf(h, "%d|%s|%d|%s", c.Seed, c.Prop, c.Batch, label)
	return rand.New(rand.NewSource(int64(h.Sum64())))
}

// RandGlobal is like Rand but does not depend on the batch index (for data that
// every batch must derive identically, such as shared corpora).
func (c *Ctx) RandGlobal(label string) *rand.Rand {
	h := fnv.New64a()
	fmt.Fprintf(h, "%d|%s|%s", c.Seed, c.Prop, label)
	return rand.New(rand.NewSource(int64(h.Sum64())))
}

// Mine says whether item i of a globally enumerated list belongs to this batch.
func (c *Ctx) Mine(i int) bool { return i%c.Batches == c.Batch }

// Begin records the intent of the next call(s) (for the watchdog and for crash
// attribution) and counts progress.
func (c *Ctx) Begin(entry string, cs any) {
	if b, ok := cs.([]byte); ok {
		cs = append([]byte{}, b...)
	}
	c.cur.Store(&intent{entry, cs})
	atomic.AddInt64(&c.progress, 1)
	if c.intentFD != nil {
		b, _ := json.Marshal(map[string]any{"entry": entry, "case": Jsonable(cs)})
		if len(b) < 4000 {
			b = append(b, make([]byte, 4000-len(b))...)
			for i := range b {
				if b[i] == 0 {
					b[i] = ' '
				}
			}
		}
		c.intentFD.WriteAt(b, 0)
	}
}

// Eval counts executions of the code under observation.
func (c *Ctx) Eval(n int) { atomic.AddInt64(&c.evals, int64(n)) }

// Cover increments a coverage counter.
func (c *Ctx) Cover(key string) {
	c.mu.Lock()
	c.cover[key]++
	c.mu.Unlock()
}

func (c *Ctx) CoverN(key string, n int64) {
	c.mu.Lock()
	c.cover[key] += n
	c.mu.Unlock()
}

// Max tracks a maximum.
func (c *Ctx) Max(key string, v float64) {
	c.mu.Lock()
	if v > c.maxv[key] {
		c.maxv[key] = v
	}
	c.mu.Unlock()
}

// DistinctEnum counts n cases that are distinct by construction (enumeration)
// and non-trivial by the property's rule.
func (c *Ctx) DistinctEnum(n int) { atomic.AddInt64(&c.enumDist, int64(n)) }

// Distinct records the digest of a non-trivial generated case.
func (c *Ctx) Distinct(parts ...any) {
	h := fnv.New64a()
	for _, p := range parts {
		switch v := p.(type) {
		case []byte:
			h.Write(v)
		case string:
			h.Write([]byte(v))
		default:
			fmt.Fprintf(h, "%v", v)
		}
		h.Write([]byte{0})
	}
	c.mu.Lock()
	c.hashes[h.Sum64()] = struct{}{}
	c.mu.Unlock()
}

// Sample keeps a few actual cases for the evidence file.
func (c *Ctx) Sample(s any) {
	c.mu.Lock()
	if len(c.samples) < 4 {
		c.samples = append(c.samples, Jsonable(s))
	}
	c.mu.Unlock()
}

func (c *Ctx) WantSample() bool {
	c.mu.Lock()
	defer c.mu.Unlock()
	return len(c.samples) < 4
}

func (c *Ctx) Note(s string) {
	c.mu.Lock()
	c.notes = append(c.notes, s)
	c.mu.Unlock()
}

// Inconclusive records a reason why this batch cannot give a verdict.
func (c *Ctx) Inconclusive(reason string) {
	c.mu.Lock()
	c.incon = append(c.incon, reason)
	c.mu.Unlock()
}

// Violation records a violation. class is the classifier output used for
// de-duplication and for known-finding predicates.
func (c *Ctx) Violation(entry, kind, class string, cs any, expected, observed string) {
	sig := c.Prop + "/" + entry + "/" + kind
	if class != "" {
		sig += "/" + class
	}
	if c.OnlySig != "" && c.OnlySig != sig {
		return
	}
	v := &Violation{Property: c.Prop, Entry: entry, Kind: kind, Class: class, Case: cs,
		Expected: clip(expected), Observed: clip(observed), Sig: sig, Tier: c.Tier, Seed: c.Seed, Batch: c.Batch, Batches: c.Batches}
	for _, o := range c.known {
		if pred := c.preds[o.Predicate]; pred != nil && pred(v) {
			v.Known = o.ID
			break
		}
	}
	key := sig
	if v.Known != "" {
		key = sig + "#known:" + v.Known
	}
	c.mu.Lock()
	defer c.mu.Unlock()
	c.sigCount[key]++
	if c.sigCount[key] > maxPerSig {
		return
	}
	v.Case = Jsonable(cs)
	c.viol = append(c.viol, v)
}

func (c *Ctx) ViolationCount() int64 {
	c.mu.Lock()
	defer c.mu.Unlock()
	var n int64
	for _, v := range c.sigCount {
		n += v
	}
	return n
}

func clip(s string) string {
	if len(s) > 1500 {
		return s[:1500] + "…"
	}
	return s
}

// B is a byte string that serialises readably: as text when it is printable
// ASCII, as base64 otherwise.
type B []byte

func (b B) MarshalJSON() ([]byte, error) { return json.Marshal(EncBytes(b)) }

func EncBytes(b []byte) string {
	printable := utf8.Valid(b)
	if printable {
		for _, x := range b {
			if x < 0x20 && x != '\n' && x != '\t' || x == 0x7f {
				printable = false
				break
			}
		}
	}
	if printable && !strings.HasPrefix(string(b), "b64:") {
		return "t:" + string(b)
	}
	return "b64:" + base64.StdEncoding.EncodeToString(b)
}

func DecBytes(s string) []byte {
	if strings.HasPrefix(s, "t:") {
		return []byte(s[2:])
	}
	if strings.HasPrefix(s, "b64:") {
		b, _ := base64.StdEncoding.DecodeString(s[4:])
		return b
	}
	return []byte(s)
}

// Jsonable makes sure a case can be marshalled (falls back to %#v).
func Jsonable(v any) any {
	switch t := v.(type) {
	case []byte:
		return EncBytes(t)
	case nil:
		return nil
	}
	if _, err := json.Marshal(v); err != nil {
		return fmt.Sprintf("%#v", v)
	}
	return v
}

// Finish writes the batch result.
func (c *Ctx) Finish(done bool) {
	c.mu.Lock()
	defer c.mu.Unlock()
	var ru syscall.Rusage
	syscall.Getrusage(syscall.RUSAGE_SELF, &ru)
	cpu := float64(ru.Utime.Sec+ru.Stime.Sec) + float64(ru.Utime.Usec+ru.Stime.Usec)/1e6
	res := BatchResult{Property: c.Prop, Batch: c.Batch, Evals: atomic.LoadInt64(&c.evals), EnumDist: atomic.LoadInt64(&c.enumDist), Cover: c.cover,
		Violations: c.viol, SigCounts: c.sigCount, Samples: c.samples, Max: c.maxv, Notes: c.notes, Incon: c.incon, CPUSec: cpu, Done: done}
	b, err := json.Marshal(res)
	if err != nil {
		b, _ = json.Marshal(BatchResult{Property: c.Prop, Batch: c.Batch, Incon: []string{"result not serialisable: " + err.Error()}})
	}
	os.WriteFile(c.OutPath, b, 0o644)
	// digests of random non-trivial cases
	hb := make([]byte, 0, 8*len(c.hashes))
	keys := make([]uint64, 0, len(c.hashes))
	for h := range c.hashes {
		keys = append(keys, h)
	}
	sort.Slice(keys, func(i, j int) bool { return keys[i] < keys[j] })
	for _, h := range keys {
		for i := 0; i < 8; i++ {
			hb = append(hb, byte(h>>(8*i)))
		}
	}
	os.WriteFile(c.OutPath+".hashes", hb, 0o644)
}

// Watchdog aborts the process when the workload makes no progress although it
// keeps burning CPU: limit CPU-seconds consumed without Begin being called.
// The current intent is reported as a non-termination violation candidate.
func (c *Ctx) Watchdog(limitCPU float64) {
	go func() {
		// progress is a call that began (Begin) or one that returned (Eval): in a concurrent workload the
		// calls of many goroutines return all the time while only few Begin records are written
		last := atomic.LoadInt64(&c.progress) + atomic.LoadInt64(&c.evals)
		lastCPU := cpuNow()
		for {
			time.Sleep(500 * time.Millisecond)
			p := atomic.LoadInt64(&c.progress) + atomic.LoadInt64(&c.evals)
			now := cpuNow()
			if p != last {
				last, lastCPU = p, now
				continue
			}
			if now-lastCPU > limitCPU {
				it, _ := c.cur.Load().(*intent)
				if it == nil {
					it = &intent{"?", nil}
				}
				c.Violation(it.Entry, "no-termination", "", it.Case, fmt.Sprintf("call returns within %.0f CPU-seconds", limitCPU), "still running")
				c.Finish(false)
				os.Exit(3)
			}
		}
	}()
}

func cpuNow() float64 {
	var ru syscall.Rusage
	syscall.Getrusage(syscall.RUSAGE_SELF, &ru)
	return float64(ru.Utime.Sec+ru.Stime.Sec) + float64(ru.Utime.Usec+ru.Stime.Usec)/1e6
}

// Panic describes a recovered panic.
type Panic struct {
	Value any
	Msg   string
	Type  string
	Stack string
}

func (p *Panic) String() string {
	if p == nil {
		return ""
	}
	return fmt.Sprintf("panic(%s): %s", p.Type, p.Msg)
}

// IsError says whether the panic value is an error that is not a runtime.Error.
func (p *Panic) IsPlainError() bool {
	switch p.Value.(type) {
	case error, string:
		// a descriptive string is accepted like an error value (ojg.NewError treats both alike)
		return !IsRuntimeFaultMsg(p.Msg) && !strings.HasPrefix(p.Type, "runtime.") && !strings.HasPrefix(p.Type, "*runtime.")
	}
	return false
}

// Guard runs f and returns a description of the panic that escaped it, if any.
func Guard(f func()) (p *Panic) {
	defer func() {
		if r := recover(); r != nil {
			p = &Panic{Value: r, Type: fmt.Sprintf("%T", r), Stack: string(debug.Stack())}
			switch v := r.(type) {
			case error:
				p.Msg = v.Error()
			default:
				p.Msg = fmt.Sprint(r)
			}
		}
	}()
	f()
	return nil
}

// IsRuntimeFaultMsg classifies an error message as a Go runtime fault that was
// recovered and turned into an error (DESIGN 4.5).
func IsRuntimeFaultMsg(msg string) bool {
	return strings.HasPrefix(msg, "runtime error: ") ||
		strings.HasPrefix(msg, "interface conversion: ") ||
		strings.HasPrefix(msg, "assignment to entry in nil map") ||
		strings.HasPrefix(msg, "reflect: ") || strings.HasPrefix(msg, "reflect.")
}

// FaultClass gives a short stable class for a runtime fault message.
func FaultClass(msg string) string {
	switch {
	case strings.Contains(msg, "index out of range"):
		return "index-out-of-range"
	case strings.Contains(msg, "slice bounds out of range"):
		return "slice-bounds"
	case strings.Contains(msg, "nil pointer dereference"):
		return "nil-deref"
	case strings.Contains(msg, "assignment to entry in nil map"):
		return "nil-map-write"
	case strings.Contains(msg, "interface conversion"):
		return "type-assertion"
	case strings.Contains(msg, "integer divide by zero"):
		return "divide-by-zero"
	case strings.Contains(msg, "comparing uncomparable") || strings.Contains(msg, "hash of unhashable"):
		return "uncomparable"
	case strings.HasPrefix(msg, "reflect"):
		return "reflect"
	}
	return "other"
}

// ShrinkBytes is a bounded delta-debugging pass: it returns a smaller input
// for which fails still holds.
func ShrinkBytes(x []byte, fails func([]byte) bool) []byte {
	budget := 600
	cur := append([]byte{}, x...)
	for chunk := len(cur) / 2; chunk >= 1; {
		changed := false
		for i := 0; i+chunk <= len(cur) && budget > 0; {
			cand := append(append([]byte{}, cur[:i]...), cur[i+chunk:]...)
			budget--
			if fails(cand) {
				cur = cand
				changed = true
			} else {
				i += chunk
			}
		}
		if budget <= 0 {
			break
		}
		if !changed || chunk > len(cur) {
			chunk /= 2
		}
		if chunk > len(cur)/2 && chunk > 1 {
			chunk = len(cur) / 2
		}
	}
	return cur
}

// PanicOrigin returns the function of the innermost frame of a panic's stack (the frame that raised it),
// skipping the runtime's own frames.
func PanicOrigin(stack string) string {
	lines := strings.Split(stack, "\n")
	seenPanic := false
	for _, l := range lines {
		if strings.HasPrefix(l, "panic(") {
			seenPanic = true
			continue
		}
		if !seenPanic || strings.HasPrefix(l, "\t") || l == "" {
			continue
		}
		if strings.HasPrefix(l, "runtime.") || strings.HasPrefix(l, "reflect.") || strings.HasPrefix(l, "internal/") || strings.HasPrefix(l, "strconv.") || strings.HasPrefix(l, "sort.") {
			continue
		}
		return l
	}
	return ""
}

// EscapedPanic records a panic that reached the top of the batch as a violation when it was raised inside
// ojg code (a call the property's workload did not guard by itself): entry and case are the last intent.
func (c *Ctx) EscapedPanic(pn *Panic) bool {
	origin := PanicOrigin(pn.Stack)
	if !strings.HasPrefix(origin, "github.com/ohler55/ojg/") {
		return false
	}
	entry, cs := "unknown entry", any(nil)
	if it, _ := c.cur.Load().(*intent); it != nil {
		entry, cs = it.Entry, it.Case
	}
	c.Violation(entry, "panic-escaped", FaultClass(pn.Msg), cs, "a result or an error", pn.String())
	return true
}
