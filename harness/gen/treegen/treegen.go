// Package treegen generates trees of simple values (nil, bool, int64,
// float64, string, []any, map[string]any) with boundary-heavy leaves.
package treegen

import (
	"fmt"
	"math"
	"math/rand"
	"sort"
	"strings"
)

// Cfg controls tree generation.
type Cfg struct {
	MaxDepth int
	MaxWidth int
	Strings  func(r *rand.Rand) string // nil = DefaultString
	Keys     func(r *rand.Rand) string // nil = short identifier-like keys
	NoNil    bool
	NoFloat  bool
	Unique   bool // every leaf a distinct tagged value (ints counting up / strings "s<n>")
	n        int
}

var Ints = []int64{0, 1, -1, 2, 7, 10, 42, 100, 255, 256, 65535, 1 << 31, -(1 << 31), 1<<53 + 1, -(1<<53 + 1), math.MaxInt64, math.MinInt64, math.MaxInt64 - 1, 999999999999, 1234567890123456789}

var Floats = []float64{0, 1.5, -1.5, 0.1, 1e-7, 1e21, 1e20, 123456789.125, math.MaxFloat64, math.SmallestNonzeroFloat64, -math.MaxFloat64, 3.0, 1e15, 1e16, 1e17, 2.5e-300, 5e-324, 0.000001, 0.0000001, 1e6, 100.0, math.Copysign(0, -1), 1.7976931348623157e308, 2.2250738585072014e-308, 9007199254740993, 0.3, 1.0 / 3}

var Strs = []string{"", "a", "abc", "hello world", "true", "false", "null", "123", "-1", "1.5", "1e5", "+", "-", "a b", "a,b", "a:b", "[x]", "{x}", "\"q\"", "'s'", "back\\slash", "tab\there", "nl\nhere", "\x00", "\x1f", "\x7f",
	"<html>&amp;</html>", "é", "日本語", "😀", " ", " ", "\xff", "\xc3", "\xe2\x82", "a\xffb", "// c", "/* c */", "#", "$", "@", "*", "~", "a.b", "x[0]", "🙂🙃", strings.Repeat("x", 33), strings.Repeat("long ", 20), "\r\n", "\b\f", "é́", "\ufeff", "k", "key", "0", "00", "0x10", "1e", "e1", "nul", "tru", "NaN", "Infinity", "-Infinity", "`", "|", "a|b", "a`b", "(", ")", "f(x)", "%", "^", "&", "=", "<", ">", "!", "?", ";"}

func DefaultString(r *rand.Rand) string {
	switch r.Intn(5) {
	case 0, 1:
		return Strs[r.Intn(len(Strs))]
	case 2:
		n := r.Intn(6)
		b := make([]byte, n)
		for i := range b {
			b[i] = byte(0x20 + r.Intn(0x5f))
		}
		return string(b)
	case 3:
		n := r.Intn(4)
		b := make([]byte, n)
		for i := range b {
			b[i] = byte(r.Intn(256))
		}
		return string(b)
	default:
		return Strs[r.Intn(len(Strs))] + Strs[r.Intn(len(Strs))]
	}
}

var keyPool = []string{"a", "b", "c", "k", "x", "y", "id", "name", "val", "key"}

func defaultKey(r *rand.Rand) string { return keyPool[r.Intn(len(keyPool))] }

// Leaf returns a random scalar.
func (c *Cfg) Leaf(r *rand.Rand) any {
	if c.Unique {
		c.n++
		switch r.Intn(3) {
		case 0:
			return int64(1000 + c.n)
		case 1:
			return fmt.Sprintf("s%d", c.n)
		default:
			return float64(c.n) + 0.5
		}
	}
	for {
		switch r.Intn(8) {
		case 0:
			if c.NoNil {
				continue
			}
			return nil
		case 1:
			return r.Intn(2) == 0
		case 2:
			return Ints[r.Intn(len(Ints))]
		case 3:
			return r.Int63n(2000) - 1000
		case 4:
			if c.NoFloat {
				continue
			}
			return Floats[r.Intn(len(Floats))]
		case 5:
			if c.NoFloat {
				continue
			}
			f := math.Float64frombits(r.Uint64())
			if math.IsNaN(f) || math.IsInf(f, 0) {
				continue
			}
			return f
		default:
			if c.Strings != nil {
				return c.Strings(r)
			}
			return DefaultString(r)
		}
	}
}

// Tree returns a random tree.
func (c *Cfg) Tree(r *rand.Rand) any { return c.tree(r, 0) }

func (c *Cfg) tree(r *rand.Rand, depth int) any {
	k := r.Intn(10)
	if depth >= c.MaxDepth {
		k = 0
	}
	if depth == 0 && k < 4 {
		k = 4 + r.Intn(6) // mostly containers at the top
	}
	switch {
	case k < 5:
		return c.Leaf(r)
	case k < 7:
		n := r.Intn(c.MaxWidth + 1)
		a := make([]any, n)
		for i := range a {
			a[i] = c.tree(r, depth+1)
		}
		return a
	default:
		n := r.Intn(c.MaxWidth + 1)
		m := make(map[string]any, n)
		for i := 0; i < n; i++ {
			var key string
			if c.Keys != nil {
				key = c.Keys(r)
			} else {
				key = defaultKey(r)
			}
			m[key] = c.tree(r, depth+1)
		}
		return m
	}
}

// Dup deep-copies a simple tree.
func Dup(v any) any {
	switch t := v.(type) {
	case []any:
		a := make([]any, len(t))
		for i, e := range t {
			a[i] = Dup(e)
		}
		return a
	case map[string]any:
		m := make(map[string]any, len(t))
		for k, e := range t {
			m[k] = Dup(e)
		}
		return m
	}
	return v
}

// Equal compares two simple trees exactly (int64 vs float64 distinguished,
// floats by ==, NaN never generated).
func Equal(a, b any) bool {
	switch ta := a.(type) {
	case []any:
		tb, ok := b.([]any)
		if !ok || len(ta) != len(tb) {
			return false
		}
		for i := range ta {
			if !Equal(ta[i], tb[i]) {
				return false
			}
		}
		return true
	case map[string]any:
		tb, ok := b.(map[string]any)
		if !ok || len(ta) != len(tb) {
			return false
		}
		for k, v := range ta {
			w, has := tb[k]
			if !has || !Equal(v, w) {
				return false
			}
		}
		return true
	case float64:
		tb, ok := b.(float64)
		return ok && ta == tb
	}
	return a == b
}

// Show renders a simple tree deterministically, depth guarded (harness-side
// serialiser; does not use ojg).
func Show(v any) string {
	var sb strings.Builder
	show(&sb, v, 0)
	return sb.String()
}

func show(sb *strings.Builder, v any, depth int) {
	if depth > 60 {
		sb.WriteString("<deep-or-cyclic>")
		return
	}
	switch t := v.(type) {
	case nil:
		sb.WriteString("null")
	case []any:
		sb.WriteByte('[')
		for i, e := range t {
			if i > 0 {
				sb.WriteByte(',')
			}
			show(sb, e, depth+1)
		}
		sb.WriteByte(']')
	case map[string]any:
		keys := make([]string, 0, len(t))
		for k := range t {
			keys = append(keys, k)
		}
		sort.Strings(keys)
		sb.WriteByte('{')
		for i, k := range keys {
			if i > 0 {
				sb.WriteByte(',')
			}
			fmt.Fprintf(sb, "%q:", k)
			show(sb, t[k], depth+1)
		}
		sb.WriteByte('}')
	case string:
		fmt.Fprintf(sb, "%q", t)
	case int64:
		fmt.Fprintf(sb, "%d", t)
	case float64:
		fmt.Fprintf(sb, "%sf", fmtFloat(t))
	default:
		fmt.Fprintf(sb, "<%T %v>", v, v)
	}
}

func fmtFloat(f float64) string {
	return strings.TrimSuffix(fmt.Sprintf("%v", f), "")
}

// Mutate returns v with one random sub-tree replaced, removed or re-typed
// (v itself may be modified: pass a copy).
func Mutate(r *rand.Rand, v any, c *Cfg) any {
	switch t := v.(type) {
	case []any:
		if len(t) > 0 && r.Intn(3) != 0 {
			i := r.Intn(len(t))
			switch r.Intn(4) {
			case 0:
				return append(t[:i:i], t[i+1:]...)
			case 1:
				return append(t, c.Leaf(r))
			default:
				t[i] = Mutate(r, t[i], c)
				return t
			}
		}
	case map[string]any:
		if len(t) > 0 && r.Intn(3) != 0 {
			keys := make([]string, 0, len(t))
			for k := range t {
				keys = append(keys, k)
			}
			sort.Strings(keys)
			k := keys[r.Intn(len(keys))]
			switch r.Intn(4) {
			case 0:
				delete(t, k)
			case 1:
				t["zz"] = c.Leaf(r)
			default:
				t[k] = Mutate(r, t[k], c)
			}
			return t
		}
	}
	switch r.Intn(4) {
	case 0:
		return []any{v}
	case 1:
		return map[string]any{"a": v}
	case 2:
		cc := *c
		cc.MaxDepth = 2
		return cc.Tree(r)
	}
	return c.Leaf(r)
}

// Table returns table-like data for aligned writers: 2-5 rows that are all objects over the same few
// keys or all lists, some cells missing, and the cells of one column of mixed kinds (a leaf in one row, a
// small list or a small object in another).
func (c *Cfg) Table(r *rand.Rand) any {
	cell := func() any {
		switch r.Intn(6) {
		case 0:
			l := make([]any, 1+r.Intn(3))
			for i := range l {
				l[i] = c.Leaf(r)
			}
			return l
		case 1:
			m := map[string]any{}
			for _, k := range []string{"x", "yy", "z"}[:1+r.Intn(3)] {
				m[k] = c.Leaf(r)
			}
			return m
		case 2:
			return []any{}
		default:
			return c.Leaf(r)
		}
	}
	rows := []any{}
	cols := []string{"a", "bb", "ccc", "d"}
	asLists := r.Intn(2) == 0
	n := 2 + r.Intn(4)
	for k := 0; k < n; k++ {
		if asLists {
			row := make([]any, r.Intn(len(cols)+1))
			for i := range row {
				row[i] = cell()
			}
			rows = append(rows, row)
		} else {
			row := map[string]any{}
			for _, col := range cols {
				if r.Intn(4) != 0 {
					row[col] = cell()
				}
			}
			rows = append(rows, row)
		}
	}
	return rows
}
