package jsongen

import (
	"errors"
	"fmt"
	"io"
)

// Plan describes how a byte string is delivered through io.Reader.
type Plan struct {
	Name        string
	Sizes       []int // successive chunk sizes, cycled; empty = whole
	EOFWithData bool  // last Read returns (n>0, io.EOF)
	ErrAt       int   // >= 0: inject ErrInjected once that many bytes were delivered
}

var ErrInjected = errors.New("injected read error")

func (p Plan) String() string { return p.Name }

// Whole delivers as much as the caller's buffer takes.
var Whole = Plan{Name: "whole", ErrAt: -1}

// Fixed delivers k bytes per Read.
func Fixed(k int) Plan { return Plan{Name: fmt.Sprintf("fixed%d", k), Sizes: []int{k}, ErrAt: -1} }

// Split delivers x[:at] then the rest.
func Split(at int) Plan {
	if at <= 0 {
		return Plan{Name: "split@0", ErrAt: -1}
	}
	return Plan{Name: fmt.Sprintf("split@%d", at), Sizes: []int{at, 1 << 30}, ErrAt: -1}
}

// Reader returns a fresh reader for data under the plan.
func (p Plan) Reader(data []byte) io.Reader {
	return &chunkReader{data: data, plan: p}
}

type chunkReader struct {
	data []byte
	plan Plan
	off  int
	n    int
}

func (r *chunkReader) Read(b []byte) (int, error) {
	if r.plan.ErrAt >= 0 && r.off >= r.plan.ErrAt {
		return 0, ErrInjected
	}
	if r.off >= len(r.data) {
		return 0, io.EOF
	}
	k := len(b)
	if len(r.plan.Sizes) > 0 {
		s := r.plan.Sizes[r.n%len(r.plan.Sizes)]
		if r.n >= len(r.plan.Sizes) && len(r.plan.Sizes) > 1 {
			s = r.plan.Sizes[len(r.plan.Sizes)-1]
		}
		if s < k {
			k = s
		}
	}
	if k > len(r.data)-r.off {
		k = len(r.data) - r.off
	}
	if r.plan.ErrAt >= 0 && r.off+k > r.plan.ErrAt {
		k = r.plan.ErrAt - r.off
	}
	copy(b, r.data[r.off:r.off+k])
	r.off += k
	r.n++
	if r.plan.EOFWithData && r.off >= len(r.data) {
		return k, io.EOF
	}
	return k, nil
}
