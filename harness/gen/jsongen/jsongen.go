// Package jsongen holds the seeded generators for JSON text, byte
// enumerations, mutants, number literals and chunk plans.
package jsongen

import (
	"fmt"
	"math/rand"
	"strconv"
	"strings"
)

// A39 is the JSON-significant alphabet of DESIGN section 5.
var A39 = []byte("{}[]:,\"\\/-+.019eEtrufalsnbx \n\t\r\x00\x1f\x7f\x80\xEF\xBB\xBF\xFF")

// ASen adds the SEN-significant bytes.
var ASen = append(append([]byte{}, A39...), []byte("'()*~^_$@<>=?!#%&;|`")...)

// Enum calls f with every string over alpha of length exactly n whose first
// min(n,2) symbols have prefix index p with mine(p) true. The slice passed to
// f is reused.
func Enum(alpha []byte, n int, mine func(int) bool, f func([]byte)) {
	buf := make([]byte, n)
	if n == 0 {
		if mine(0) {
			f(buf)
		}
		return
	}
	var rec func(i int)
	rec = func(i int) {
		if i == n {
			f(buf)
			return
		}
		for _, b := range alpha {
			buf[i] = b
			rec(i + 1)
		}
	}
	if n == 1 {
		for i, b := range alpha {
			if mine(i) {
				buf[0] = b
				f(buf)
			}
		}
		return
	}
	for i, a := range alpha {
		for j, b := range alpha {
			if !mine(i*len(alpha) + j) {
				continue
			}
			buf[0], buf[1] = a, b
			rec(2)
		}
	}
}

// Style controls the text generator.
type Style struct {
	MaxDepth int
	MaxWidth int
	WS       int // 0 none, 1 random, 2 newline-heavy
	DupKeys  bool
	Escapes  float64 // probability that a string character is written as an escape
	HiBytes  bool    // raw bytes >= 0x80 in strings (valid and invalid UTF-8)
	Surr     bool    // surrogate pair escapes
	BigNums  bool
}

type G struct {
	R  *rand.Rand
	St Style
	sb strings.Builder
}

func New(r *rand.Rand, st Style) *G { return &G{R: r, St: st} }

// Text generates one valid JSON text.
func (g *G) Text() string {
	g.sb.Reset()
	g.ws()
	g.value(0)
	g.ws()
	return g.sb.String()
}

func (g *G) ws() {
	switch g.St.WS {
	case 1:
		for g.R.Intn(3) == 0 {
			g.sb.WriteByte(" \t\n\r"[g.R.Intn(4)])
		}
	case 2:
		for g.R.Intn(2) == 0 {
			g.sb.WriteByte(" \n\n\t"[g.R.Intn(4)])
		}
	}
}

func (g *G) value(depth int) {
	k := g.R.Intn(10)
	if depth >= g.St.MaxDepth && k >= 6 {
		k = g.R.Intn(6)
	}
	switch k {
	case 0:
		g.sb.WriteString("null")
	case 1:
		g.sb.WriteString("true")
	case 2:
		g.sb.WriteString("false")
	case 3, 4:
		g.sb.WriteString(g.Number())
	case 5:
		g.String()
	case 6, 7:
		g.sb.WriteByte('[')
		n := g.R.Intn(g.St.MaxWidth + 1)
		for i := 0; i < n; i++ {
			if i > 0 {
				g.sb.WriteByte(',')
			}
			g.ws()
			g.value(depth + 1)
			g.ws()
		}
		if n == 0 {
			g.ws()
		}
		g.sb.WriteByte(']')
	default:
		g.sb.WriteByte('{')
		n := g.R.Intn(g.St.MaxWidth + 1)
		for i := 0; i < n; i++ {
			if i > 0 {
				g.sb.WriteByte(',')
			}
			g.ws()
			if g.St.DupKeys && g.R.Intn(3) == 0 {
				g.sb.WriteString(`"k"`)
			} else if g.R.Intn(2) == 0 {
				fmt.Fprintf(&g.sb, `"k%d"`, g.R.Intn(4))
			} else {
				g.String()
			}
			g.ws()
			g.sb.WriteByte(':')
			g.ws()
			g.value(depth + 1)
			g.ws()
		}
		if n == 0 {
			g.ws()
		}
		g.sb.WriteByte('}')
	}
}

var simpleEsc = []string{`\"`, `\\`, `\/`, `\b`, `\f`, `\n`, `\r`, `\t`}

// String writes a JSON string token.
func (g *G) String() {
	g.sb.WriteByte('"')
	n := g.R.Intn(8)
	if g.R.Intn(20) == 0 {
		n = 28 + g.R.Intn(40)
	}
	for i := 0; i < n; i++ {
		switch {
		case g.R.Float64() < g.St.Escapes:
			switch g.R.Intn(4) {
			case 0:
				g.sb.WriteString(simpleEsc[g.R.Intn(len(simpleEsc))])
			case 1:
				fmt.Fprintf(&g.sb, `\u%04x`, g.R.Intn(0x10000))
			case 2:
				fmt.Fprintf(&g.sb, `\u%04X`, g.R.Intn(0x100))
			default:
				if g.St.Surr {
					fmt.Fprintf(&g.sb, `\u%04x\u%04x`, 0xD800+g.R.Intn(0x400), 0xDC00+g.R.Intn(0x400))
				} else {
					g.sb.WriteString(`é`)
				}
			}
		case g.St.HiBytes && g.R.Intn(8) == 0:
			switch g.R.Intn(3) {
			case 0:
				g.sb.WriteString("é")
			case 1:
				g.sb.WriteString("日本")
			default:
				g.sb.WriteByte(byte(0x80 + g.R.Intn(0x80)))
			}
		default:
			c := byte(0x20 + g.R.Intn(0x5f))
			if c == '"' || c == '\\' {
				c = 'a'
			}
			g.sb.WriteByte(c)
		}
	}
	g.sb.WriteByte('"')
}

// Number returns a random valid JSON number literal.
func (g *G) Number() string {
	var sb strings.Builder
	if g.R.Intn(3) == 0 {
		sb.WriteByte('-')
	}
	switch g.R.Intn(6) {
	case 0:
		sb.WriteByte('0')
	case 1:
		sb.WriteString(strconv.Itoa(g.R.Intn(10)))
	case 2:
		sb.WriteString(strconv.FormatInt(g.R.Int63(), 10))
	case 3:
		if g.St.BigNums {
			sb.WriteString("9223372036854775807"[:17+g.R.Intn(3)])
			sb.WriteString(strconv.Itoa(g.R.Intn(1000)))
		} else {
			sb.WriteString(strconv.Itoa(1 + g.R.Intn(100000)))
		}
	default:
		sb.WriteString(strconv.Itoa(1 + g.R.Intn(1000)))
	}
	if g.R.Intn(3) == 0 {
		sb.WriteByte('.')
		n := 1 + g.R.Intn(4)
		if g.St.BigNums && g.R.Intn(4) == 0 {
			n = 15 + g.R.Intn(10)
		}
		for i := 0; i < n; i++ {
			sb.WriteByte(byte('0' + g.R.Intn(10)))
		}
	}
	if g.R.Intn(4) == 0 {
		sb.WriteByte("eE"[g.R.Intn(2)])
		switch g.R.Intn(3) {
		case 0:
			sb.WriteByte('+')
		case 1:
			sb.WriteByte('-')
		}
		sb.WriteString(strconv.Itoa(g.R.Intn(30)))
	}
	return sb.String()
}

var mutBytes = []byte("{}[]:,\"\\-+.01eEtfn \n\x00\x7f\xe9u/'")

// Mutate applies 1-3 random edits to x.
func Mutate(r *rand.Rand, x []byte, other []byte) []byte {
	y := append([]byte{}, x...)
	n := 1 + r.Intn(3)
	for e := 0; e < n; e++ {
		if len(y) == 0 {
			y = append(y, mutBytes[r.Intn(len(mutBytes))])
			continue
		}
		i := r.Intn(len(y))
		switch r.Intn(8) {
		case 0: // delete
			y = append(y[:i], y[i+1:]...)
		case 1: // insert
			y = append(y[:i], append([]byte{mutBytes[r.Intn(len(mutBytes))]}, y[i:]...)...)
		case 2: // replace
			y[i] = mutBytes[r.Intn(len(mutBytes))]
		case 3: // duplicate
			y = append(y[:i], append([]byte{y[i]}, y[i:]...)...)
		case 4: // swap
			j := r.Intn(len(y))
			y[i], y[j] = y[j], y[i]
		case 5: // truncate
			y = y[:i]
		case 6: // splice
			if len(other) > 0 {
				j := r.Intn(len(other))
				y = append(append([]byte{}, y[:i]...), other[j:]...)
			}
		default: // delete a run
			j := i + r.Intn(4)
			if j > len(y) {
				j = len(y)
			}
			y = append(y[:i], y[j:]...)
		}
	}
	return y
}
