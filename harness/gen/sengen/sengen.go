// Package sengen renders simple trees as SEN text with randomly chosen
// syntax features (bare tokens, optional commas, comments, single quotes,
// string concatenation, token functions), and records which were used.
package sengen

import (
	"fmt"
	"math/rand"
	"sort"
	"strconv"
	"strings"
)

// Features records the SEN-only syntax used in a text.
type Features struct {
	Bare, NoComma, LineComment, BlockComment, SingleQuote, Plus, Func bool
}

func (f Features) List() []string {
	var out []string
	for _, p := range []struct {
		b bool
		n string
	}{{f.Bare, "bare"}, {f.NoComma, "nocomma"}, {f.LineComment, "linecomment"}, {f.BlockComment, "blockcomment"}, {f.SingleQuote, "singlequote"}, {f.Plus, "plus"}, {f.Func, "func"}} {
		if p.b {
			out = append(out, p.n)
		}
	}
	return out
}

type G struct {
	R     *rand.Rand
	F     Features
	Allow Features // which features may be used
	sb    strings.Builder
}

// Text renders v (a tree whose strings are plain ASCII words or arbitrary
// text) as SEN. Strings are quoted unless they are simple identifiers.
func (g *G) Text(v any) string {
	g.sb.Reset()
	g.F = Features{}
	g.value(v)
	return g.sb.String()
}

func (g *G) sep() {
	if g.Allow.NoComma && g.R.Intn(2) == 0 {
		g.F.NoComma = true
		g.sb.WriteByte(' ')
	} else {
		g.sb.WriteString(", ")
	}
	switch g.R.Intn(12) {
	case 0:
		if g.Allow.LineComment {
			g.F.LineComment = true
			g.sb.WriteString("// note\n")
		}
	case 1:
		if g.Allow.BlockComment {
			g.F.BlockComment = true
			g.sb.WriteString("/* note */ ")
		}
	case 2:
		g.sb.WriteByte('\n')
	}
}

func isIdent(s string) bool {
	if s == "" || s == "true" || s == "false" || s == "null" {
		return false
	}
	for i := 0; i < len(s); i++ {
		c := s[i]
		if !(c >= 'a' && c <= 'z' || c >= 'A' && c <= 'Z' || c == '_' || i > 0 && c >= '0' && c <= '9') {
			return false
		}
	}
	return true
}

func (g *G) str(s string) {
	if g.Allow.Bare && isIdent(s) && g.R.Intn(3) != 0 {
		g.F.Bare = true
		g.sb.WriteString(s)
		return
	}
	if g.Allow.Plus && len(s) >= 2 && g.R.Intn(5) == 0 {
		g.F.Plus = true
		k := 1 + g.R.Intn(len(s)-1)
		g.quoted(s[:k])
		g.sb.WriteString(" + ")
		g.quoted(s[k:])
		return
	}
	g.quoted(s)
}

func (g *G) quoted(s string) {
	q := byte('"')
	if g.Allow.SingleQuote && g.R.Intn(3) == 0 {
		g.F.SingleQuote = true
		q = '\''
	}
	g.sb.WriteByte(q)
	for i := 0; i < len(s); i++ {
		c := s[i]
		switch {
		case c == q || c == '\\':
			g.sb.WriteByte('\\')
			g.sb.WriteByte(c)
		case c == '\n':
			g.sb.WriteString(`\n`)
		case c == '\t':
			g.sb.WriteString(`\t`)
		case c < 0x20 || c == 0x7f:
			fmt.Fprintf(&g.sb, `\u%04x`, c)
		default:
			g.sb.WriteByte(c)
		}
	}
	g.sb.WriteByte(q)
}

func (g *G) value(v any) {
	switch t := v.(type) {
	case nil:
		g.sb.WriteString("null")
	case bool:
		g.sb.WriteString(strconv.FormatBool(t))
	case int64:
		g.sb.WriteString(strconv.FormatInt(t, 10))
	case float64:
		s := strconv.FormatFloat(t, 'g', -1, 64)
		if !strings.ContainsAny(s, ".e") {
			s += ".0"
		}
		g.sb.WriteString(s)
	case string:
		g.str(t)
	case []any:
		g.sb.WriteByte('[')
		for i, e := range t {
			if i > 0 {
				g.sep()
			}
			g.value(e)
		}
		g.sb.WriteByte(']')
	case map[string]any:
		keys := make([]string, 0, len(t))
		for k := range t {
			keys = append(keys, k)
		}
		sort.Strings(keys)
		g.sb.WriteByte('{')
		for i, k := range keys {
			if i > 0 {
				g.sep()
			}
			if g.Allow.Bare && isIdent(k) && g.R.Intn(3) != 0 {
				g.F.Bare = true
				g.sb.WriteString(k)
			} else {
				g.quoted(k)
			}
			g.sb.WriteByte(':')
			if g.R.Intn(3) == 0 {
				g.sb.WriteByte(' ')
			}
			g.value(t[k])
		}
		g.sb.WriteByte('}')
	}
}
