package jsonref

// Package jsonref holds the reference models R (RFC 8259 push-down
// recogniser) and D (decoder with exact numbers), written from the RFC and the
// property statements, independent of ojg's implementation.
//
// R is a byte-at-a-time PDA for RFC 8259 with exactly the deviations of C01:
// optional BOM, bytes >= 0x80 unvalidated inside strings, control bytes < 0x20
// rejected inside strings, empty/whitespace-only input is 'no document'.
type State int

const (
	sValue State = iota
	sArrFirst
	sObjFirst
	sKey
	sColon
	sAfter
	sStr
	sEsc
	sU0
	sU1
	sU2
	sU3
	sNeg
	sZero
	sInt
	sDot
	sFrac
	sE
	sESign
	sExp
	sLit
	sDone
	sStart
	sDead
)

var stateNames = [...]string{"value", "arr-first", "obj-first", "key", "colon", "after", "str", "esc", "u0", "u1", "u2", "u3",
	"neg", "zero", "int", "dot", "frac", "e", "esign", "exp", "lit", "done", "start", "dead"}

func (s State) String() string { return stateNames[s] }

// NumStates is the number of live grammar states.
const NumStates = int(sDead)

// Dead reports whether the automaton has rejected.
func (p *PDA) Dead() bool { return p.St == sDead }

// Context describes the container context: "top", "arr", "obj".
func (p *PDA) Context() string {
	if len(p.Stack) == 0 {
		return "top"
	}
	if p.Stack[len(p.Stack)-1] == '[' {
		return "arr"
	}
	return "obj"
}

// ByteClass maps a byte to a coarse class used in coverage and signatures.
func ByteClass(b byte) string {
	switch {
	case b == ' ' || b == '\t' || b == '\n' || b == '\r':
		return "ws"
	case b == '0':
		return "0"
	case '1' <= b && b <= '9':
		return "1-9"
	case b == 'e' || b == 'E':
		return "e"
	case b == '"' || b == '\\' || b == '/' || b == '{' || b == '}' || b == '[' || b == ']' || b == ':' || b == ',' || b == '-' || b == '+' || b == '.':
		return string(b)
	case 'a' <= b && b <= 'z' || 'A' <= b && b <= 'Z':
		return "alpha"
	case b < 0x20:
		return "ctl"
	case b >= 0x80:
		return "hi"
	}
	return "other"
}

type PDA struct {
	St    State
	Stack []byte
	isKey bool
	lit   string
	li    int
	Multi bool
	Docs  int
}

func isWS(b byte) bool { return b == ' ' || b == '\t' || b == '\n' || b == '\r' }

func New() *PDA { return &PDA{St: sStart} }

func (p *PDA) afterValue() {
	if len(p.Stack) == 0 {
		p.Docs++
		if p.Multi {
			p.St = sStart
		} else {
			p.St = sDone
		}
	} else {
		p.St = sAfter
	}
}

func (p *PDA) endNumber(b byte) {
	p.afterValue()
	p.Step(b)
}

func (p *PDA) startValue(b byte) bool {
	switch {
	case b == '{':
		p.Stack = append(p.Stack, '{')
		p.St = sObjFirst
	case b == '[':
		p.Stack = append(p.Stack, '[')
		p.St = sArrFirst
	case b == '"':
		p.St = sStr
		p.isKey = false
	case b == '-':
		p.St = sNeg
	case b == '0':
		p.St = sZero
	case '1' <= b && b <= '9':
		p.St = sInt
	case b == 't':
		p.St, p.lit, p.li = sLit, "true", 1
	case b == 'f':
		p.St, p.lit, p.li = sLit, "false", 1
	case b == 'n':
		p.St, p.lit, p.li = sLit, "null", 1
	default:
		return false
	}
	return true
}

func (p *PDA) Step(b byte) {
	if p.St == sDead {
		return
	}
	ok := true
	switch p.St {
	case sStart, sValue:
		if isWS(b) {
			break
		}
		ok = p.startValue(b)
	case sArrFirst:
		if isWS(b) {
			break
		}
		if b == ']' {
			p.Stack = p.Stack[:len(p.Stack)-1]
			p.afterValue()
			break
		}
		ok = p.startValue(b)
	case sObjFirst:
		if isWS(b) {
			break
		}
		switch b {
		case '}':
			p.Stack = p.Stack[:len(p.Stack)-1]
			p.afterValue()
		case '"':
			p.St = sStr
			p.isKey = true
		default:
			ok = false
		}
	case sKey:
		if isWS(b) {
			break
		}
		if b == '"' {
			p.St = sStr
			p.isKey = true
		} else {
			ok = false
		}
	case sColon:
		if isWS(b) {
			break
		}
		if b == ':' {
			p.St = sValue
		} else {
			ok = false
		}
	case sAfter:
		if isWS(b) {
			break
		}
		top := p.Stack[len(p.Stack)-1]
		switch {
		case b == ',' && top == '[':
			p.St = sValue
		case b == ',' && top == '{':
			p.St = sKey
		case b == ']' && top == '[', b == '}' && top == '{':
			p.Stack = p.Stack[:len(p.Stack)-1]
			p.afterValue()
		default:
			ok = false
		}
	case sStr:
		switch {
		case b == '"':
			if p.isKey {
				p.St = sColon
			} else {
				p.afterValue()
			}
		case b == '\\':
			p.St = sEsc
		case b < 0x20:
			ok = false
		}
	case sEsc:
		switch b {
		case '"', '\\', '/', 'b', 'f', 'n', 'r', 't':
			p.St = sStr
		case 'u':
			p.St = sU0
		default:
			ok = false
		}
	case sU0, sU1, sU2, sU3:
		if ('0' <= b && b <= '9') || ('a' <= b && b <= 'f') || ('A' <= b && b <= 'F') {
			if p.St == sU3 {
				p.St = sStr
			} else {
				p.St++
			}
		} else {
			ok = false
		}
	case sNeg:
		switch {
		case b == '0':
			p.St = sZero
		case '1' <= b && b <= '9':
			p.St = sInt
		default:
			ok = false
		}
	case sZero:
		switch {
		case b == '.':
			p.St = sDot
		case b == 'e' || b == 'E':
			p.St = sE
		default:
			p.endNumber(b)
			return
		}
	case sInt:
		switch {
		case '0' <= b && b <= '9':
		case b == '.':
			p.St = sDot
		case b == 'e' || b == 'E':
			p.St = sE
		default:
			p.endNumber(b)
			return
		}
	case sDot:
		if '0' <= b && b <= '9' {
			p.St = sFrac
		} else {
			ok = false
		}
	case sFrac:
		switch {
		case '0' <= b && b <= '9':
		case b == 'e' || b == 'E':
			p.St = sE
		default:
			p.endNumber(b)
			return
		}
	case sE:
		switch {
		case b == '+' || b == '-':
			p.St = sESign
		case '0' <= b && b <= '9':
			p.St = sExp
		default:
			ok = false
		}
	case sESign:
		if '0' <= b && b <= '9' {
			p.St = sExp
		} else {
			ok = false
		}
	case sExp:
		if '0' <= b && b <= '9' {
			break
		}
		p.endNumber(b)
		return
	case sLit:
		if p.lit[p.li] == b {
			p.li++
			if p.li == len(p.lit) {
				p.afterValue()
			}
		} else {
			ok = false
		}
	case sDone:
		if !isWS(b) {
			ok = false
		}
	}
	if !ok {
		p.St = sDead
	}
}

// Finish returns verdict: 0 invalid, 1 valid, 2 empty
func (p *PDA) Finish() int {
	switch p.St {
	case sDead:
		return 0
	case sStart:
		if p.Docs == 0 {
			return 2
		}
		return 1
	case sDone:
		return 1
	case sZero, sInt, sFrac, sExp:
		if len(p.Stack) == 0 {
			return 1
		}
	}
	return 0
}

// Check returns verdict and, for invalid input, the offset of the first
// offending byte (len(x) if the input is only incomplete).
func Check(x []byte) (verdict int, k int) {
	p := New()
	skip := 0
	if len(x) >= 3 && x[0] == 0xEF && x[1] == 0xBB && x[2] == 0xBF {
		skip = 3
	}
	for i, b := range x[skip:] {
		p.Step(b)
		if p.St == sDead {
			return 0, i + skip
		}
	}
	return p.Finish(), len(x)
}

// Trace runs R over x and reports, besides Check's results, the state and
// context R was in before the offending byte (or at the end).
func Trace(x []byte) (verdict, k int, st State, ctx string, depth int) {
	p := New()
	skip := 0
	if len(x) >= 3 && x[0] == 0xEF && x[1] == 0xBB && x[2] == 0xBF {
		skip = 3
	}
	for i, b := range x[skip:] {
		pst, pctx, pd := p.St, p.Context(), len(p.Stack)
		p.Step(b)
		if p.St == sDead {
			return 0, i + skip, pst, pctx, pd
		}
	}
	return p.Finish(), len(x), p.St, p.Context(), len(p.Stack)
}

// Docs splits a multi-document stream into top-level value spans. ok is false
// when the stream is not a sequence of valid JSON texts. Numbers are ended by
// any non-number byte, so "1 2" is two documents and "12" is one.
func Docs(x []byte) (spans [][2]int, ok bool) {
	p := New()
	p.Multi = true
	skip := 0
	if len(x) >= 3 && x[0] == 0xEF && x[1] == 0xBB && x[2] == 0xBF {
		skip = 3
	}
	start := -1
	for i := skip; i < len(x); i++ {
		b := x[i]
		before := p.Docs
		wasStart := p.St == sStart
		p.Step(b)
		if p.St == sDead {
			return nil, false
		}
		if p.Docs > before {
			// a value ended: either at this byte (closing bracket, quote, literal end)
			// or just before it (number terminated by this byte)
			end := i + 1
			if start >= 0 && isNumByte(x[start]) {
				end = i
			}
			spans = append(spans, [2]int{start, end})
			start = -1
			if p.St != sStart {
				start = i // number terminator that itself starts the next value
			}
		} else if wasStart && p.St != sStart {
			start = i
		}
	}
	switch p.St {
	case sStart:
	case sZero, sInt, sFrac, sExp:
		if len(p.Stack) != 0 {
			return nil, false
		}
		spans = append(spans, [2]int{start, len(x)})
	default:
		return nil, false
	}
	return spans, true
}

func isNumByte(b byte) bool { return b == '-' || ('0' <= b && b <= '9') }

// StateAt returns R's state and context after consuming x[:off] (BOM skipped).
func StateAt(x []byte, off int) (State, string) {
	p := New()
	skip := 0
	if len(x) >= 3 && x[0] == 0xEF && x[1] == 0xBB && x[2] == 0xBF {
		skip = 3
	}
	for i := skip; i < off && i < len(x); i++ {
		p.Step(x[i])
		if p.St == sDead {
			return sDead, "dead"
		}
	}
	return p.St, p.Context()
}

// Offset converts a 1-based line/column (lines end at '\n', columns count
// bytes) into a byte offset in x; -1 if it does not designate a position in
// x[0..len(x)].
func Offset(x []byte, line, col int) int {
	l, start := 1, 0
	for i, b := range x {
		if l == line {
			break
		}
		if b == '\n' {
			l++
			start = i + 1
		}
	}
	if l != line {
		return -1
	}
	off := start + col - 1
	if off < start || off > len(x) {
		return -1
	}
	return off
}

// LineCol converts a byte offset into 1-based line and column.
func LineCol(x []byte, k int) (line, col int) {
	line = 1
	last := -1
	for i := 0; i < k && i < len(x); i++ {
		if x[i] == '\n' {
			line++
			last = i
		}
	}
	return line, k - last
}
