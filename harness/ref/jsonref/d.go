package jsonref

import (
	"encoding/json"
	"fmt"
	"math"
	"math/big"
	"sort"
	"strconv"
	"strings"
	"unicode/utf8"
)

// Kind of a reference value.
type Kind int

const (
	Null Kind = iota
	Bool
	Num
	Str
	Arr
	Obj
)

// Value is the harness value model D decodes into.
type Value struct {
	K    Kind
	B    bool
	Lit  string // number literal as written
	S    string // decoded string bytes
	A    []*Value
	Keys []string          // member names in order of first appearance
	M    map[string]*Value // last duplicate wins
}

type decoder struct {
	x []byte
	i int
}

// Decode decodes a text that R accepts as exactly one JSON text. It panics on
// malformed input (callers check with R first).
func Decode(x []byte) *Value {
	d := &decoder{x: x}
	if len(x) >= 3 && x[0] == 0xEF && x[1] == 0xBB && x[2] == 0xBF {
		d.i = 3
	}
	d.ws()
	v := d.value()
	d.ws()
	if d.i != len(d.x) {
		panic("jsonref.Decode: trailing bytes")
	}
	return v
}

// DecodeAt decodes the value starting at x[from:to].
func DecodeSpan(x []byte, from, to int) *Value {
	return Decode(x[from:to])
}

func (d *decoder) ws() {
	for d.i < len(d.x) && isWS(d.x[d.i]) {
		d.i++
	}
}

func (d *decoder) value() *Value {
	switch b := d.x[d.i]; {
	case b == '{':
		d.i++
		v := &Value{K: Obj, M: map[string]*Value{}}
		d.ws()
		if d.x[d.i] == '}' {
			d.i++
			return v
		}
		for {
			d.ws()
			k := d.str()
			d.ws()
			if d.x[d.i] != ':' {
				panic("jsonref.Decode: colon")
			}
			d.i++
			d.ws()
			m := d.value()
			if _, has := v.M[k]; !has {
				v.Keys = append(v.Keys, k)
			}
			v.M[k] = m
			d.ws()
			if d.x[d.i] == ',' {
				d.i++
				continue
			}
			if d.x[d.i] == '}' {
				d.i++
				return v
			}
			panic("jsonref.Decode: object")
		}
	case b == '[':
		d.i++
		v := &Value{K: Arr}
		d.ws()
		if d.x[d.i] == ']' {
			d.i++
			return v
		}
		for {
			d.ws()
			v.A = append(v.A, d.value())
			d.ws()
			if d.x[d.i] == ',' {
				d.i++
				continue
			}
			if d.x[d.i] == ']' {
				d.i++
				return v
			}
			panic("jsonref.Decode: array")
		}
	case b == '"':
		return &Value{K: Str, S: d.str()}
	case b == 't':
		d.i += 4
		return &Value{K: Bool, B: true}
	case b == 'f':
		d.i += 5
		return &Value{K: Bool}
	case b == 'n':
		d.i += 4
		return &Value{K: Null}
	default:
		s := d.i
		for d.i < len(d.x) && strings.IndexByte("+-0123456789.eE", d.x[d.i]) >= 0 {
			d.i++
		}
		if s == d.i {
			panic("jsonref.Decode: value")
		}
		return &Value{K: Num, Lit: string(d.x[s:d.i])}
	}
}

func hexv(b byte) rune {
	switch {
	case '0' <= b && b <= '9':
		return rune(b - '0')
	case 'a' <= b && b <= 'f':
		return rune(b-'a') + 10
	default:
		return rune(b-'A') + 10
	}
}

func (d *decoder) u4() rune {
	r := hexv(d.x[d.i])<<12 | hexv(d.x[d.i+1])<<8 | hexv(d.x[d.i+2])<<4 | hexv(d.x[d.i+3])
	d.i += 4
	return r
}

func (d *decoder) str() string {
	d.i++ // opening quote
	var out []byte
	for {
		b := d.x[d.i]
		switch {
		case b == '"':
			d.i++
			return string(out)
		case b == '\\':
			d.i++
			e := d.x[d.i]
			d.i++
			switch e {
			case '"', '\\', '/':
				out = append(out, e)
			case 'b':
				out = append(out, '\b')
			case 'f':
				out = append(out, '\f')
			case 'n':
				out = append(out, '\n')
			case 'r':
				out = append(out, '\r')
			case 't':
				out = append(out, '\t')
			case 'u':
				r := d.u4()
				if 0xD800 <= r && r < 0xDC00 {
					// high surrogate: combines with an immediately following \uDC00-DFFF
					if d.i+6 <= len(d.x) && d.x[d.i] == '\\' && d.x[d.i+1] == 'u' {
						save := d.i
						d.i += 2
						r2 := d.u4()
						if 0xDC00 <= r2 && r2 < 0xE000 {
							r = 0x10000 + (r-0xD800)<<10 + (r2 - 0xDC00)
						} else {
							d.i = save
							r = utf8.RuneError
						}
					} else {
						r = utf8.RuneError
					}
				} else if 0xDC00 <= r && r < 0xE000 {
					r = utf8.RuneError
				}
				var tmp [4]byte
				n := utf8.EncodeRune(tmp[:], r)
				out = append(out, tmp[:n]...)
			}
		default:
			out = append(out, b)
			d.i++
		}
	}
}

// ---- numbers ----

// Dec is a normalised decimal: value = (-1)^Neg * Digits * 10^Exp, Digits has
// no leading or trailing zeros; zero is Digits == "".
type Dec struct {
	Neg    bool
	Digits string
	Exp    int64
	Huge   bool // exponent did not fit (treated as unequal to everything but itself textually)
}

// ParseDec parses a JSON-number-like literal (also accepts a leading '+',
// upper-case E, and forms such as "1." or ".5" that big/strconv print never
// produce but a sloppy encoder might) into a normalised decimal.
func ParseDec(lit string) (Dec, bool) {
	var d Dec
	s := lit
	if s == "" {
		return d, false
	}
	if s[0] == '-' {
		d.Neg = true
		s = s[1:]
	} else if s[0] == '+' {
		s = s[1:]
	}
	mant := s
	var exp int64
	if i := strings.IndexAny(s, "eE"); i >= 0 {
		mant = s[:i]
		es := s[i+1:]
		if es == "" {
			return d, false
		}
		e, err := strconv.ParseInt(es, 10, 64)
		if err != nil {
			// syntactically a number with an enormous exponent?
			ok := true
			for j, c := range es {
				if !(c >= '0' && c <= '9') && !(j == 0 && (c == '+' || c == '-')) {
					ok = false
				}
			}
			if !ok {
				return d, false
			}
			d.Huge = true
		}
		exp = e
	}
	ip, fp := mant, ""
	if i := strings.IndexByte(mant, '.'); i >= 0 {
		ip, fp = mant[:i], mant[i+1:]
	}
	if ip == "" && fp == "" {
		return d, false
	}
	for _, c := range ip + fp {
		if c < '0' || c > '9' {
			return d, false
		}
	}
	digits := ip + fp
	exp -= int64(len(fp))
	digits = strings.TrimLeft(digits, "0")
	t := strings.TrimRight(digits, "0")
	exp += int64(len(digits) - len(t))
	digits = t
	if digits == "" {
		return Dec{}, true // zero (sign dropped: -0 == 0)
	}
	d.Digits, d.Exp = digits, exp
	return d, true
}

func (a Dec) Equal(b Dec) bool {
	if a.Huge || b.Huge {
		return false
	}
	return a.Neg == b.Neg && a.Digits == b.Digits && a.Exp == b.Exp
}

// IsPlainInt says whether the literal is -?(0|[1-9][0-9]*).
func IsPlainInt(lit string) bool {
	s := lit
	if strings.HasPrefix(s, "-") {
		s = s[1:]
	}
	if s == "" || (len(s) > 1 && s[0] == '0') {
		return false
	}
	for _, c := range s {
		if c < '0' || c > '9' {
			return false
		}
	}
	return true
}

// FitsInt64 says whether a plain integer literal fits int64.
func FitsInt64(lit string) (int64, bool) {
	if !IsPlainInt(lit) {
		return 0, false
	}
	v, err := strconv.ParseInt(lit, 10, 64)
	// the statement speaks of a magnitude that fits int64: -9223372036854775808 is exempt
	return v, err == nil && v != math.MinInt64
}

// NumRepr classifies how an implementation represented a number.
type NumRepr int

const (
	ReprInt NumRepr = iota
	ReprFloat
	ReprBig
)

// NumMatches decides whether an implementation's number (int64, float64 or
// big-as-text) denotes the literal under the rules of C02 / DESIGN 4.2.
func NumMatches(lit string, repr NumRepr, i int64, f float64, text string) (bool, string) {
	want, ok := ParseDec(lit)
	if !ok {
		return false, "reference could not parse literal " + lit
	}
	switch repr {
	case ReprInt:
		got, _ := ParseDec(strconv.FormatInt(i, 10))
		if !want.Equal(got) {
			return false, fmt.Sprintf("int64 %d != %s", i, lit)
		}
		return true, ""
	case ReprFloat:
		if _, fits := FitsInt64(lit); fits {
			return false, fmt.Sprintf("plain integer literal %s that fits int64 came back as float64 %v", lit, f)
		}
		ref, err := strconv.ParseFloat(lit, 64)
		if err != nil && math.IsInf(ref, 0) {
			// out of float range: don't-care between Inf and big
			if math.IsInf(f, 0) {
				return true, ""
			}
			return false, fmt.Sprintf("float64 %v for out-of-range literal %s", f, lit)
		}
		if f != ref {
			return false, fmt.Sprintf("float64 %s is not the nearest float64 %s of %s", strconv.FormatFloat(f, 'g', -1, 64), strconv.FormatFloat(ref, 'g', -1, 64), lit)
		}
		return true, ""
	default:
		if _, fits := FitsInt64(lit); fits {
			return false, fmt.Sprintf("plain integer literal %s that fits int64 came back as big %q", lit, text)
		}
		got, ok := ParseDec(text)
		if !ok {
			return false, fmt.Sprintf("big text %q is not a number", text)
		}
		if want.Huge && got.Huge {
			// enormous exponents: compare textually modulo case/plus
			norm := func(s string) string {
				return strings.ReplaceAll(strings.ToLower(s), "e+", "e")
			}
			if norm(lit) == norm(text) {
				return true, ""
			}
		}
		if !want.Equal(got) {
			return false, fmt.Sprintf("big %q != %s", text, lit)
		}
		return true, ""
	}
}

// Rat returns the exact rational value of a literal (moderate exponents only).
func Rat(lit string) (*big.Rat, bool) {
	d, ok := ParseDec(lit)
	if !ok || d.Huge || d.Exp > 5000 || d.Exp < -5000 {
		return nil, false
	}
	r := new(big.Rat)
	if d.Digits == "" {
		return r, true
	}
	n, _ := new(big.Int).SetString(d.Digits, 10)
	if d.Neg {
		n.Neg(n)
	}
	p := new(big.Int).Exp(big.NewInt(10), big.NewInt(abs64(d.Exp)), nil)
	if d.Exp >= 0 {
		r.SetInt(n.Mul(n, p))
	} else {
		r.SetFrac(n, p)
	}
	return r, true
}

func abs64(v int64) int64 {
	if v < 0 {
		return -v
	}
	return v
}

// ---- comparison with Go simple values ----

// Options for EqualGo.
// NumAsStringOK is set by a monitor while it runs decoders under ojg.NumConvString.
var NumAsStringOK bool

type EqOpt struct {
	// ReplaceInvalidUTF8: the model's strings have invalid UTF-8 bytes replaced
	// by U+FFFD before comparing (writers document that replacement).
	ReplaceInvalidUTF8 bool
}

// EqualGo compares a reference value with a Go simple value as produced by the
// oj/sen parsers (nil, bool, int64, float64, json.Number, string, []any,
// map[string]any). It returns a description of the first difference.
func EqualGo(v *Value, g any, path string) (bool, string) {
	switch v.K {
	case Null:
		if g != nil {
			return false, fmt.Sprintf("%s: expected null, got %T %v", path, g, g)
		}
	case Bool:
		b, ok := g.(bool)
		if !ok || b != v.B {
			return false, fmt.Sprintf("%s: expected %v, got %T %v", path, v.B, g, g)
		}
	case Num:
		switch t := g.(type) {
		case int64:
			if ok, why := NumMatches(v.Lit, ReprInt, t, 0, ""); !ok {
				return false, path + ": " + why
			}
		case float64:
			if ok, why := NumMatches(v.Lit, ReprFloat, 0, t, ""); !ok {
				return false, path + ": " + why
			}
		case json.Number:
			if ok, why := NumMatches(v.Lit, ReprBig, 0, 0, string(t)); !ok {
				return false, path + ": " + why
			}
		case string:
			// ojg.NumConvString: a number too big for int64 / float64 is delivered as the string of its digits
			if !NumAsStringOK {
				return false, fmt.Sprintf("%s: expected number %s, got %T %v", path, v.Lit, g, g)
			}
			if ok, why := NumMatches(v.Lit, ReprBig, 0, 0, t); !ok {
				return false, path + ": " + why
			}
		default:
			return false, fmt.Sprintf("%s: expected number %s, got %T %v", path, v.Lit, g, g)
		}
	case Str:
		s, ok := g.(string)
		if !ok || s != v.S {
			return false, fmt.Sprintf("%s: expected string %q, got %T %q", path, v.S, g, g)
		}
	case Arr:
		a, ok := g.([]any)
		if !ok {
			return false, fmt.Sprintf("%s: expected array, got %T", path, g)
		}
		if len(a) != len(v.A) {
			return false, fmt.Sprintf("%s: expected %d elements, got %d", path, len(v.A), len(a))
		}
		for i := range a {
			if ok, why := EqualGo(v.A[i], a[i], fmt.Sprintf("%s[%d]", path, i)); !ok {
				return false, why
			}
		}
	case Obj:
		m, ok := g.(map[string]any)
		if !ok {
			return false, fmt.Sprintf("%s: expected object, got %T", path, g)
		}
		if len(m) != len(v.M) {
			return false, fmt.Sprintf("%s: expected %d members %q, got %d %q", path, len(v.M), v.Keys, len(m), keysOf(m))
		}
		for k, mv := range v.M {
			gv, has := m[k]
			if !has {
				return false, fmt.Sprintf("%s: member %q missing", path, k)
			}
			if ok, why := EqualGo(mv, gv, path+"."+k); !ok {
				return false, why
			}
		}
	}
	return true, ""
}

func keysOf(m map[string]any) []string {
	ks := make([]string, 0, len(m))
	for k := range m {
		ks = append(ks, k)
	}
	sort.Strings(ks)
	return ks
}

// String renders a reference value compactly (for messages).
func (v *Value) String() string {
	var sb strings.Builder
	v.write(&sb, 0)
	return sb.String()
}

func (v *Value) write(sb *strings.Builder, depth int) {
	if depth > 200 {
		sb.WriteString("<deep>")
		return
	}
	switch v.K {
	case Null:
		sb.WriteString("null")
	case Bool:
		fmt.Fprint(sb, v.B)
	case Num:
		sb.WriteString(v.Lit)
	case Str:
		fmt.Fprintf(sb, "%q", v.S)
	case Arr:
		sb.WriteByte('[')
		for i, e := range v.A {
			if i > 0 {
				sb.WriteByte(',')
			}
			e.write(sb, depth+1)
		}
		sb.WriteByte(']')
	case Obj:
		sb.WriteByte('{')
		for i, k := range v.Keys {
			if i > 0 {
				sb.WriteByte(',')
			}
			fmt.Fprintf(sb, "%q:", k)
			v.M[k].write(sb, depth+1)
		}
		sb.WriteByte('}')
	}
}
