// Package jpref holds the reference JSONPath evaluator J (located, ordered
// results with provenance) and the typed script evaluator S, written from the
// property statements and the operator documentation, over a path/equation
// *specification* that is independent of ojg's types.
package jpref

import (
	"fmt"
	"regexp"
	"sort"
	"strings"
)

// Frag is one path fragment specification.
type Frag struct {
	Kind   string `json:"k"` // root at child nth wild descent union slice filter
	Key    string `json:"key,omitempty"`
	N      int    `json:"n,omitempty"`
	Union  []any  `json:"u,omitempty"` // string or int
	Slice  []int  `json:"s,omitempty"` // 0..3 values: start, end, step
	Filter *Eq    `json:"f,omitempty"`
}

type Path []Frag

func (p Path) String() string {
	var sb strings.Builder
	for _, f := range p {
		switch f.Kind {
		case "root":
			sb.WriteString("$")
		case "at":
			sb.WriteString("@")
		case "child":
			fmt.Fprintf(&sb, "[%q]", f.Key)
		case "nth":
			fmt.Fprintf(&sb, "[%d]", f.N)
		case "wild":
			sb.WriteString("[*]")
		case "descent":
			sb.WriteString("..")
		case "union":
			sb.WriteString("[")
			for i, u := range f.Union {
				if i > 0 {
					sb.WriteString(",")
				}
				switch t := u.(type) {
				case string:
					fmt.Fprintf(&sb, "%q", t)
				default:
					fmt.Fprintf(&sb, "%v", t)
				}
			}
			sb.WriteString("]")
		case "slice":
			sb.WriteString("[")
			for i, s := range f.Slice {
				if i > 0 {
					sb.WriteString(":")
				}
				fmt.Fprintf(&sb, "%d", s)
			}
			if len(f.Slice) == 1 {
				sb.WriteString(":")
			}
			sb.WriteString("]")
		case "filter":
			sb.WriteString("[?" + f.Filter.String() + "]")
		}
	}
	return sb.String()
}

// Prov says which fragment consumed a location element and how.
type Prov struct {
	Descent bool // consumed by a descent fragment
	Frag    int  // index of the fragment in the path
	Array   bool // the element is an array index
	Ordered bool // the relative order of siblings at this element is defined (array traversal, union listing)
	Rank    int  // rank among the siblings selected by that fragment application (walk order)
}

// Res is one located result.
type Res struct {
	Loc  []any // string keys and int indexes from the root (or from the starting node)
	V    any
	Prov []Prov
	// Optional: the result exists only if a scalar reached in the middle of a path may be followed by a
	// root / current / descent fragment, which the statement does not define (ojg drops such scalars
	// after most fragments and keeps them after a filter). Either outcome is accepted.
	Optional bool
}

func (r Res) LocString() string {
	var sb strings.Builder
	sb.WriteString("$")
	for _, e := range r.Loc {
		switch t := e.(type) {
		case string:
			fmt.Fprintf(&sb, "[%q]", t)
		case int:
			fmt.Fprintf(&sb, "[%d]", t)
		}
	}
	return sb.String()
}

func extend(r Res, e any, v any, p Prov) Res {
	loc := make([]any, len(r.Loc)+1)
	copy(loc, r.Loc)
	loc[len(r.Loc)] = e
	pr := make([]Prov, len(r.Prov)+1)
	copy(pr, r.Prov)
	pr[len(r.Prov)] = p
	return Res{Loc: loc, V: v, Prov: pr, Optional: r.Optional}
}

// SliceIndexes gives the indexes a slice selects on an array of length n, in
// walk order (DESIGN 4.3: start default 0, end default "to the end", step
// default 1, step 0 selects nothing; negative start/end add the length, start
// then clamps to 0; start >= length selects nothing; a negative step walks
// down from start while i > max(end,-1)).
func SliceIndexes(s []int, n int) []int {
	start, end, step := 0, 1<<31-1, 1
	if 0 < len(s) {
		start = s[0]
	}
	if 1 < len(s) {
		end = s[1]
	}
	if 2 < len(s) {
		step = s[2]
	}
	if step == 0 {
		return nil
	}
	if start < 0 {
		start += n
		if start < 0 {
			start = 0
		}
	}
	if end < 0 {
		end += n
	}
	if n <= start {
		return nil
	}
	// a step beyond the length selects the start element only; bounding it keeps the index arithmetic
	// of this reference inside the int range for steps near the int limits
	if step > n {
		step = n + 1
	}
	if step < -n {
		step = -n - 1
	}
	var out []int
	if step > 0 {
		if n < end {
			end = n
		}
		for i := start; i < end; i += step {
			out = append(out, i)
		}
	} else {
		if end < -1 {
			end = -1
		}
		for i := start; end < i; i += step {
			out = append(out, i)
		}
	}
	return out
}

func sortedKeys(m map[string]any) []string {
	keys := make([]string, 0, len(m))
	for k := range m {
		keys = append(keys, k)
	}
	sort.Strings(keys)
	return keys
}

func isContainer(v any) bool {
	switch v.(type) {
	case []any, map[string]any:
		return true
	}
	return false
}

// Eval evaluates path p. root is the document, cur the node the path is
// applied to (equal to the root for a top-level evaluation).
func Eval(p Path, root any, cur Res) []Res {
	return eval(p, 0, root, cur)
}

func eval(p Path, fi int, root any, cur Res) []Res {
	if fi == len(p) {
		return []Res{cur}
	}
	f := p[fi]
	var next []Res
	switch f.Kind {
	case "root":
		opt := cur.Optional
		if fi > 0 && !isContainer(cur.V) {
			Tolerated++
			opt = true
		}
		next = []Res{{Loc: []any{}, V: root, Optional: opt}}
	case "at":
		if fi > 0 && !isContainer(cur.V) {
			Tolerated++
			cur.Optional = true
		}
		next = []Res{cur}
	case "child":
		if m, ok := cur.V.(map[string]any); ok {
			if v, has := m[f.Key]; has {
				next = []Res{extend(cur, f.Key, v, Prov{Frag: fi, Ordered: true})}
			}
		}
	case "nth":
		if a, ok := cur.V.([]any); ok {
			i := f.N
			if i < 0 {
				i += len(a)
			}
			if 0 <= i && i < len(a) {
				next = []Res{extend(cur, i, a[i], Prov{Frag: fi, Array: true, Ordered: true})}
			}
		}
	case "wild":
		switch t := cur.V.(type) {
		case []any:
			for i, c := range t {
				next = append(next, extend(cur, i, c, Prov{Frag: fi, Array: true, Ordered: true, Rank: i}))
			}
		case map[string]any:
			for i, k := range sortedKeys(t) {
				next = append(next, extend(cur, k, t[k], Prov{Frag: fi, Rank: i}))
			}
		}
	case "union":
		for ui, u := range f.Union {
			switch tu := u.(type) {
			case string:
				if m, ok := cur.V.(map[string]any); ok {
					if v, has := m[tu]; has {
						next = append(next, extend(cur, tu, v, Prov{Frag: fi, Ordered: true, Rank: ui}))
					}
				}
			case int:
				if a, ok := cur.V.([]any); ok {
					i := tu
					if i < 0 {
						i += len(a)
					}
					if 0 <= i && i < len(a) {
						next = append(next, extend(cur, i, a[i], Prov{Frag: fi, Array: true, Ordered: true, Rank: ui}))
					}
				}
			}
		}
	case "slice":
		if a, ok := cur.V.([]any); ok {
			for rank, i := range SliceIndexes(f.Slice, len(a)) {
				next = append(next, extend(cur, i, a[i], Prov{Frag: fi, Array: true, Ordered: true, Rank: rank}))
			}
		}
	case "descent":
		if fi > 0 && !isContainer(cur.V) {
			// descent "through every nested container" applied to a scalar reached mid-path: whether the
			// scalar itself counts is not defined; ojg drops scalars before any further fragment. Tolerated.
			Tolerated++
			cur.Optional = true
		}
		// the current node and every nested container/value, depth first, arrays in order
		var all []Res
		var walk func(r Res)
		walk = func(r Res) {
			all = append(all, r)
			switch t := r.V.(type) {
			case []any:
				for i, c := range t {
					walk(extend(r, i, c, Prov{Frag: fi, Array: true, Ordered: true, Rank: i, Descent: true}))
				}
			case map[string]any:
				for i, k := range sortedKeys(t) {
					walk(extend(r, k, t[k], Prov{Frag: fi, Rank: i, Descent: true}))
				}
			}
		}
		walk(cur)
		if fi == len(p)-1 {
			return all
		}
		var out []Res
		for _, r := range all {
			out = append(out, eval(p, fi+1, root, r)...)
		}
		return out
	case "filter":
		switch t := cur.V.(type) {
		case []any:
			for i, c := range t {
				if Truth(f.Filter, c, root) {
					next = append(next, extend(cur, i, c, Prov{Frag: fi, Array: true, Ordered: true, Rank: i}))
				}
			}
		case map[string]any:
			for i, k := range sortedKeys(t) {
				if Truth(f.Filter, t[k], root) {
					next = append(next, extend(cur, k, t[k], Prov{Frag: fi, Rank: i}))
				}
			}
		}
	}
	var out []Res
	for _, r := range next {
		out = append(out, eval(p, fi+1, root, r)...)
	}
	return out
}

// ---- S: script evaluator ----

// Eq is an equation specification (a tree built by constructors).
type Eq struct {
	Op    string `json:"op"` // const, path, eq neq lt gt lte gte and or not add sub mul div in empty has exists rx length count match search
	L     *Eq    `json:"l,omitempty"`
	R     *Eq    `json:"r,omitempty"`
	Const any    `json:"c,omitempty"`  // nil bool int64 float64 string []any ; Regex for rx
	Kind  string `json:"ck,omitempty"` // for const: nil bool int float string list regex nothing
	Path  Path   `json:"p,omitempty"`
}

func (e *Eq) String() string {
	if e == nil {
		return "<nil>"
	}
	switch e.Op {
	case "const":
		switch e.Kind {
		case "string":
			return fmt.Sprintf("%q", e.Const)
		case "regex":
			return fmt.Sprintf("/%v/", e.Const)
		case "nothing":
			return "Nothing"
		case "nil":
			return "null"
		}
		return fmt.Sprintf("%v", e.Const)
	case "path":
		return e.Path.String()
	case "not":
		return "!(" + e.L.String() + ")"
	case "length", "count":
		return e.Op + "(" + e.L.String() + ")"
	case "match", "search":
		return e.Op + "(" + e.L.String() + ", " + e.R.String() + ")"
	}
	return "(" + e.L.String() + " " + e.Op + " " + e.R.String() + ")"
}

type nothing struct{}

// Nothing is the value of a missing path.
var Nothing = nothing{}

// DontCare marks a cell the documentation leaves open.
type dontCare struct{}

var DontCare = dontCare{}

// multi is a multi-valued operand.
type multi []any

func norm(v any) any {
	switch t := v.(type) {
	case int:
		return int64(t)
	case int32:
		return int64(t)
	case float32:
		return float64(t)
	}
	return v
}

// Value evaluates an equation on one element with every multi-valued path
// operand left as a multi value (used for display and for single-valued trees).
func Value(e *Eq, elem, root any) any {
	return valueWith(e, elem, root, nil)
}

// pathValues returns the values a path operand yields on the element.
func pathValues(e *Eq, elem, root any) []any {
	start := elem
	if len(e.Path) > 0 && e.Path[0].Kind == "root" {
		start = root
	}
	rs := Eval(e.Path, root, Res{Loc: []any{}, V: start})
	out := make([]any, len(rs))
	for i, r := range rs {
		out[i] = norm(r.V)
	}
	return out
}

// valueWith evaluates e; pick gives, for multi-valued path operands, the single value chosen for this
// combination (ojg evaluates the WHOLE script once per combination of values and matches if any is true).
func valueWith(e *Eq, elem, root any, pick map[*Eq]any) any {
	switch e.Op {
	case "const":
		switch e.Kind {
		case "nothing":
			return Nothing
		case "regex":
			if rx, err := regexp.Compile(fmt.Sprint(e.Const)); err == nil {
				return rx
			}
			return DontCare
		}
		return norm(e.Const)
	case "path":
		if v, ok := pick[e]; ok {
			return v
		}
		vs := pathValues(e, elem, root)
		switch len(vs) {
		case 0:
			return Nothing
		case 1:
			return vs[0]
		}
		return multi(vs)
	case "length":
		// length(path): the length of the single value at the path; several values are not defined
		vs := pathValues(e.L, elem, root)
		if len(vs) != 1 {
			if len(vs) == 0 {
				return Nothing
			}
			return DontCare
		}
		return apply("length", vs[0], nil)
	case "count":
		return DontCare
	}
	var l, r any
	if e.L != nil {
		l = valueWith(e.L, elem, root, pick)
	}
	if e.R != nil {
		r = valueWith(e.R, elem, root, pick)
	}
	if _, ok := l.(multi); ok {
		return DontCare // only reached through Value() on a multi-valued tree (display)
	}
	if _, ok := r.(multi); ok {
		return DontCare
	}
	return apply(e.Op, l, r)
}

// multiOperands collects the path operands of e that yield several values.
func multiOperands(e *Eq, elem, root any, out *[]*Eq, vals *[][]any) {
	if e == nil {
		return
	}
	switch e.Op {
	case "path":
		if vs := pathValues(e, elem, root); len(vs) > 1 {
			*out = append(*out, e)
			*vals = append(*vals, vs)
		}
		return
	case "length", "count":
		return
	}
	multiOperands(e.L, elem, root, out, vals)
	multiOperands(e.R, elem, root, out, vals)
}

func isNum(v any) bool {
	switch v.(type) {
	case int64, float64:
		return true
	}
	return false
}

func toF(v any) float64 {
	switch t := v.(type) {
	case int64:
		return float64(t)
	case float64:
		return t
	}
	return 0
}

func kindOf(v any) string {
	switch v.(type) {
	case nil:
		return "nil"
	case bool:
		return "bool"
	case int64:
		return "int"
	case float64:
		return "float"
	case string:
		return "string"
	case []any:
		return "array"
	case map[string]any:
		return "object"
	case nothing:
		return "nothing"
	case multi:
		return "multi"
	case dontCare:
		return "dontcare"
	case *regexp.Regexp:
		return "regex"
	}
	return fmt.Sprintf("%T", v)
}

// KindOf exposes the operand kind for coverage accounting.
func KindOf(v any) string { return kindOf(v) }

func equalScalar(l, r any) any {
	if l == DontCare || r == DontCare {
		return DontCare
	}
	lc, rc := isContainer(l), isContainer(r)
	if lc && rc {
		return DontCare // two containers: value open, totality and complement still required
	}
	if lc || rc {
		return false
	}
	if isNum(l) && isNum(r) {
		li, lok := l.(int64)
		ri, rok := r.(int64)
		if lok && rok {
			return li == ri
		}
		return toF(l) == toF(r)
	}
	if kindOf(l) != kindOf(r) {
		return false
	}
	switch t := l.(type) {
	case nil, nothing:
		return true
	case bool:
		return t == r.(bool)
	case string:
		return t == r.(string)
	}
	return DontCare
}

func apply(op string, l, r any) any {
	if l == DontCare || r == DontCare {
		return DontCare
	}
	switch op {
	case "eq":
		return equalScalar(l, r)
	case "neq":
		v := equalScalar(l, r)
		if b, ok := v.(bool); ok {
			return !b
		}
		return v
	case "lt", "gt", "lte", "gte":
		switch {
		case isNum(l) && isNum(r):
			li, lok := l.(int64)
			ri, rok := r.(int64)
			if lok && rok {
				switch op {
				case "lt":
					return li < ri
				case "gt":
					return li > ri
				case "lte":
					return li <= ri
				default:
					return li >= ri
				}
			}
			a, b := toF(l), toF(r)
			switch op {
			case "lt":
				return a < b
			case "gt":
				return a > b
			case "lte":
				return a <= b
			default:
				return a >= b
			}
		case kindOf(l) == "string" && kindOf(r) == "string":
			a, b := l.(string), r.(string)
			switch op {
			case "lt":
				return a < b
			case "gt":
				return a > b
			case "lte":
				return a <= b
			default:
				return a >= b
			}
		}
		return false
	case "and":
		lb, _ := l.(bool)
		rb, _ := r.(bool)
		return lb && rb
	case "or":
		lb, _ := l.(bool)
		rb, _ := r.(bool)
		return lb || rb
	case "not":
		lb, _ := l.(bool)
		return !lb
	case "add", "sub", "mul", "div":
		if kindOf(l) == "string" && kindOf(r) == "string" && op == "add" {
			return l.(string) + r.(string)
		}
		if !isNum(l) || !isNum(r) {
			return Nothing
		}
		li, lok := l.(int64)
		ri, rok := r.(int64)
		if lok && rok {
			switch op {
			case "add":
				return wrapCheck(li, ri, li+ri, op)
			case "sub":
				return wrapCheck(li, ri, li-ri, op)
			case "mul":
				return DontCareIfOverflow(li, ri)
			default:
				if ri == 0 {
					return DontCare
				}
				return li / ri
			}
		}
		a, b := toF(l), toF(r)
		switch op {
		case "add":
			return a + b
		case "sub":
			return a - b
		case "mul":
			return a * b
		default:
			if b == 0 {
				return DontCare
			}
			return a / b
		}
	case "in":
		list, ok := r.([]any)
		if !ok {
			return DontCare
		}
		for _, ev := range list {
			nv := norm(ev)
			if b, ok := equalScalar(l, nv).(bool); ok && b {
				if isNum(l) && kindOf(l) != kindOf(nv) {
					// 1.0 in [1]: the documentation speaks of membership, not of comparing across
					// int and float; ojg compares the values as they are. Not defined.
					return DontCare
				}
				return true
			}
		}
		for _, ev := range list {
			if equalScalar(l, norm(ev)) == DontCare {
				return DontCare
			}
		}
		return false
	case "empty":
		boo, ok := r.(bool)
		if !ok {
			return false
		}
		switch t := l.(type) {
		case string:
			return boo == (len(t) == 0)
		case []any:
			return boo == (len(t) == 0)
		case map[string]any:
			return boo == (len(t) == 0)
		}
		return false
	case "has", "exists":
		boo, ok := r.(bool)
		if !ok {
			return false
		}
		return boo == (l != Nothing)
	case "rx":
		ls, ok := l.(string)
		if !ok {
			return false
		}
		switch tr := r.(type) {
		case string:
			if rx, err := regexp.Compile(tr); err == nil {
				return rx.MatchString(ls)
			}
			return false
		case *regexp.Regexp:
			return tr.MatchString(ls)
		}
		return false
	case "length":
		switch t := l.(type) {
		case string:
			return int64(len(t))
		case []any:
			return int64(len(t))
		case map[string]any:
			return int64(len(t))
		}
		return Nothing
	case "count":
		return DontCare // counts the node list of a path: checked through the metamorphic relation in C12
	case "match", "search":
		ls, ok := l.(string)
		rs, ok2 := r.(string)
		if !ok || !ok2 || rs == "" {
			return Nothing
		}
		if op == "match" {
			if rs[0] != '^' {
				rs = "^" + rs
			}
			if rs[len(rs)-1] != '$' {
				rs += "$"
			}
		}
		if rx, err := regexp.Compile(rs); err == nil {
			return rx.MatchString(ls)
		}
		return Nothing
	}
	return DontCare
}

func wrapCheck(a, b, res int64, op string) any {
	// overflow of int64 arithmetic is not documented
	if op == "add" && ((b > 0 && res < a) || (b < 0 && res > a)) {
		return DontCare
	}
	if op == "sub" && ((b > 0 && res > a) || (b < 0 && res < a)) {
		return DontCare
	}
	return res
}

func DontCareIfOverflow(a, b int64) any {
	if a == 0 || b == 0 {
		return int64(0)
	}
	res := a * b
	if res/b != a || (a == -1 && b == -1<<63) || (b == -1 && a == -1<<63) {
		return DontCare
	}
	return res
}

// Truth is the filter decision for one element: only a boolean true keeps it.
// The second result says whether the decision is defined (not DontCare).
func Truth(e *Eq, elem, root any) bool {
	b, def := TruthDefined(e, elem, root)
	if !def {
		Undefined++
	}
	return b
}

// Undefined counts filter decisions taken by Eval on cells the documentation
// leaves open; a caller that sees it move treats its case as don't-care.
var Undefined int

// Tolerated counts applications of a mid-path root/current fragment to a scalar.
var Tolerated int

func TruthDefined(e *Eq, elem, root any) (val bool, defined bool) {
	var ops []*Eq
	var vals [][]any
	multiOperands(e, elem, root, &ops, &vals)
	total := 1
	for _, v := range vals {
		total *= len(v)
		if total > 4096 {
			return false, false
		}
	}
	sawDC := false
	for mi := 0; mi < total; mi++ {
		pick := map[*Eq]any{}
		k := mi
		for oi, o := range ops {
			pick[o] = vals[oi][k%len(vals[oi])]
			k /= len(vals[oi])
		}
		v := valueWith(e, elem, root, pick)
		if v == DontCare {
			sawDC = true
			continue
		}
		if e.Op == "path" {
			if v != Nothing {
				return true, true
			}
			continue
		}
		if b, _ := v.(bool); b {
			return true, true
		}
	}
	if sawDC {
		return false, false
	}
	return false, true
}
