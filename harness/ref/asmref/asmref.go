// Package asmref is the reference semantics of ojg's assembly plans, written
// from the function descriptions in asm (asm.FnDocs) and the package doc. It
// evaluates a plan given as plain Go data ([]any as parsed from JSON/SEN) on
// a root map and reports one of three outcomes: a result state, an error, or
// "undefined" (the descriptions do not say what happens; the monitor then
// only checks totality and determinism).
//
// The reference deliberately shares nothing with the asm package except
//   - the set of function names (passed in by the caller), and
//   - the jp path functions First/Get/SetOne/Set/DelOne/Del, which the
//     descriptions of get/getall/set/setall/del/delall name as their
//     definition (and which C05/C13 pin to the reference path evaluator).
package asmref

import (
	"fmt"
	"math"
	"sort"
	"strconv"
	"strings"
	"unicode"

	"github.com/ohler55/ojg/jp"
)

// Undefined is raised (as a panic value) when the descriptions leave the
// outcome open.
type Undefined struct{ Why string }

// Error is raised (as a panic value) when the descriptions prescribe an error.
type Error struct{ Why string }

// Outcome of a reference run.
type Outcome struct {
	Undefined string // non-empty: don't-care from this point on
	Err       string // non-empty: the plan must return an error
}

// Names is the set of defined function names.
var Names = map[string]bool{}

// Opaque lists functions the reference does not model (environment dependent).
var Opaque = map[string]bool{"time": true, "zone": true, "inspect": true}

func undef(format string, a ...any) { panic(Undefined{fmt.Sprintf(format, a...)}) }
func fail(format string, a ...any)  { panic(Error{fmt.Sprintf(format, a...)}) }

type call struct {
	name string
	args []any
}

// compileArgs mirrors the documented reading of a plan: an array whose first
// element is a function name is a call, a string starting with $ or @ that
// parses as a path is a path, everything else is a literal.
func compileArg(a any) any {
	switch t := a.(type) {
	case []any:
		if len(t) > 0 {
			if name, _ := t[0].(string); name != "" && Names[name] {
				return compileCall(name, t[1:])
			}
		}
	case string:
		if len(t) > 0 && (t[0] == '$' || t[0] == '@') {
			if x, err := jp.Parse([]byte(t)); err == nil {
				return x
			}
		}
	}
	return a
}

func compileCall(name string, args []any) *call {
	c := &call{name: name}
	if name == "quote" {
		c.args = args
		return c
	}
	c.args = make([]any, len(args))
	for i, a := range args {
		c.args[i] = compileArg(a)
	}
	return c
}

type env struct {
	root map[string]any
}

// Run evaluates plan on root (modifying root) and returns the outcome.
func Run(plan []any, root map[string]any) (out Outcome) {
	defer func() {
		if r := recover(); r != nil {
			switch t := r.(type) {
			case Undefined:
				out.Undefined = t.Why
			case Error:
				out.Err = t.Why
			default:
				panic(r)
			}
		}
	}()
	if len(plan) == 0 {
		undef("empty plan")
	}
	var top *call
	if name, _ := plan[0].(string); name != "" && Names[name] {
		top = compileCall(name, plan[1:])
	} else {
		top = compileCall("asm", plan)
	}
	e := &env{root: root}
	e.call(top, root)
	return
}

func (e *env) eval(arg any, at any) any {
	switch t := arg.(type) {
	case *call:
		return e.call(t, at)
	case jp.Expr:
		return e.first(t, at)
	}
	return literal(arg)
}

// literal: an array or map written in the plan denotes a fresh value each
// time it is evaluated.
func literal(v any) any {
	switch t := v.(type) {
	case []any:
		out := make([]any, len(t))
		for i, m := range t {
			out[i] = literal(m)
		}
		return out
	case map[string]any:
		out := make(map[string]any, len(t))
		for k, m := range t {
			out[k] = literal(m)
		}
		return out
	}
	return v
}

func (e *env) first(x jp.Expr, at any) any {
	if len(x) == 0 {
		return nil
	}
	if _, ok := x[0].(jp.At); ok {
		return x.First(at)
	}
	return x.First(e.root)
}

// evalDynamic is the evaluation of a cond member, which is read when reached.
func (e *env) evalDynamic(v any, at any) any {
	return e.eval(compileArg(v), at)
}

func isNum(v any) bool {
	switch v.(type) {
	case int64, float64:
		return true
	}
	return false
}

func f64(v any) float64 {
	switch t := v.(type) {
	case int64:
		return float64(t)
	case float64:
		return t
	}
	panic("not a number")
}

func kindOf(v any) string {
	switch v.(type) {
	case nil:
		return "nil"
	case bool:
		return "bool"
	case int64:
		return "int"
	case float64:
		return "float"
	case string:
		return "string"
	case []any:
		return "array"
	case map[string]any:
		return "map"
	case jp.Expr:
		return "path"
	}
	return fmt.Sprintf("%T", v)
}

// Equal is the documented equality: numbers by value, containers deeply.
func Equal(a, b any) bool {
	switch ta := a.(type) {
	case nil:
		return b == nil
	case bool:
		tb, ok := b.(bool)
		return ok && ta == tb
	case int64:
		switch tb := b.(type) {
		case int64:
			return ta == tb
		case float64:
			return float64(ta) == tb
		}
		return false
	case float64:
		return isNum(b) && ta == f64(b)
	case string:
		tb, ok := b.(string)
		return ok && ta == tb
	case []any:
		tb, ok := b.([]any)
		if !ok || len(ta) != len(tb) {
			return false
		}
		for i := range ta {
			if !Equal(ta[i], tb[i]) {
				return false
			}
		}
		return true
	case map[string]any:
		tb, ok := b.(map[string]any)
		if !ok || len(ta) != len(tb) {
			return false
		}
		for k, v := range ta {
			w, has := tb[k]
			if !has || !Equal(v, w) {
				return false
			}
		}
		return true
	}
	undef("equality of %T", a)
	return false
}

func (e *env) arity(c *call, lo, hi int) {
	if len(c.args) < lo || hi < len(c.args) {
		fail("%s: %d arguments", c.name, len(c.args))
	}
}

func (e *env) pathArg(c *call, a any, at any) jp.Expr {
	switch t := a.(type) {
	case jp.Expr:
		return t
	case *call:
		if x, ok := e.call(t, at).(jp.Expr); ok && x != nil {
			return x
		}
	}
	fail("%s: first argument must be a path", c.name)
	return nil
}

func (e *env) target(x jp.Expr, at any) any {
	if _, ok := x[0].(jp.At); ok {
		return at
	}
	return e.root
}

func (e *env) str(c *call, v any) string {
	s, ok := v.(string)
	if !ok {
		fail("%s expects a string, not %s", c.name, kindOf(v))
	}
	return s
}

func (e *env) list(c *call, v any) []any {
	l, ok := v.([]any)
	if !ok {
		fail("%s expects an array, not %s", c.name, kindOf(v))
	}
	return l
}

func (e *env) integer(c *call, v any) int64 {
	i, ok := v.(int64)
	if !ok {
		fail("%s expects an integer, not %s", c.name, kindOf(v))
	}
	return i
}

func (e *env) call(c *call, at any) any {
	if Opaque[c.name] {
		undef("%s is environment dependent", c.name)
	}
	switch c.name {
	case "asm":
		for _, a := range c.args {
			at = e.eval(a, at)
		}
		return at
	case "quote":
		if len(c.args) == 0 {
			return nil
		}
		return literal(c.args[0])
	case "list":
		out := []any{}
		for _, a := range c.args {
			out = append(out, e.eval(a, at))
		}
		return out
	case "sum", "+", "dif", "-", "product", "*", "quotient", "/":
		return e.arith(c, at)
	case "mod":
		e.arity(c, 2, 2)
		a := e.integer(c, e.eval(c.args[0], at))
		b := e.integer(c, e.eval(c.args[1], at))
		if b == 0 {
			fail("mod by zero")
		}
		return a % b
	case "lt", "<", "lte", "<=", "gt", ">", "gte", ">=":
		return e.compare(c, at)
	case "eq", "==", "equal":
		if len(c.args) == 0 {
			return true
		}
		v0 := e.eval(c.args[0], at)
		for _, a := range c.args[1:] {
			if !Equal(v0, e.eval(a, at)) {
				return false
			}
		}
		return true
	case "neq", "!=":
		if len(c.args) == 0 {
			return false
		}
		v0 := e.eval(c.args[0], at)
		for _, a := range c.args[1:] {
			if !Equal(v0, e.eval(a, at)) {
				return true
			}
		}
		return false
	case "and", "or":
		isAnd := c.name == "and"
		for _, a := range c.args {
			var b bool
			switch t := e.eval(a, at).(type) {
			case nil:
			case bool:
				b = t
			default:
				fail("%s of %s", c.name, kindOf(t))
			}
			if b != isAnd {
				return b
			}
		}
		return isAnd
	case "not":
		e.arity(c, 1, 1)
		b, ok := e.eval(c.args[0], at).(bool)
		if !ok {
			fail("not of a non-boolean")
		}
		return !b
	case "array?", "bool?", "map?", "null?", "nil?", "num?", "string?", "time?":
		e.arity(c, 1, 1)
		k := kindOf(e.eval(c.args[0], at))
		switch c.name {
		case "array?":
			return k == "array"
		case "bool?":
			return k == "bool"
		case "map?":
			return k == "map"
		case "null?", "nil?":
			return k == "nil"
		case "num?":
			return k == "int" || k == "float"
		case "time?":
			return false // no value of the reference's domain is a time (time and zone are opaque)
		}
		return k == "string"
	case "cond":
		for _, a := range c.args {
			pair, ok := a.([]any)
			if !ok {
				// an array naming a function was read as a call: the
				// description wants a two element array, undecidable
				if _, isCall := a.(*call); isCall {
					undef("cond member that reads as a function call")
				}
				fail("cond expects arrays")
			}
			if len(pair) != 2 {
				fail("cond expects two element arrays")
			}
			switch t := e.evalDynamic(pair[0], at).(type) {
			case bool:
				if t {
					return e.evalDynamic(pair[1], at)
				}
			default:
				undef("cond test evaluates to %s", kindOf(t))
			}
		}
		return nil
	case "get", "getall":
		e.arity(c, 1, 2)
		x := e.pathArg(c, c.args[0], at)
		var data any
		if len(c.args) == 2 {
			data = e.eval(c.args[1], at)
		} else {
			data = e.target(x, at)
		}
		if c.name == "get" {
			return x.First(data)
		}
		res := x.Get(data)
		if res == nil {
			res = []any{}
		}
		return res
	case "set", "setall":
		e.arity(c, 2, 2)
		x := e.pathArg(c, c.args[0], at)
		v := e.eval(c.args[1], at)
		var err error
		if c.name == "set" {
			err = x.SetOne(e.target(x, at), v)
		} else {
			err = x.Set(e.target(x, at), v)
		}
		if err != nil {
			fail("%s: %s", c.name, err)
		}
		return at
	case "del", "delall":
		e.arity(c, 1, 1)
		x, ok := c.args[0].(jp.Expr)
		if !ok {
			if _, isCall := c.args[0].(*call); isCall {
				undef("%s with a computed path", c.name)
			}
			fail("%s: argument must be a path", c.name)
		}
		var err error
		if c.name == "del" {
			err = x.DelOne(e.target(x, at))
		} else {
			err = x.Del(e.target(x, at))
		}
		if err != nil {
			fail("%s: %s", c.name, err)
		}
		return at
	case "at", "root":
		var parts []string
		for _, a := range c.args {
			parts = append(parts, e.str(c, e.eval(a, at)))
		}
		x, err := jp.Parse([]byte(strings.Join(parts, ".")))
		if err != nil {
			fail("%s: %s", c.name, err)
		}
		if c.name == "at" {
			return append(jp.A(), x...)
		}
		return append(jp.R(), x...)
	case "each":
		e.arity(c, 2, 3)
		list := e.list(c, e.eval(c.args[0], at))
		fn, ok := c.args[1].(*call)
		if !ok {
			fail("each expects a function")
		}
		key := "asm"
		if len(c.args) == 3 {
			key = e.str(c, e.eval(c.args[2], at))
		}
		out := []any{}
		for _, m := range list {
			loc := map[string]any{"src": m}
			e.call(fn, loc)
			out = append(out, loc[key])
		}
		return out
	case "size":
		e.arity(c, 1, 1)
		switch t := e.eval(c.args[0], at).(type) {
		case string:
			return int64(len(t))
		case []any:
			return int64(len(t))
		case map[string]any:
			return int64(len(t))
		}
		return int64(0)
	case "nth":
		e.arity(c, 2, 2)
		list := e.list(c, e.eval(c.args[0], at))
		i := e.integer(c, e.eval(c.args[1], at))
		if i < 0 {
			i += int64(len(list))
		}
		if i < 0 || int64(len(list)) <= i {
			return nil
		}
		return list[i]
	case "reverse":
		e.arity(c, 1, 1)
		list := e.list(c, e.eval(c.args[0], at))
		out := make([]any, 0, len(list))
		for i := len(list) - 1; i >= 0; i-- {
			out = append(out, list[i])
		}
		return out
	case "sort":
		e.arity(c, 2, 2)
		list := e.list(c, e.eval(c.args[0], at))
		x, ok := c.args[1].(jp.Expr)
		if !ok {
			if _, isCall := c.args[1].(*call); isCall {
				undef("sort with a computed path")
			}
			fail("sort expects a path")
		}
		out := append([]any{}, list...)
		if len(out) < 2 {
			return out
		}
		if len(out) > 12 {
			undef("sort of a long list")
		}
		keys := make([]any, len(out))
		strs, nums := 0, 0
		for i, m := range out {
			keys[i] = x.First(m)
			switch keys[i].(type) {
			case string:
				strs++
			case int64, float64:
				nums++
			}
		}
		if strs != len(out) && nums != len(out) {
			fail("sort keys must be all strings or all numbers")
		}
		idx := make([]int, len(out))
		for i := range idx {
			idx[i] = i
		}
		less := func(a, b any) bool {
			if strs > 0 {
				return a.(string) < b.(string)
			}
			return f64(a) < f64(b)
		}
		sort.SliceStable(idx, func(i, j int) bool { return less(keys[idx[i]], keys[idx[j]]) })
		for i := 1; i < len(idx); i++ {
			if !less(keys[idx[i-1]], keys[idx[i]]) {
				undef("sort with equal keys (order of ties is not documented)")
			}
		}
		res := make([]any, len(out))
		for i, j := range idx {
			res[i] = out[j]
		}
		return res
	case "join":
		e.arity(c, 1, 2)
		list := e.list(c, e.eval(c.args[0], at))
		var ss []string
		for _, m := range list {
			ss = append(ss, e.str(c, m))
		}
		sep := ""
		if len(c.args) == 2 {
			sep = e.str(c, e.eval(c.args[1], at))
		}
		return strings.Join(ss, sep)
	case "split":
		e.arity(c, 2, 2)
		s := e.str(c, e.eval(c.args[0], at))
		sep := e.str(c, e.eval(c.args[1], at))
		out := []any{}
		for _, p := range strings.Split(s, sep) {
			out = append(out, p)
		}
		return out
	case "append":
		e.arity(c, 2, 2)
		list := e.list(c, e.eval(c.args[0], at))
		// Go append semantics (shared backing array when there is room).
		return append(list, e.eval(c.args[1], at))
	case "include":
		e.arity(c, 2, 2)
		v1 := e.eval(c.args[1], at)
		switch t := e.eval(c.args[0], at).(type) {
		case []any:
			for _, m := range t {
				if isNum(m) && isNum(v1) && kindOf(m) != kindOf(v1) && f64(m) == f64(v1) {
					undef("include of an int among floats or a float among ints")
				}
				if Equal(m, v1) {
					return true
				}
			}
			return false
		case string:
			return strings.Contains(t, e.str(c, v1))
		default:
			fail("include of %s", kindOf(t))
		}
	case "substr":
		e.arity(c, 2, 3)
		s := e.str(c, e.eval(c.args[0], at))
		start := e.integer(c, e.eval(c.args[1], at))
		n := int64(len(s))
		if start < 0 {
			start += n
			if start < 0 {
				start = 0
			}
		}
		if start > n {
			start = n
		}
		end := n
		if len(c.args) == 3 {
			cnt := e.integer(c, e.eval(c.args[2], at))
			if cnt < 0 {
				undef("substr with a negative length")
			}
			if cnt < n-start {
				end = start + cnt
			}
		}
		return s[start:end]
	case "replace":
		e.arity(c, 3, 3)
		s := e.str(c, e.eval(c.args[0], at))
		old := e.str(c, e.eval(c.args[1], at))
		rep := e.str(c, e.eval(c.args[2], at))
		return strings.ReplaceAll(s, old, rep)
	case "trim":
		e.arity(c, 1, 2)
		s := e.str(c, e.eval(c.args[0], at))
		if len(c.args) == 2 {
			return strings.Trim(s, e.str(c, e.eval(c.args[1], at)))
		}
		return strings.TrimSpace(s)
	case "tolower":
		e.arity(c, 1, 1)
		return strings.ToLower(e.str(c, e.eval(c.args[0], at)))
	case "toupper":
		e.arity(c, 1, 1)
		return strings.ToUpper(e.str(c, e.eval(c.args[0], at)))
	case "title":
		e.arity(c, 1, 1)
		ra := []rune(e.str(c, e.eval(c.args[0], at)))
		if len(ra) > 0 {
			ra[0] = unicode.ToUpper(ra[0])
		}
		return string(ra)
	case "int":
		e.arity(c, 1, 1)
		switch t := e.eval(c.args[0], at).(type) {
		case int64:
			return t
		case float64:
			if math.IsNaN(t) || t >= 9.2e18 || t <= -9.2e18 {
				undef("int of a float out of range")
			}
			return int64(t)
		case string:
			if i, err := strconv.ParseInt(t, 10, 64); err == nil {
				return i
			}
			return nil
		}
		return nil
	case "float":
		e.arity(c, 1, 1)
		switch t := e.eval(c.args[0], at).(type) {
		case int64:
			return float64(t)
		case float64:
			return t
		case string:
			if f, err := strconv.ParseFloat(t, 64); err == nil {
				return f
			}
			return nil
		}
		return nil
	case "string":
		e.arity(c, 1, 2)
		if len(c.args) == 2 {
			undef("string with a format")
		}
		switch t := e.eval(c.args[0], at).(type) {
		case int64:
			return strconv.FormatInt(t, 10)
		case float64:
			return fmt.Sprintf("%g", t)
		case string:
			return t
		case bool:
			return fmt.Sprint(t)
		default:
			undef("string of %s", kindOf(t))
		}
	}
	undef("function %s is not modelled", c.name)
	return nil
}

func (e *env) arith(c *call, at any) any {
	op := c.name
	switch op {
	case "+":
		op = "sum"
	case "-":
		op = "dif"
	case "*":
		op = "product"
	case "/":
		op = "quotient"
	}
	vals := make([]any, len(c.args))
	strs, nums := 0, 0
	for i, a := range c.args {
		vals[i] = e.eval(a, at)
		switch vals[i].(type) {
		case int64, float64:
			nums++
		case string:
			strs++
		default:
			if op == "sum" && strs > 0 && false {
				break
			}
			fail("%s of %s", op, kindOf(vals[i]))
		}
	}
	if strs > 0 {
		if op != "sum" {
			fail("%s of a string", op)
		}
		if nums > 0 {
			undef("sum of numbers and strings (formatting and grouping are not documented)")
		}
		var b strings.Builder
		for _, v := range vals {
			b.WriteString(v.(string))
		}
		return b.String()
	}
	if len(vals) == 0 {
		if op == "sum" {
			return int64(0)
		}
		undef("%s without arguments", op)
	}
	var acc any = vals[0]
	for _, v := range vals[1:] {
		ai, aInt := acc.(int64)
		vi, vInt := v.(int64)
		if aInt && vInt {
			switch op {
			case "sum":
				acc = ai + vi
			case "dif":
				acc = ai - vi
			case "product":
				acc = ai * vi
			case "quotient":
				if vi == 0 {
					fail("divide by zero")
				}
				if ai == math.MinInt64 && vi == -1 {
					undef("quotient overflow")
				}
				acc = ai / vi
			}
			continue
		}
		af, vf := f64(acc), f64(v)
		switch op {
		case "sum":
			acc = af + vf
		case "dif":
			acc = af - vf
		case "product":
			acc = af * vf
		case "quotient":
			if vf == 0 {
				fail("divide by zero")
			}
			acc = af / vf
		}
	}
	return acc
}

func (e *env) compare(c *call, at any) any {
	// Arguments are evaluated from the left and evaluation stops at the first
	// pair that fails (like and/or; the descriptions do not promise that the
	// remaining arguments are evaluated).
	if len(c.args) < 2 {
		undef("%s with %d arguments", c.name, len(c.args))
	}
	kind := ""
	classify := func(v any) string {
		switch v.(type) {
		case int64, float64:
			return "num"
		case string:
			return "str"
		}
		return "other"
	}
	prev := e.eval(c.args[0], at)
	kind = classify(prev)
	if kind == "other" {
		undef("%s of %s", c.name, kindOf(prev))
	}
	for _, a := range c.args[1:] {
		v := e.eval(a, at)
		if classify(v) != kind {
			undef("%s over mixed kinds", c.name)
		}
		var lt, eq bool
		if kind == "str" {
			x, y := prev.(string), v.(string)
			lt, eq = x < y, x == y
		} else {
			x, y := f64(prev), f64(v)
			lt, eq = x < y, x == y
		}
		var ok bool
		switch c.name {
		case "lt", "<":
			ok = lt
		case "lte", "<=":
			ok = lt || eq
		case "gt", ">":
			ok = !lt && !eq
		default:
			ok = !lt
		}
		if !ok {
			return false
		}
		prev = v
	}
	return true
}
