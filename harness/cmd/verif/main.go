// Command verif is both the driver (orchestrates child processes, merges
// their reports, matches known findings, writes evidence) and the child
// (runs one batch of one property's monitor against the real ojg code).
package main

import (
	"flag"
	"fmt"
	"os"

	"verif/mon"
	_ "verif/props"
)

func main() {
	if len(os.Args) < 2 {
		fmt.Fprintln(os.Stderr, "usage: verif drive|batch ...")
		os.Exit(2)
	}
	switch os.Args[1] {
	case "batch":
		batchMain(os.Args[2:])
	case "drive":
		os.Exit(mon.Drive(os.Args[2:]))
	case "list":
		for id := range mon.Registry {
			fmt.Println(id)
		}
	default:
		fmt.Fprintln(os.Stderr, "unknown subcommand")
		os.Exit(2)
	}
}

func batchMain(args []string) {
	fs := flag.NewFlagSet("batch", flag.ExitOnError)
	prop := fs.String("prop", "", "")
	tier := fs.String("tier", "quick", "")
	seed := fs.Int64("seed", 1, "")
	batch := fs.Int("batch", 0, "")
	batches := fs.Int("batches", 1, "")
	out := fs.String("out", "", "")
	sig := fs.String("sig", "", "")
	fs.Parse(args)
	p := mon.Registry[*prop]
	if p == nil {
		fmt.Fprintln(os.Stderr, "unknown property", *prop)
		os.Exit(2)
	}
	c := mon.NewCtx(*prop, *tier, *seed, *batch, *batches, *out)
	c.OnlySig = *sig
	c.SetKnown(mon.LoadKnown(os.Getenv("VERIF_DIR")).Open, p.Findings)
	lim := p.CPULimit
	if lim == 0 {
		lim = 20
	}
	c.Watchdog(lim)
	if pn := mon.Guard(func() { p.Run(c) }); pn != nil {
		// every ojg call is meant to be guarded separately; a panic that still reaches this point is a
		// violation when ojg code raised it (the rest of this batch is lost), a harness defect otherwise
		if c.EscapedPanic(pn) {
			c.Finish(true)
			return
		}
		c.Inconclusive("harness panic: " + pn.Msg + "\n" + pn.Stack)
		c.Finish(false)
		os.Exit(4)
	}
	c.Finish(true)
}
