// Package decoders wraps every ojg parsing front-end as a function from bytes
// (and a chunk plan) to a normalised tree of simple values, for C02 and C03.
package decoders

import (
	"encoding/json"
	"fmt"

	"github.com/ohler55/ojg/alt"
	"github.com/ohler55/ojg/gen"
	"github.com/ohler55/ojg/oj"
	"github.com/ohler55/ojg/sen"

	"verif/gen/jsongen"
)

// Collector is the harness's own TokenHandler: it rebuilds a tree from token
// events (independent of alt.Builder). Multiple top-level values are collected
// in Docs.
type Collector struct {
	stack []any // *[]any or *objFrame
	Docs  []any
	Err   string
}

type objFrame struct {
	m   map[string]any
	key string
	has bool
}

func (c *Collector) add(v any) {
	if len(c.stack) == 0 {
		c.Docs = append(c.Docs, v)
		return
	}
	switch t := c.stack[len(c.stack)-1].(type) {
	case *[]any:
		*t = append(*t, v)
	case *objFrame:
		if !t.has {
			c.Err = "value without key in object"
			return
		}
		t.m[t.key] = v
		t.has = false
	}
}

func (c *Collector) Null()           { c.add(nil) }
func (c *Collector) Bool(b bool)     { c.add(b) }
func (c *Collector) Int(i int64)     { c.add(i) }
func (c *Collector) Float(f float64) { c.add(f) }
func (c *Collector) Number(s string) { c.add(json.Number(s)) }
func (c *Collector) String(s string) { c.add(s) }
func (c *Collector) ObjectStart()    { c.stack = append(c.stack, &objFrame{m: map[string]any{}}) }
func (c *Collector) ArrayStart()     { a := make([]any, 0); c.stack = append(c.stack, &a) }
func (c *Collector) Key(k string) {
	if len(c.stack) == 0 {
		c.Err = "key outside object"
		return
	}
	if f, ok := c.stack[len(c.stack)-1].(*objFrame); ok {
		f.key, f.has = k, true
	} else {
		c.Err = "key inside array"
	}
}
func (c *Collector) ObjectEnd() {
	if len(c.stack) == 0 {
		c.Err = "unbalanced object end"
		return
	}
	f, ok := c.stack[len(c.stack)-1].(*objFrame)
	if !ok {
		c.Err = "object end closes array"
		return
	}
	c.stack = c.stack[:len(c.stack)-1]
	c.add(f.m)
}
func (c *Collector) ArrayEnd() {
	if len(c.stack) == 0 {
		c.Err = "unbalanced array end"
		return
	}
	a, ok := c.stack[len(c.stack)-1].(*[]any)
	if !ok {
		c.Err = "array end closes object"
		return
	}
	c.stack = c.stack[:len(c.stack)-1]
	c.add(*a)
}

// One returns the single collected document.
func (c *Collector) One() (any, error) {
	if c.Err != "" {
		return nil, fmt.Errorf("token stream malformed: %s", c.Err)
	}
	if len(c.stack) != 0 {
		return nil, fmt.Errorf("token stream malformed: %d containers left open", len(c.stack))
	}
	switch len(c.Docs) {
	case 0:
		return nil, nil
	case 1:
		return c.Docs[0], nil
	}
	return nil, fmt.Errorf("token stream delivered %d top-level values", len(c.Docs))
}

// BuilderHandler adapts alt.Builder to the TokenHandler interface (the route
// C03 names: tokenizer callbacks rebuilt with a Builder).
type BuilderHandler struct {
	B    alt.Builder
	key  string
	has  bool
	Err  error
	Docs []any
	deep int
}

func (h *BuilderHandler) k() []string {
	if h.has {
		h.has = false
		return []string{h.key}
	}
	return nil
}
func (h *BuilderHandler) note(err error) {
	if err != nil && h.Err == nil {
		h.Err = err
	}
}
func (h *BuilderHandler) val(v any) {
	if h.deep == 0 {
		h.Docs = append(h.Docs, v)
		return
	}
	h.note(h.B.Value(v, h.k()...))
}
func (h *BuilderHandler) Null()           { h.val(nil) }
func (h *BuilderHandler) Bool(b bool)     { h.val(b) }
func (h *BuilderHandler) Int(i int64)     { h.val(i) }
func (h *BuilderHandler) Float(f float64) { h.val(f) }
func (h *BuilderHandler) Number(s string) { h.val(json.Number(s)) }
func (h *BuilderHandler) String(s string) { h.val(s) }
func (h *BuilderHandler) Key(k string)    { h.key, h.has = k, true }
func (h *BuilderHandler) ObjectStart()    { h.note(h.B.Object(h.k()...)); h.deep++ }
func (h *BuilderHandler) ArrayStart()     { h.note(h.B.Array(h.k()...)); h.deep++ }
func (h *BuilderHandler) ObjectEnd()      { h.end() }
func (h *BuilderHandler) ArrayEnd()       { h.end() }
func (h *BuilderHandler) end() {
	h.deep--
	h.B.Pop()
	if h.deep == 0 {
		h.Docs = append(h.Docs, h.B.Result())
		h.B.Reset()
	}
}

// GenBuilderHandler is BuilderHandler over gen.Builder.
type GenBuilderHandler struct {
	B    gen.Builder
	key  string
	has  bool
	Err  error
	Docs []any
	deep int
}

func (h *GenBuilderHandler) k() []string {
	if h.has {
		h.has = false
		return []string{h.key}
	}
	return nil
}
func (h *GenBuilderHandler) note(err error) {
	if err != nil && h.Err == nil {
		h.Err = err
	}
}
func (h *GenBuilderHandler) val(v gen.Node) {
	if h.deep == 0 {
		h.Docs = append(h.Docs, FromGen(v))
		return
	}
	h.note(h.B.Value(v, h.k()...))
}
func (h *GenBuilderHandler) Null()           { h.val(nil) }
func (h *GenBuilderHandler) Bool(b bool)     { h.val(gen.Bool(b)) }
func (h *GenBuilderHandler) Int(i int64)     { h.val(gen.Int(i)) }
func (h *GenBuilderHandler) Float(f float64) { h.val(gen.Float(f)) }
func (h *GenBuilderHandler) Number(s string) { h.val(gen.Big(s)) }
func (h *GenBuilderHandler) String(s string) { h.val(gen.String(s)) }
func (h *GenBuilderHandler) Key(k string)    { h.key, h.has = k, true }
func (h *GenBuilderHandler) ObjectStart()    { h.note(h.B.Object(h.k()...)); h.deep++ }
func (h *GenBuilderHandler) ArrayStart()     { h.note(h.B.Array(h.k()...)); h.deep++ }
func (h *GenBuilderHandler) ObjectEnd()      { h.end() }
func (h *GenBuilderHandler) ArrayEnd()       { h.end() }
func (h *GenBuilderHandler) end() {
	h.deep--
	h.B.Pop()
	if h.deep == 0 {
		h.Docs = append(h.Docs, FromGen(h.B.Result()))
		h.B.Reset()
	}
}

// FromGen converts a gen tree to simple values with the harness's own
// converter (not gen.Node.Simplify).
func FromGen(n gen.Node) any {
	switch t := n.(type) {
	case nil:
		return nil
	case gen.Bool:
		return bool(t)
	case gen.Int:
		return int64(t)
	case gen.Float:
		return float64(t)
	case gen.Big:
		return json.Number(string(t))
	case gen.String:
		return string(t)
	case gen.Array:
		a := make([]any, len(t))
		for i, e := range t {
			a[i] = FromGen(e)
		}
		return a
	case gen.Object:
		m := make(map[string]any, len(t))
		for k, e := range t {
			m[k] = FromGen(e)
		}
		return m
	}
	return fmt.Sprintf("<unexpected gen node %T>", n)
}

// Dec is one decoding route.
type Dec struct {
	Name   string
	Family string // "json" or "sen"
	Reader bool
	Run    func(x []byte, pl jsongen.Plan) (any, error)
}

func tok(parse func(h oj.TokenHandler) error) (any, error) {
	c := &Collector{}
	if err := parse(c); err != nil {
		return nil, err
	}
	return c.One()
}

// All lists the decoding routes. JSON-family routes are strict JSON
// front-ends; SEN-family routes accept SEN (and therefore JSON).
var All = []Dec{
	{"oj.Parser.Parse", "json", false, func(x []byte, _ jsongen.Plan) (any, error) { var p oj.Parser; return p.Parse(x) }},
	{"oj.Parse", "json", false, func(x []byte, _ jsongen.Plan) (any, error) { return oj.Parse(x) }},
	{"oj.Parser.ParseReader", "json", true, func(x []byte, pl jsongen.Plan) (any, error) { var p oj.Parser; return p.ParseReader(pl.Reader(x)) }},
	{"oj.Tokenizer.Parse+collector", "json", false, func(x []byte, _ jsongen.Plan) (any, error) {
		return tok(func(h oj.TokenHandler) error { t := oj.Tokenizer{}; t.OnlyOne = true; return t.Parse(x, h) })
	}},
	{"oj.Tokenizer.Load+collector", "json", true, func(x []byte, pl jsongen.Plan) (any, error) {
		return tok(func(h oj.TokenHandler) error { t := oj.Tokenizer{}; t.OnlyOne = true; return t.Load(pl.Reader(x), h) })
	}},
	{"oj.Tokenizer.Parse+gen.Builder", "json", false, func(x []byte, _ jsongen.Plan) (any, error) {
		h := &GenBuilderHandler{}
		t := oj.Tokenizer{}
		t.OnlyOne = true
		if err := t.Parse(x, h); err != nil {
			return nil, err
		}
		if h.Err != nil {
			return nil, h.Err
		}
		switch len(h.Docs) {
		case 0:
			return nil, nil
		case 1:
			return h.Docs[0], nil
		}
		return nil, fmt.Errorf("builder delivered %d documents", len(h.Docs))
	}},
	{"oj.Tokenizer.Parse+alt.Builder", "json", false, func(x []byte, _ jsongen.Plan) (any, error) {
		h := &BuilderHandler{}
		t := oj.Tokenizer{}
		t.OnlyOne = true
		if err := t.Parse(x, h); err != nil {
			return nil, err
		}
		if h.Err != nil {
			return nil, h.Err
		}
		switch len(h.Docs) {
		case 0:
			return nil, nil
		case 1:
			return h.Docs[0], nil
		}
		return nil, fmt.Errorf("builder delivered %d documents", len(h.Docs))
	}},
	{"gen.Parser.Parse", "json", false, func(x []byte, _ jsongen.Plan) (any, error) {
		var p gen.Parser
		n, err := p.Parse(x)
		if err != nil {
			return nil, err
		}
		return FromGen(n), nil
	}},
	{"gen.Parser.ParseReader", "json", true, func(x []byte, pl jsongen.Plan) (any, error) {
		var p gen.Parser
		n, err := p.ParseReader(pl.Reader(x))
		if err != nil {
			return nil, err
		}
		return FromGen(n), nil
	}},
	{"sen.Parser.Parse", "sen", false, func(x []byte, _ jsongen.Plan) (any, error) { var p sen.Parser; return p.Parse(x) }},
	{"sen.Parse", "sen", false, func(x []byte, _ jsongen.Plan) (any, error) { return sen.Parse(x) }},
	{"sen.Parser.ParseReader", "sen", true, func(x []byte, pl jsongen.Plan) (any, error) { var p sen.Parser; return p.ParseReader(pl.Reader(x)) }},
	{"sen.Tokenizer.Parse+collector", "sen", false, func(x []byte, _ jsongen.Plan) (any, error) {
		return tok(func(h oj.TokenHandler) error { t := sen.Tokenizer{OnlyOne: true}; return t.Parse(x, h) })
	}},
	{"sen.Tokenizer.Load+collector", "sen", true, func(x []byte, pl jsongen.Plan) (any, error) {
		return tok(func(h oj.TokenHandler) error { t := sen.Tokenizer{OnlyOne: true}; return t.Load(pl.Reader(x), h) })
	}},
}

// Call runs a route under a panic guard.
func Call(d *Dec, x []byte, pl jsongen.Plan) (v any, err error) {
	defer func() {
		if r := recover(); r != nil {
			err = fmt.Errorf("PANIC: %v", r)
		}
	}()
	return d.Run(x, pl)
}
