// Package c14: JSONPath and script text forms round-trip.
// Oracle: metamorphic - print -> parse -> print must be a fixpoint and the
// re-parsed value must evaluate like the constructed one (and, for equations,
// like the reference evaluator S applied to the constructed tree).
package c14

import (
	"fmt"
	"math/rand"
	"strings"
	"unicode/utf8"

	"github.com/ohler55/ojg/jp"

	"verif/gen/treegen"
	"verif/mon"
	"verif/props/jpspec"
	"verif/ref/jpref"
)

func init() {
	mon.Register(&mon.Prop{
		ID:      "C14",
		Batches: func(tier string) int { return map[string]int{"quick": 16, "thorough": 48}[tier] },
		Run:     run,
		Rule: "cases: (paths) every fragment kind (root, current, child, index, wildcard, descent, union, slice, filter) in every position; child keys: every single byte 0-255 as a one-byte key, embedded in aXb and next to a second character that needs an escape of its own, quotes, backslashes, control and multi-byte characters, the reserved spellings; " +
			"unions mixing such keys with indexes; slices with every subset of bounds present incl. the default sentinels; nested filters; random paths. (equations) all ordered operator pairs in both nestings (a op1 b) op2 c and a op1 (b op2 c), unary ! over each, functions, " +
			"constants of every kind incl. strings with quotes/escapes and regexes with '/', random trees of depth <= 4. Each path is also built through the builder functions (jp.R().C(..).N(..) in both spellings) and must be the same expression. Each is printed (String and BracketString; Equation, Script and Filter strings), parsed back and printed again; the texts must be identical, " +
			"and the re-parsed value must select the same elements / give the same truth value on a battery of data (equations also against S on the constructed tree). also indexes, union members and slice members at and near the int limits. also regex constants with slashes next to backslashes and jp.Slice values with more than three members. non-trivial: every case; distinct by construction (enumerations) or by digest",
		Assumptions: []string{
			"the Bracket marker fragment is not generated (not in the statement's list)",
			"keys and string constants with invalid UTF-8 are expected to round-trip only up to U+FFFD replacement",
			"a float constant with an integral value prints without a fraction: kind changes float->int are accepted when every comparison gives the same truth value, arithmetic with such constants is compared after the same conversion",
		},
		Findings: map[string]func(v *mon.Violation) bool{},
		Floors: func(tier string, cover map[string]int64, evals int64) []string {
			var out []string
			pairs := 0
			for k := range cover {
				if strings.HasPrefix(k, "pair:") {
					pairs++
				}
			}
			if pairs < 200 {
				out = append(out, fmt.Sprintf("only %d operator-pair matrix cells covered (floor 200)", pairs))
			}
			for _, k := range []string{"form:String", "form:BracketString", "form:Equation", "form:Script", "form:Filter", "key-bytes", "slices", "random-paths", "random-equations"} {
				if cover[k] == 0 {
					out = append(out, "coverage class never reached: "+k)
				}
			}
			return out
		},
		Exhaustive: func(tier string) []string {
			return []string{"every single byte 0-255 as a one-byte child key and embedded in aXb, in five positions", "all ordered pairs of binary operators in both nestings"}
		},
	})
}

type checker struct {
	c     *mon.Ctx
	lossy bool // the case contains a key / constant with invalid UTF-8 (round trip only up to U+FFFD)
}

func clip(s string) string {
	if len(s) > 300 {
		return s[:300] + "…"
	}
	return s
}

func multiset(vs []any) string {
	out := make([]string, len(vs))
	for i, v := range vs {
		out[i] = jpspec.Ident(v)
	}
	sortStrings(out)
	return strings.Join(out, " ")
}

func sortStrings(a []string) {
	for i := 1; i < len(a); i++ {
		for j := i; j > 0 && a[j] < a[j-1]; j-- {
			a[j], a[j-1] = a[j-1], a[j]
		}
	}
}

func fixStr(s string) string {
	if utf8.ValidString(s) {
		return s
	}
	var b strings.Builder
	for i := 0; i < len(s); {
		r, n := utf8.DecodeRuneInString(s[i:])
		if r == utf8.RuneError && n == 1 {
			b.WriteString("�")
		} else {
			b.WriteString(s[i : i+n])
		}
		i += n
	}
	return b.String()
}

// path checks one path specification in both text forms.
func (ck *checker) path(p jpref.Path, label string, datas []any) {
	c := ck.c
	cs := map[string]any{"path_spec": p.String()}
	c.Begin("jp path round trip", cs)
	x := jpspec.ToExpr(p)
	// the same expression through the builder functions (jp.R().C("a").N(1)... in both spellings) must be the
	// same expression: same fragments, same two texts
	for _, long := range []bool{false, true} {
		var xb jp.Expr
		var same bool
		var got string
		if pn := mon.Guard(func() {
			xb = jpspec.ToExprAPI(p, long)
			same = len(xb) == len(x) && xb.String() == x.String() && xb.BracketString() == x.BracketString()
			for i := 0; same && i < len(x); i++ {
				same = fmt.Sprintf("%T", x[i]) == fmt.Sprintf("%T", xb[i])
			}
			got = xb.BracketString()
		}); pn != nil {
			c.Violation("jp builder functions", "panic", label, cs, "an expression", pn.String())
		} else if !same {
			c.Violation("jp builder functions", "builder-gives-another-expression", label, with(cs, "long_names", long), clip(x.BracketString()), clip(got))
		}
		c.Cover("form:builder-functions")
		c.Eval(1)
	}
	for _, br := range []bool{false, true} {
		form := "String"
		if br {
			form = "BracketString"
		}
		c.Cover("form:" + form)
		var s1, s2 string
		var x2 jp.Expr
		var err error
		pn := mon.Guard(func() {
			if br {
				s1 = x.BracketString()
			} else {
				s1 = x.String()
			}
			x2, err = jp.ParseString(s1)
			if err == nil {
				if br {
					s2 = x2.BracketString()
				} else {
					s2 = x2.String()
				}
			}
		})
		c.Eval(1)
		cs2 := map[string]any{"path_spec": p.String(), "text": mon.B(s1), "form": form}
		class := label + "/" + form
		switch {
		case pn != nil:
			c.Violation("jp.Expr."+form, "panic", class, cs2, "text", pn.String())
			continue
		case err != nil:
			c.Violation("jp.Expr."+form, "printed-text-does-not-parse", class, cs2, "jp.ParseString accepts "+clip(s1), err.Error())
			continue
		case s1 != s2:
			c.Violation("jp.Expr."+form, "prints-differently-after-parse", class, cs2, clip(s1), clip(s2))
			continue
		}
		if ck.lossy {
			continue // keys with invalid UTF-8 round-trip only up to U+FFFD replacement: the text fixpoint is what is checked
		}
		for _, d := range datas {
			var a, b string
			if pn := mon.Guard(func() { a, b = multiset(x.Get(d)), multiset(x2.Get(d)) }); pn != nil {
				break // C05's business
			}
			if a != b {
				c.Violation("jp.Expr."+form, "evaluates-differently-after-parse", class, with(cs2, "data", treegen.Show(d)), clip(a), clip(b))
				break
			}
		}
	}
}

func with(cs map[string]any, k string, v any) map[string]any {
	m := map[string]any{k: v}
	for a, b := range cs {
		m[a] = b
	}
	return m
}

// intFloatInsensitive: constants that lose their float-ness in print (2.0 -> 2).
func hasIntegralFloat(e *jpref.Eq) bool {
	if e == nil {
		return false
	}
	if e.Op == "const" && e.Kind == "float" {
		f, _ := e.Const.(float64)
		return f == float64(int64(f))
	}
	return hasIntegralFloat(e.L) || hasIntegralFloat(e.R)
}

func hasRootPath(e *jpref.Eq) bool {
	if e == nil {
		return false
	}
	if e.Op == "path" && len(e.Path) > 0 && e.Path[0].Kind == "root" {
		return true
	}
	return hasRootPath(e.L) || hasRootPath(e.R)
}

// equation checks one equation specification in its three text forms.
func (ck *checker) equation(e *jpref.Eq, label string, elems []any) {
	c := ck.c
	cs := map[string]any{"equation_spec": e.String()}
	c.Begin("jp equation round trip", cs)
	var q *jp.Equation
	var script *jp.Script
	var filter *jp.Filter
	if pn := mon.Guard(func() { q = jpspec.ToEquation(e); script = q.Script(); filter = q.Filter() }); pn != nil {
		c.Violation("jp.Equation", "panic", label, cs, "equation", pn.String())
		return
	}
	type form struct {
		name  string
		print func() string
		parse func(s string) (func(any) bool, func() string, error)
	}
	forms := []form{
		{"Script", func() string { return script.String() }, func(s string) (func(any) bool, func() string, error) {
			s2, err := jp.NewScript(s)
			if err != nil {
				return nil, nil, err
			}
			return s2.Match, s2.String, nil
		}},
		{"Equation", func() string { return q.String() }, func(s string) (func(any) bool, func() string, error) {
			var q2 *jp.Equation
			if pn := mon.Guard(func() { q2 = jp.MustParseEquation(s) }); pn != nil {
				return nil, nil, fmt.Errorf("%s", pn.Msg)
			}
			s2 := q2.Script()
			return s2.Match, q2.String, nil
		}},
		{"Filter", func() string { return filter.String() }, func(s string) (func(any) bool, func() string, error) {
			f2, err := jp.NewFilter(s)
			if err != nil {
				return nil, nil, err
			}
			x := jp.Expr{f2}
			return func(el any) bool { return len(x.Get([]any{el})) == 1 }, f2.String, nil
		}},
	}
	integral := hasIntegralFloat(e)
	for _, f := range forms {
		c.Cover("form:" + f.name)
		var s1, s2 string
		var match func(any) bool
		var err error
		pn := mon.Guard(func() {
			s1 = f.print()
			var again func() string
			match, again, err = f.parse(s1)
			if err == nil {
				s2 = again()
			}
		})
		c.Eval(1)
		cs2 := map[string]any{"equation_spec": e.String(), "text": mon.B(s1), "form": f.name}
		class := label + "/" + f.name
		switch {
		case pn != nil:
			c.Violation("jp."+f.name+".String", "panic", class, cs2, "text", pn.String())
			continue
		case err != nil:
			c.Violation("jp."+f.name+".String", "printed-text-does-not-parse", class, cs2, "parser accepts "+clip(s1), err.Error())
			continue
		case s1 != s2:
			c.Violation("jp."+f.name+".String", "prints-differently-after-parse", class, cs2, clip(s1), clip(s2))
			continue
		}
		if ck.lossy || f.name == "Filter" && hasRootPath(e) {
			continue // invalid UTF-8 constants: text fixpoint only; a $-path inside a filter sees another root here
		}
		for _, el := range elems {
			var orig, re bool
			if pn := mon.Guard(func() { orig = script.Match(el); re = match(el) }); pn != nil {
				break // totality is C12's business
			}
			if orig != re && !integral {
				c.Violation("jp."+f.name+".String", "evaluates-differently-after-parse", class, with(cs2, "element", treegen.Show(el)), fmt.Sprint(orig), fmt.Sprint(re))
				break
			}
			if want, def := jpref.TruthDefined(e, el, el); def && !integral && re != want {
				c.Violation("jp."+f.name+".String", "parsed-text-differs-from-constructed-tree(S)", class, with(cs2, "element", treegen.Show(el)), fmt.Sprint(want), fmt.Sprint(re))
				break
			}
		}
	}
}

var specialKeys = []string{"", "*", "$", "@", "1", "-1", "0x", "a.b", "a b", "a'b", `a"b`, `a\b`, "a]b", "a[b", "日本", "true", "null", "..", "?", "a,b", " ", "\xff\xfe", "a\nb", "a\tb", "\x00", "é", "😀", "a:b", "(", ")", "a-b", "_a", "A1", "[0]", "['x']", "length", "count", "in", "has", "Nothing", "x y z", "'", `"`, `\`, `\\`, "a b"}

func keyData(k string) []any {
	fk := fixStr(k)
	return []any{
		map[string]any{k: int64(1), fk: int64(1), "x": map[string]any{k: []any{int64(2), int64(3)}, fk: []any{int64(2), int64(3)}}, "z": int64(4), "a": int64(5), "b": int64(6)},
		[]any{map[string]any{k: int64(7), fk: int64(7)}, []any{map[string]any{k: int64(8), fk: int64(8)}}, int64(9)},
	}
}

var binOps = []string{"eq", "neq", "lt", "gt", "lte", "gte", "and", "or", "add", "sub", "mul", "div", "in", "empty", "has", "exists", "rx"}

func isBoolOp(op string) bool {
	switch op {
	case "add", "sub", "mul", "div":
		return false
	}
	return true
}

// operandsFor returns left and right operand specs suitable for op.
func operandFor(op string, side int, r *rand.Rand) *jpref.Eq {
	switch op {
	case "and", "or":
		return []*jpref.Eq{jpspec.P(jpspec.At(), jpspec.Child("t")), jpspec.P(jpspec.At(), jpspec.Child("f")), jpspec.CBool(true), jpspec.CBool(false)}[r.Intn(4)]
	case "add", "sub", "mul", "div":
		return []*jpref.Eq{jpspec.P(jpspec.At(), jpspec.Child("i")), jpspec.P(jpspec.At(), jpspec.Child("j")), jpspec.CInt(int64(2 + r.Intn(5))), jpspec.CFloat(1.5)}[r.Intn(4)]
	case "in":
		if side == 1 {
			return jpspec.CList([]any{int64(1), int64(7), "abc", true})
		}
		return []*jpref.Eq{jpspec.P(jpspec.At(), jpspec.Child("i")), jpspec.CInt(1), jpspec.CStr("abc")}[r.Intn(3)]
	case "empty", "has", "exists":
		if side == 1 {
			return jpspec.CBool(r.Intn(2) == 0)
		}
		return []*jpref.Eq{jpspec.P(jpspec.At(), jpspec.Child("s")), jpspec.P(jpspec.At(), jpspec.Child("zz")), jpspec.P(jpspec.At(), jpspec.Child("e"))}[r.Intn(3)]
	case "rx":
		if side == 1 {
			return jpspec.CRegex([]string{"^a", "b/c", "a.c"}[r.Intn(3)])
		}
		return []*jpref.Eq{jpspec.P(jpspec.At(), jpspec.Child("s")), jpspec.CStr("abc")}[r.Intn(2)]
	}
	return []*jpref.Eq{jpspec.P(jpspec.At(), jpspec.Child("i")), jpspec.P(jpspec.At(), jpspec.Child("j")), jpspec.P(jpspec.At(), jpspec.Child("s")), jpspec.CInt(int64(r.Intn(9))), jpspec.CStr("abc"), jpspec.CFloat(2.5), jpspec.CNil(), jpspec.P(jpspec.At(), jpspec.Child("zz"))}[r.Intn(8)]
}

func eqElems() []any {
	var out []any
	for _, t := range []bool{true, false} {
		for _, f := range []bool{true, false} {
			for _, i := range []int64{1, 7} {
				out = append(out, map[string]any{"t": t, "f": f, "i": i, "j": int64(3), "s": "abc", "e": "", "k": []any{int64(1), int64(2)}})
			}
		}
	}
	out = append(out, map[string]any{}, map[string]any{"t": true, "f": false, "i": 2.5, "j": int64(-2), "s": "b/c"})
	return out
}

func run(c *mon.Ctx) {
	ck := &checker{c: c}
	r := c.Rand("c14")
	// (1) keys: every single byte
	for b := 0; b < 256; b++ {
		if !c.Mine(b) {
			continue
		}
		bs := string([]byte{byte(b)})
		// the byte alone, inside and in front of plain text, and next to a second character that needs an
		// escape of its own (two \uXXXX escapes, a \u escape beside a short one, beside a quote)
		for _, k := range []string{bs, "a" + bs + "b", bs + "ref", bs + "\x02", "\x01" + bs, bs + "\u2028", "\x7f" + bs + "\x1f", bs + "\\", bs + "'\n"} {
			c.Cover("key-bytes")
			c.DistinctEnum(5)
			ck.lossy = !utf8.ValidString(k)
			d := keyData(k)
			ck.path(jpref.Path{jpspec.Child(k)}, "key-first", d)
			ck.path(jpref.Path{jpspec.Root(), jpspec.Child(k)}, "key-afterroot", d)
			ck.path(jpref.Path{jpspec.Root(), jpspec.Child("x"), jpspec.Child(k), jpspec.Nth(0)}, "key-middle", d)
			ck.path(jpref.Path{jpspec.Root(), jpspec.Descent(), jpspec.Child(k)}, "key-afterdescent", d)
			ck.path(jpref.Path{jpspec.Root(), jpspec.Union(k, 1, "z")}, "union-key", d)
			// the key as a string constant in an equation
			e := jpspec.Bin("eq", jpspec.P(jpspec.At(), jpspec.Child("s")), jpspec.CStr(k))
			ck.equation(e, "const-string", []any{map[string]any{"s": k}, map[string]any{"s": fixStr(k)}, map[string]any{"s": "other"}})
		}
	}
	for i, k := range specialKeys {
		if !c.Mine(i) {
			continue
		}
		d := keyData(k)
		c.DistinctEnum(6)
		ck.lossy = !utf8.ValidString(k)
		ck.path(jpref.Path{jpspec.Child(k)}, "special-first", d)
		ck.path(jpref.Path{jpspec.Root(), jpspec.Child(k)}, "special-afterroot", d)
		ck.path(jpref.Path{jpspec.Root(), jpspec.Descent(), jpspec.Child(k)}, "special-afterdescent", d)
		ck.path(jpref.Path{jpspec.Root(), jpspec.Wild(), jpspec.Child(k), jpspec.Wild()}, "special-middle", d)
		ck.path(jpref.Path{jpspec.Root(), jpspec.Union(k, "b")}, "special-union", d)
		ck.path(jpref.Path{jpspec.At(), jpspec.Child(k), jpspec.Filter(jpspec.Bin("eq", jpspec.P(jpspec.At(), jpspec.Child(k)), jpspec.CStr(k)))}, "special-in-filter", d)
	}
	ck.lossy = false
	// (2) slices: every subset of bounds incl. sentinels
	arr := []any{int64(0), int64(1), int64(2), int64(3), int64(4)}
	sdata := []any{arr, map[string]any{"a": arr}, []any{arr, arr}}
	si := 0
	for _, s0 := range []int{-2, 0, 1} {
		for _, e0 := range []int{-1, 0, 3, 1<<31 - 1} {
			for _, st := range []int{-1, 0, 1, 2} {
				si++
				if !c.Mine(si) {
					continue
				}
				c.Cover("slices")
				c.DistinctEnum(4)
				for _, sl := range [][]int{{}, {s0}, {s0, e0}, {s0, e0, st}} {
					ck.path(jpref.Path{jpspec.Root(), jpspec.Slice(sl...)}, "slice-last", sdata)
					ck.path(jpref.Path{jpspec.Root(), jpspec.Child("a"), jpspec.Slice(sl...), jpspec.Wild()}, "slice-inner", sdata)
				}
			}
		}
	}
	// (2') indexes, union members and slice members at and near the int limits
	for _, a := range jpspec.ExtremeInts {
		si++
		if !c.Mine(si) {
			continue
		}
		c.Cover("extreme-magnitudes")
		ck.path(jpref.Path{jpspec.Root(), jpspec.Nth(a)}, "extreme-nth", sdata)
		ck.path(jpref.Path{jpspec.Root(), jpspec.Child("a"), jpspec.Nth(a), jpspec.Nth(0)}, "extreme-nth", sdata)
		ck.path(jpref.Path{jpspec.Root(), jpspec.Union(a, 0, "a")}, "extreme-union", sdata)
	}
	// two and three descents in a row, at the start, in the middle and at the end of a path
	for _, pth := range []jpref.Path{
		{jpspec.Root(), jpspec.Descent(), jpspec.Descent()},
		{jpspec.Root(), jpspec.Descent(), jpspec.Descent(), jpspec.Child("a")},
		{jpspec.Root(), jpspec.Descent(), jpspec.Descent(), jpspec.Nth(0)},
		{jpspec.Root(), jpspec.Descent(), jpspec.Descent(), jpspec.Descent(), jpspec.Wild()},
		{jpspec.Root(), jpspec.Child("a"), jpspec.Descent(), jpspec.Descent(), jpspec.Nth(1)},
		{jpspec.Descent(), jpspec.Descent()},
		{jpspec.At(), jpspec.Descent(), jpspec.Child("a"), jpspec.Descent(), jpspec.Descent()},
	} {
		si++
		if !c.Mine(si) {
			continue
		}
		c.Cover("adjacent-descents")
		ck.path(pth, "adjacent-descents", sdata)
	}
	// slices with more members than start, end and step (constructible as jp.Slice{...}): the surplus is
	// not printed, the text must still parse
	for _, sl := range [][]int{{1, 8, 2, 4}, {0, 3, 1, 0, 0}, {-1, 0, -1, 7}} {
		si++
		if !c.Mine(si) {
			continue
		}
		c.Cover("slices")
		ck.path(jpref.Path{jpspec.Root(), jpspec.Slice(sl...)}, "slice-surplus-members", sdata)
		ck.path(jpref.Path{jpspec.Root(), jpspec.Child("a"), jpspec.Slice(sl...), jpspec.Wild()}, "slice-surplus-members", sdata)
	}
	for _, sl := range jpspec.ExtremeSlices() {
		si++
		if !c.Mine(si) {
			continue
		}
		c.Cover("extreme-magnitudes")
		ck.path(jpref.Path{jpspec.Root(), jpspec.Slice(sl...)}, "extreme-slice", sdata)
		ck.path(jpref.Path{jpspec.Root(), jpspec.Child("a"), jpspec.Slice(sl...), jpspec.Wild()}, "extreme-slice", sdata)
	}
	// (3) operator pair matrix in both nestings
	elems := eqElems()
	pi := 0
	for _, o1 := range binOps {
		for _, o2 := range binOps {
			pi++
			if !c.Mine(pi) {
				continue
			}
			for rep := 0; rep < 3; rep++ {
				// (a o1 b) o2 c : the inner result must fit o2's left side
				inner := jpspec.Bin(o1, operandFor(o1, 0, r), operandFor(o1, 1, r))
				var left *jpref.Eq
				if okAsOperand(o1, o2) {
					left = jpspec.Bin(o2, inner, operandFor(o2, 1, r))
					c.Cover("pair:" + o1 + "/" + o2 + "/left")
					c.DistinctEnum(1)
					ck.equation(wrapBool(left, o2), "pair-left/"+o1+"/"+o2, elems)
				}
				inner2 := jpspec.Bin(o2, operandFor(o2, 0, r), operandFor(o2, 1, r))
				if okAsOperandRight(o2, o1) {
					right := jpspec.Bin(o1, operandFor(o1, 0, r), inner2)
					c.Cover("pair:" + o1 + "/" + o2 + "/right")
					c.DistinctEnum(1)
					ck.equation(wrapBool(right, o1), "pair-right/"+o1+"/"+o2, elems)
				}
				// unary not over each
				if isBoolOp(o1) {
					n := &jpref.Eq{Op: "not", L: inner}
					ck.equation(n, "not/"+o1, elems)
					ck.equation(jpspec.Bin("and", n, jpspec.P(jpspec.At(), jpspec.Child("t"))), "not-then-and/"+o1, elems)
					ck.equation(jpspec.Bin("or", jpspec.P(jpspec.At(), jpspec.Child("f")), n), "or-then-not/"+o1, elems)
				}
			}
		}
	}
	// functions
	if c.Batch == 0 {
		for _, e := range []*jpref.Eq{
			jpspec.Bin("eq", &jpref.Eq{Op: "length", L: jpspec.P(jpspec.At(), jpspec.Child("s"))}, jpspec.CInt(3)),
			jpspec.Bin("gt", &jpref.Eq{Op: "count", L: jpspec.P(jpspec.At(), jpspec.Child("k"), jpspec.Wild())}, jpspec.CInt(1)),
			jpspec.Bin("match", jpspec.P(jpspec.At(), jpspec.Child("s")), jpspec.CStr("a.c")),
			jpspec.Bin("search", jpspec.P(jpspec.At(), jpspec.Child("s")), jpspec.CStr("b")),
			jpspec.Bin("eq", jpspec.P(jpspec.At(), jpspec.Child("s")), jpspec.CStr("it's \"q\" \\ /x/ \n\t é")),
			jpspec.Bin("rx", jpspec.P(jpspec.At(), jpspec.Child("s")), jpspec.CRegex("a/b\\/c")),
			// slashes next to backslashes: an escaped backslash directly before a plain slash, a lone slash,
			// a slash in a class
			jpspec.Bin("rx", jpspec.P(jpspec.At(), jpspec.Child("s")), jpspec.CRegex("a\\\\/b")),
			jpspec.Bin("rx", jpspec.P(jpspec.At(), jpspec.Child("s")), jpspec.CRegex("/")),
			jpspec.Bin("rx", jpspec.P(jpspec.At(), jpspec.Child("s")), jpspec.CRegex("[/]x\\\\")),
			jpspec.Bin("rx", jpspec.P(jpspec.At(), jpspec.Child("s")), jpspec.CRegex("\\\\\\/")),
			jpspec.Bin("eq", jpspec.P(jpspec.Root(), jpspec.Child("s")), jpspec.P(jpspec.At(), jpspec.Child("s"))),
			jpspec.Bin("exists", jpspec.P(jpspec.At(), jpspec.Child("k"), jpspec.Filter(jpspec.Bin("gt", jpspec.P(jpspec.At()), jpspec.CInt(1)))), jpspec.CBool(true)),
			jpspec.Bin("eq", jpspec.P(jpspec.At(), jpspec.Child("zz")), jpspec.CNothing()),
			jpspec.Bin("in", jpspec.P(jpspec.At(), jpspec.Child("i")), jpspec.CList([]any{int64(1), "a'b", nil, true, 2.5, []any{int64(1)}})),
			// unary not over functions and bare paths, binary operations as function arguments
			{Op: "not", L: jpspec.Bin("match", jpspec.P(jpspec.At(), jpspec.Child("s")), jpspec.CStr("a.c"))},
			{Op: "not", L: jpspec.Bin("search", jpspec.P(jpspec.At(), jpspec.Child("s")), jpspec.CStr("b"))},
			jpspec.Bin("and", &jpref.Eq{Op: "not", L: jpspec.Bin("match", jpspec.P(jpspec.At(), jpspec.Child("s")), jpspec.CStr("zzz"))}, jpspec.Bin("eq", jpspec.P(jpspec.At(), jpspec.Child("t")), jpspec.CBool(true))),
			jpspec.Bin("match", jpspec.Bin("add", jpspec.P(jpspec.At(), jpspec.Child("s")), jpspec.CStr("x")), jpspec.CStr("abcx")),
			jpspec.Bin("search", jpspec.Bin("add", jpspec.CStr("q"), jpspec.P(jpspec.At(), jpspec.Child("s"))), jpspec.CStr("qa")),
			jpspec.Bin("and", &jpref.Eq{Op: "not", L: jpspec.P(jpspec.At(), jpspec.Child("t"))}, jpspec.P(jpspec.At(), jpspec.Child("f"))),
			jpspec.Bin("or", &jpref.Eq{Op: "not", L: jpspec.P(jpspec.At(), jpspec.Child("f"))}, jpspec.Bin("eq", jpspec.P(jpspec.At(), jpspec.Child("i")), jpspec.CInt(1))),
			jpspec.Bin("eq", &jpref.Eq{Op: "length", L: jpspec.P(jpspec.At(), jpspec.Child("s"))}, jpspec.Bin("add", jpspec.CInt(1), jpspec.CInt(2))),
			{Op: "not", L: jpspec.Bin("eq", &jpref.Eq{Op: "length", L: jpspec.P(jpspec.At(), jpspec.Child("s"))}, jpspec.CInt(3))},
		} {
			ck.equation(e, "function-or-constant", elems)
		}
	}
	// (4) random paths and equations
	g := &jpspec.Gen{R: r, Keys: []string{"a", "b c", "x.y", "", "k", "it's"}}
	battery := []any{}
	for i := 0; i < 12; i++ {
		g.ResetLeaves()
		battery = append(battery, g.Tree(3))
	}
	n := c.Pick(480000, 4800000) / c.Batches
	for i := 0; i < n; i++ {
		p := g.Path(1+r.Intn(5), jpspec.AllKinds, true)
		if i%7 == 0 {
			p = append(jpref.Path{jpspec.At()}, p...)
			if p[1].Kind == "root" || p[1].Kind == "at" {
				p = p[1:]
			}
		}
		for fi := range p {
			if p[fi].Kind == "union" && len(p[fi].Union) < 2 {
				// a one-member union prints like a child / index fragment and is read back as one
				p[fi].Union = append(p[fi].Union, "zz")
			}
		}
		c.Cover("random-paths")
		c.Distinct("p", p.String())
		ck.path(p, "random", battery)
	}
	tg := &eqGen{r: r}
	for i := 0; i < n; i++ {
		e := tg.boolean(1 + r.Intn(3))
		c.Cover("random-equations")
		c.Distinct("e", e.String())
		ck.equation(e, "random/"+e.Op, elems)
	}
	if c.WantSample() {
		c.Sample(map[string]any{"path_spec": "$..[\"it's\"][1:3]", "equation_spec": "((@.i add 2) lt (@.j mul 3)) or !(@.t)"})
	}
}

// okAsOperand: an (a o1 b) result can be the LEFT operand of o2.
func okAsOperand(inner, outer string) bool {
	switch outer {
	case "and", "or":
		return isBoolOp(inner)
	case "add", "sub", "mul", "div", "lt", "gt", "lte", "gte":
		return !isBoolOp(inner)
	case "eq", "neq":
		return true
	case "in", "exists", "has":
		return true
	}
	return false
}

// okAsOperandRight: an (a o2 b) result can be the RIGHT operand of o1.
func okAsOperandRight(inner, outer string) bool {
	switch outer {
	case "and", "or":
		return isBoolOp(inner)
	case "add", "sub", "mul", "div", "lt", "gt", "lte", "gte":
		return !isBoolOp(inner)
	case "eq", "neq":
		return true
	}
	return false
}

// wrapBool turns an arithmetic top into a comparison so that it has a truth value.
func wrapBool(e *jpref.Eq, top string) *jpref.Eq {
	if isBoolOp(top) {
		return e
	}
	return jpspec.Bin("gt", e, jpspec.CInt(4))
}

type eqGen struct{ r *rand.Rand }

func (g *eqGen) num(depth int) *jpref.Eq {
	if depth > 0 && g.r.Intn(2) == 0 {
		return jpspec.Bin([]string{"add", "sub", "mul", "div"}[g.r.Intn(4)], g.num(depth-1), g.num(depth-1))
	}
	return []*jpref.Eq{jpspec.P(jpspec.At(), jpspec.Child("i")), jpspec.P(jpspec.At(), jpspec.Child("j")), jpspec.CInt(int64(1 + g.r.Intn(6))), jpspec.CFloat(1.5), jpspec.CFloat(2.25)}[g.r.Intn(5)]
}

func (g *eqGen) boolean(depth int) *jpref.Eq {
	if depth > 0 {
		switch g.r.Intn(4) {
		case 0:
			return jpspec.Bin("and", g.boolean(depth-1), g.boolean(depth-1))
		case 1:
			return jpspec.Bin("or", g.boolean(depth-1), g.boolean(depth-1))
		case 2:
			return &jpref.Eq{Op: "not", L: g.boolean(depth - 1)}
		}
	}
	switch g.r.Intn(8) {
	case 0:
		return jpspec.Bin("eq", jpspec.P(jpspec.At(), jpspec.Child([]string{"t", "f"}[g.r.Intn(2)])), jpspec.CBool(true))
	case 1:
		return jpspec.Bin("exists", jpspec.P(jpspec.At(), jpspec.Child([]string{"s", "zz"}[g.r.Intn(2)])), jpspec.CBool(g.r.Intn(2) == 0))
	case 2:
		return jpspec.Bin("in", jpspec.P(jpspec.At(), jpspec.Child("i")), jpspec.CList([]any{int64(1), "abc"}))
	case 3:
		return jpspec.Bin("rx", jpspec.P(jpspec.At(), jpspec.Child("s")), jpspec.CRegex("^a"))
	default:
		return jpspec.Bin([]string{"eq", "neq", "lt", "gt", "lte", "gte"}[g.r.Intn(6)], g.num(2), g.num(2))
	}
}
