// Package c19: Diff, Compare and Match report exactly the real differences.
// Oracle: the reference structural diff (documented equalities: numeric
// width, nil == absent member), soundness and completeness of the returned
// paths under ignore paths, Compare/Diff consistency, reference Match.
package c19

import (
	"fmt"
	"math"
	"math/rand"
	"sort"
	"strings"

	"github.com/ohler55/ojg/alt"
	"github.com/ohler55/ojg/gen"

	"verif/gen/treegen"
	"verif/mon"
)

func init() {
	mon.Register(&mon.Prop{
		ID:      "C19",
		Batches: func(tier string) int { return map[string]int{"quick": 16, "thorough": 48}[tier] },
		Run:     run,
		Rule: "cases: pairs (tree, perturbed copy): every single-point perturbation (change scalar, change kind, delete member, add member, nil a member, truncate / extend array) of each generated tree, 2-5 point perturbations, unrelated pairs, identical pairs and numeric-width variants (every signed and unsigned width, uint64 leaves above MaxInt64 equal or differing by one); " +
			"ignore sets: none, a path at / above / below / beside a difference, wildcard elements, several paths through different indexes of one array, several paths of any kind preceded by decoy paths beside them; simple and gen pairs; fingerprints for Match: sub-trees of the target, perturbed sub-trees, explicit nils. " +
			"Checked: Diff empty iff the reference diff (minus ignored locations) is empty, every returned path is a genuine difference location (soundness), every differing location is covered by a returned path or an ignore path (completeness), Compare nil iff Diff empty and among Diff's paths, Match equals the reference. " +
			"also uint64 leaves above MaxInt64 against the negative int64 with the same bit pattern (different numbers). non-trivial: the pair differs in at least one location or carries an ignore path; distinct by digest of (a, b, ignores)",
		Assumptions: []string{
			"int-versus-float comparisons are don't-care (the statement speaks of numeric width, not kind); such pairs are not generated",
			"when two arrays differ in length every index from min(len) up is a difference location; a returned path prefix+[i] with i >= min(len) covers all of them (Diff reports the first surplus index and stops)",
			"a nil object member and an absent member are equal",
		},
		Findings: map[string]func(v *mon.Violation) bool{},
		Floors: func(tier string, cover map[string]int64, evals int64) []string {
			var out []string
			for _, k := range []string{"pair:identical", "pair:single-point", "pair:multi-point", "pair:unrelated", "pair:width-variant", "pair:gen", "ignore:none", "ignore:at", "ignore:above", "ignore:below", "ignore:beside", "ignore:wildcard", "ignore:several-indexes", "ignore:several-mixed", "match:subtree", "match:perturbed", "match:explicit-nil", "soundness-checks", "completeness-checks"} {
				if cover[k] == 0 {
					out = append(out, "coverage class never reached: "+k)
				}
			}
			return out
		},
	})
}

type loc []any

func cat(a loc, b any) loc { return append(append(loc{}, a...), b) }

func lk(l []any) string {
	var b strings.Builder
	for _, e := range l {
		fmt.Fprintf(&b, "/%v", e)
	}
	return b.String()
}

type delta struct {
	mixed bool  // an int was compared with a float somewhere: don't-care
	leaf  []loc // locations where kind or scalar value differs (the diff stops there)
	// surplus: arrays of different length: prefix and min length
	surplus []struct {
		pre loc
		min int
		max int
	}
}

func asInt(v any) (int64, bool) {
	switch t := v.(type) {
	case int:
		return int64(t), true
	case int8:
		return int64(t), true
	case int16:
		return int64(t), true
	case int32:
		return int64(t), true
	case int64:
		return t, true
	case uint8:
		return int64(t), true
	case uint16:
		return int64(t), true
	case uint32:
		return int64(t), true
	case uint:
		return int64(t), true
	case uint64:
		// (the generator uses values above MaxInt64 only as the same leaf on both sides or against another
		// such value: two's complement keeps both "equal" and "different" right for those)
		return int64(t), true
	}
	return 0, false
}

// beyondInt64 tells the unsigned values above MaxInt64 from everything else: asInt keeps their bits, so two
// values are the same number iff the bits agree and both or neither lie beyond the int64 range.
func beyondInt64(v any) bool {
	switch t := v.(type) {
	case uint64:
		return t > math.MaxInt64
	case uint:
		return uint64(t) > math.MaxInt64
	}
	return false
}

func asFloat(v any) (float64, bool) {
	switch t := v.(type) {
	case float32:
		return float64(t), true
	case float64:
		return t, true
	}
	return 0, false
}

func refDiff(a, b any, pre loc, d *delta) {
	switch ta := a.(type) {
	case []any:
		tb, ok := b.([]any)
		if !ok {
			d.leaf = append(d.leaf, pre)
			return
		}
		n, m := len(ta), len(tb)
		if m < n {
			n, m = m, n
		}
		for i := 0; i < n; i++ {
			refDiff(ta[i], tb[i], cat(pre, i), d)
		}
		if len(ta) != len(tb) {
			d.surplus = append(d.surplus, struct {
				pre loc
				min int
				max int
			}{pre, n, m})
		}
	case map[string]any:
		tb, ok := b.(map[string]any)
		if !ok {
			d.leaf = append(d.leaf, pre)
			return
		}
		keys := map[string]bool{}
		for k := range ta {
			keys[k] = true
		}
		for k := range tb {
			keys[k] = true
		}
		for k := range keys {
			refDiff(ta[k], tb[k], cat(pre, k), d) // absent == nil
		}
	default:
		switch b.(type) {
		case []any, map[string]any:
			d.leaf = append(d.leaf, pre)
			return
		}
		if ia, ok := asInt(a); ok {
			if ib, ok2 := asInt(b); ok2 {
				if ia != ib || beyondInt64(a) != beyondInt64(b) {
					d.leaf = append(d.leaf, pre)
				}
				return
			}
			if _, isF := asFloat(b); isF {
				d.mixed = true
			}
		}
		if _, ok := asFloat(a); ok {
			if _, isI := asInt(b); isI {
				d.mixed = true
			}
		}
		if fa, ok := asFloat(a); ok {
			if fb, ok2 := asFloat(b); ok2 {
				if fa != fb {
					d.leaf = append(d.leaf, pre)
				}
				return
			}
		}
		if a != b {
			d.leaf = append(d.leaf, pre)
		}
	}
}

// ignored: a location is covered by an ignore path (nil element = wildcard).
func ignored(l loc, ignores []alt.Path) bool {
	for _, ig := range ignores {
		if len(ig) <= len(l) {
			ok := true
			for i, e := range ig {
				if e != nil && e != l[i] {
					ok = false
				}
			}
			if ok {
				return true
			}
		}
	}
	return false
}

func perturb(r *rand.Rand, v any, kind *string) any {
	switch t := v.(type) {
	case []any:
		if len(t) > 0 && r.Intn(3) > 0 {
			i := r.Intn(len(t))
			t[i] = perturb(r, t[i], kind)
			return t
		}
		switch r.Intn(3) {
		case 0:
			*kind = "extend"
			return append(t, int64(99))
		case 1:
			if len(t) > 0 {
				*kind = "truncate"
				return t[:len(t)-1]
			}
		}
		*kind = "kind"
		return "changed"
	case map[string]any:
		if len(t) > 0 && r.Intn(3) > 0 {
			keys := make([]string, 0, len(t))
			for k := range t {
				keys = append(keys, k)
			}
			sort.Strings(keys)
			k := keys[r.Intn(len(keys))]
			t[k] = perturb(r, t[k], kind)
			return t
		}
		switch r.Intn(4) {
		case 0:
			*kind = "add-member"
			t["zz"] = int64(1)
			return t
		case 1:
			for k := range t {
				*kind = "delete-member"
				delete(t, k)
				break
			}
			return t
		case 2:
			for k := range t {
				*kind = "nil-member"
				t[k] = nil
				break
			}
			return t
		}
		*kind = "kind"
		return int64(-1)
	case nil:
		*kind = "scalar"
		return int64(5)
	case int64:
		*kind = "scalar"
		return t + 100
	case string:
		*kind = "scalar"
		return t + "x"
	case bool:
		*kind = "scalar"
		return !t
	default:
		*kind = "kind"
		return nil
	}
}

func toGen(v any) gen.Node {
	switch t := v.(type) {
	case nil:
		return nil
	case bool:
		return gen.Bool(t)
	case int64:
		return gen.Int(t)
	case float64:
		return gen.Float(t)
	case string:
		return gen.String(t)
	case []any:
		a := make(gen.Array, len(t))
		for i, e := range t {
			a[i] = toGen(e)
		}
		return a
	case map[string]any:
		o := make(gen.Object, len(t))
		for k, e := range t {
			o[k] = toGen(e)
		}
		return o
	}
	return nil
}

func genOK(v any) bool {
	switch t := v.(type) {
	case nil, bool, int64, float64, string:
		return true
	case []any:
		for _, e := range t {
			if !genOK(e) {
				return false
			}
		}
		return true
	case map[string]any:
		for _, e := range t {
			if !genOK(e) {
				return false
			}
		}
		return true
	}
	return false
}

func clip(s string) string {
	if len(s) > 300 {
		return s[:300] + "…"
	}
	return s
}

func strip(p alt.Path) loc {
	out := loc{}
	for _, e := range p {
		if e != nil {
			out = append(out, e)
		}
	}
	return out
}

func isPrefix(p, q loc) bool {
	if len(p) > len(q) {
		return false
	}
	for i := range p {
		if p[i] != q[i] {
			return false
		}
	}
	return true
}

type checker struct{ c *mon.Ctx }

type sur struct {
	pre      loc
	min, max int
	live     []int
}

func (ck *checker) pair(a, b any, ignores []alt.Path, label string) {
	c := ck.c
	cs := map[string]any{"a": clip(treegen.Show(a)), "b": clip(treegen.Show(b)), "ignores": fmt.Sprint(ignores)}
	c.Begin("alt.Diff", cs)
	var d delta
	refDiff(a, b, loc{}, &d)
	if d.mixed {
		c.Cover("skipped:int-vs-float")
		return
	}
	// expected non-ignored difference locations
	var want []loc
	for _, l := range d.leaf {
		if !ignored(l, ignores) {
			want = append(want, l)
		}
	}
	var surs []sur
	for _, s := range d.surplus {
		var live []int
		for i := s.min; i < s.max; i++ {
			if !ignored(cat(s.pre, i), ignores) {
				live = append(live, i)
			}
		}
		if len(live) > 0 {
			surs = append(surs, sur{s.pre, s.min, s.max, live})
		}
	}
	differs := len(want) > 0 || len(surs) > 0
	if differs || len(ignores) > 0 {
		c.Distinct(treegen.Show(a), treegen.Show(b), fmt.Sprint(ignores))
	}
	if c.WantSample() && differs && len(ignores) > 0 {
		c.Sample(cs)
	}
	var diffs []alt.Path
	var cmp alt.Path
	if pn := mon.Guard(func() { diffs = alt.Diff(a, b, ignores...); cmp = alt.Compare(a, b, ignores...) }); pn != nil {
		c.Violation("alt.Diff", "panic", mon.FaultClass(pn.Msg), cs, "paths", pn.String())
		return
	}
	c.Eval(2)
	cs["diff"] = fmt.Sprint(diffs)
	if (len(diffs) == 0) == differs {
		exp := "no paths (equal up to numeric width and nil/absent)"
		if differs {
			exp = fmt.Sprintf("paths for %d difference locations, e.g. %v", len(want)+len(surs), firstLoc(want, surs))
		}
		c.Violation("alt.Diff", "emptiness", label, cs, exp, fmt.Sprint(diffs))
		return
	}
	// soundness
	for _, p := range diffs {
		c.Cover("soundness-checks")
		q := strip(p)
		ok := false
		for _, w := range want {
			if lk(w) == lk(q) {
				ok = true
			}
		}
		for _, s := range surs {
			if len(q) == len(s.pre)+1 && isPrefix(s.pre, q) {
				if i, isInt := q[len(q)-1].(int); isInt && i >= s.min && i < s.max {
					ok = true
				}
			}
		}
		if !ok {
			c.Violation("alt.Diff", "unsound-path", label, cs, fmt.Sprintf("only genuine difference locations %v", append(locStrings(want), surStrings(surs)...)), fmt.Sprint(q))
			return
		}
	}
	// completeness
	covered := func(q loc) bool {
		for _, p := range diffs {
			if isPrefix(strip(p), q) {
				return true
			}
		}
		return false
	}
	for _, w := range want {
		c.Cover("completeness-checks")
		if !covered(w) {
			c.Violation("alt.Diff", "missed-difference", label, cs, fmt.Sprint("a path at or above ", w), fmt.Sprint(diffs))
			return
		}
	}
	for _, s := range surs {
		ok := false
		for _, p := range diffs {
			q := strip(p)
			if len(q) == len(s.pre)+1 && isPrefix(s.pre, q) {
				if i, isInt := q[len(q)-1].(int); isInt && i >= s.min && i <= s.live[0] {
					ok = true
				}
			}
			if isPrefix(q, s.pre) {
				ok = true
			}
		}
		if !ok {
			c.Violation("alt.Diff", "missed-length-difference", label, cs, fmt.Sprintf("a path %v[%d..%d]", s.pre, s.min, s.live[0]), fmt.Sprint(diffs))
			return
		}
	}
	// Compare
	if (cmp == nil) != (len(diffs) == 0) {
		c.Violation("alt.Compare", "nilness-differs-from-Diff", label, cs, fmt.Sprint("Diff: ", diffs), fmt.Sprint(cmp))
		return
	}
	if cmp != nil {
		found := false
		for _, p := range diffs {
			if lk(strip(p)) == lk(strip(cmp)) {
				found = true
			}
		}
		if !found {
			c.Violation("alt.Compare", "not-among-Diff-paths", label, cs, fmt.Sprint(diffs), fmt.Sprint(cmp))
		}
	}
}

func firstLoc(want []loc, surs []sur) string {
	if len(want) > 0 {
		return fmt.Sprint(want[0])
	}
	return fmt.Sprint(surs[0].pre, "[", surs[0].live[0], "]")
}

func locStrings(ls []loc) []string {
	out := make([]string, len(ls))
	for i, l := range ls {
		out[i] = fmt.Sprint(l)
	}
	return out
}

func surStrings(ss []sur) []string {
	out := make([]string, len(ss))
	for i, s := range ss {
		out[i] = fmt.Sprintf("%v[%d..%d)", s.pre, s.min, s.max)
	}
	return out
}

// refMatch: every member of the fingerprint is matched in the target.
func refMatch(f, t any) bool {
	switch tf := f.(type) {
	case nil:
		return t == nil
	case []any:
		tt, ok := t.([]any)
		if !ok || len(tt) != len(tf) {
			return false
		}
		for i := range tf {
			if !refMatch(tf[i], tt[i]) {
				return false
			}
		}
		return true
	case map[string]any:
		tt, ok := t.(map[string]any)
		if !ok {
			return false
		}
		for k, v := range tf {
			if !refMatch(v, tt[k]) {
				return false
			}
		}
		return true
	}
	if ia, ok := asInt(f); ok {
		ib, ok2 := asInt(t)
		return ok2 && ia == ib && beyondInt64(f) == beyondInt64(t)
	}
	if fa, ok := asFloat(f); ok {
		fb, ok2 := asFloat(t)
		return ok2 && fa == fb
	}
	switch t.(type) {
	case []any, map[string]any:
		return false
	}
	return f == t
}

// subFingerprint: a sub-tree of the target (members dropped at random).
func subFingerprint(r *rand.Rand, t any) any {
	switch tt := t.(type) {
	case []any:
		out := make([]any, len(tt))
		for i, e := range tt {
			out[i] = subFingerprint(r, e)
		}
		return out
	case map[string]any:
		out := map[string]any{}
		for k, e := range tt {
			if r.Intn(3) != 0 {
				out[k] = subFingerprint(r, e)
			}
		}
		return out
	}
	return t
}

// hugeLeaves replaces some positive int64 leaves by uint64 values above MaxInt64.
func hugeLeaves(r *rand.Rand, v any) any {
	switch t := v.(type) {
	case int64:
		if t > 0 && r.Intn(2) == 0 {
			return uint64(1<<63) + uint64(t)
		}
	case []any:
		for i, e := range t {
			t[i] = hugeLeaves(r, e)
		}
	case map[string]any:
		for k, e := range t {
			t[k] = hugeLeaves(r, e)
		}
	}
	return v
}

// bumpHuge adds one to some of the uint64 leaves.
func bumpHuge(r *rand.Rand, v any) any {
	switch t := v.(type) {
	case uint64:
		if r.Intn(2) == 0 {
			return t + 1
		}
	case []any:
		for i, e := range t {
			t[i] = bumpHuge(r, e)
		}
	case map[string]any:
		for k, e := range t {
			t[k] = bumpHuge(r, e)
		}
	}
	return v
}

// wrapHuge replaces some of the uint64 leaves above MaxInt64 by the int64 that has the same bits.
func wrapHuge(r *rand.Rand, v any) any {
	switch t := v.(type) {
	case uint64:
		if t > math.MaxInt64 && r.Intn(2) == 0 {
			return int64(t)
		}
	case []any:
		for i, e := range t {
			t[i] = wrapHuge(r, e)
		}
	case map[string]any:
		for k, e := range t {
			t[k] = wrapHuge(r, e)
		}
	}
	return v
}

func widen(r *rand.Rand, v any) any {
	switch t := v.(type) {
	case int64:
		if t > -100 && t < 100 {
			switch r.Intn(9) {
			case 0:
				return int(t)
			case 1:
				return int8(t)
			case 2:
				return int32(t)
			case 3:
				return int16(t)
			}
			if t >= 0 {
				switch r.Intn(6) {
				case 0:
					return uint8(t)
				case 1:
					return uint16(t)
				case 2:
					return uint32(t)
				case 3:
					return uint(t)
				case 4:
					return uint64(t)
				}
			}
		}
		return t
	case float64:
		if float64(float32(t)) == t && r.Intn(2) == 0 {
			return float32(t)
		}
		return t
	case []any:
		out := make([]any, len(t))
		for i, e := range t {
			out[i] = widen(r, e)
		}
		return out
	case map[string]any:
		out := map[string]any{}
		for k, e := range t {
			out[k] = widen(r, e)
		}
		return out
	}
	return v
}

func run(c *mon.Ctx) {
	ck := &checker{c: c}
	r := c.Rand("c19")
	cfg := &treegen.Cfg{MaxDepth: 3, MaxWidth: 4, Strings: func(r *rand.Rand) string { return []string{"s0", "s1", "s2", "", "x y"}[r.Intn(5)] }}
	n := c.Pick(2400000, 24000000) / c.Batches
	for i := 0; i < n; i++ {
		cfg.MaxDepth = 1 + r.Intn(4)
		a := cfg.Tree(r)
		a = noMixedNum(a)
		b := treegen.Dup(a)
		label := "identical"
		switch i % 8 {
		case 0:
		case 1, 2, 3:
			var kind string
			b = perturb(r, b, &kind)
			label = "single-point"
			c.Cover("perturbation:" + kind)
		case 4, 5:
			for k := 2 + r.Intn(4); k > 0; k-- {
				var kind string
				b = perturb(r, b, &kind)
			}
			label = "multi-point"
		case 6:
			b = noMixedNum(cfg.Tree(r))
			label = "unrelated"
		default:
			if r.Intn(3) == 0 {
				// ids and hashes: uint64 leaves above MaxInt64, the same on both sides or differing by one
				a = hugeLeaves(r, a)
				b = treegen.Dup(a)
				switch r.Intn(3) {
				case 0:
					b = bumpHuge(r, b)
				case 1:
					// the negative int64 with the same bit pattern: a different number
					b = wrapHuge(r, b)
				}
			}
			b = widen(r, b)
			a = widen(r, a)
			label = "width-variant"
		}
		c.Cover("pair:" + label)
		// ignore sets
		var d delta
		refDiff(a, b, loc{}, &d)
		var all []loc
		all = append(all, d.leaf...)
		for _, s := range d.surplus {
			for k := s.min; k < s.max; k++ {
				all = append(all, cat(s.pre, k))
			}
		}
		var ignores []alt.Path
		icls := "none"
		if len(all) > 0 && r.Intn(3) != 0 {
			dl := all[r.Intn(len(all))]
			switch r.Intn(9) {
			case 0:
				if len(dl) > 0 {
					ignores = append(ignores, toPath(dl))
					icls = "at"
				}
			case 7, 8:
				// several ignore paths of any kind, decoys first: a path beside each chosen location
				// (same parent, other member) precedes the real ones
				var real []alt.Path
				for _, l := range all {
					if len(l) > 0 && len(real) < 4 && r.Intn(2) == 0 {
						real = append(real, toPath(l))
					}
				}
				if len(real) == 0 && len(dl) > 0 {
					real = append(real, toPath(dl))
				}
				for _, p := range real {
					if r.Intn(2) == 0 {
						d := append(alt.Path{}, p...)
						switch t := d[len(d)-1].(type) {
						case int:
							d[len(d)-1] = t + 7
						case string:
							d[len(d)-1] = t + "_decoy"
						}
						ignores = append(ignores, d)
					}
				}
				ignores = append(ignores, real...)
				if len(ignores) >= 2 {
					icls = "several-mixed"
				} else if len(ignores) == 1 {
					icls = "at"
				}
			case 1:
				if len(dl) > 1 {
					ignores = append(ignores, toPath(dl[:len(dl)-1]))
					icls = "above"
				}
			case 2:
				if len(dl) > 0 {
					ignores = append(ignores, append(toPath(dl), "deeper"))
					icls = "below"
				}
			case 3:
				if len(dl) > 0 {
					p := toPath(dl)
					switch t := p[len(p)-1].(type) {
					case int:
						p[len(p)-1] = t + 1
					case string:
						p[len(p)-1] = t + "_other"
					}
					ignores = append(ignores, p)
					icls = "beside"
				}
			case 4:
				if len(dl) > 0 {
					p := toPath(dl)
					p[r.Intn(len(p))] = nil
					ignores = append(ignores, p)
					icls = "wildcard"
				}
			default:
				// several paths through different indexes of the same array
				for _, l := range all {
					if len(l) > 0 {
						if _, isInt := l[len(l)-1].(int); isInt && len(ignores) < 3 && r.Intn(2) == 0 {
							ignores = append(ignores, toPath(l))
						}
					}
				}
				if len(ignores) >= 2 {
					icls = "several-indexes"
				} else if len(ignores) == 1 {
					icls = "at"
				}
			}
		}
		c.Cover("ignore:" + icls)
		ck.pair(a, b, ignores, label+"/"+icls)
		// gen twin (same reference): convert both
		if i%4 == 0 && genOK(a) && genOK(b) {
			c.Cover("pair:gen")
			ck.genPair(a, b, ignores, label+"/"+icls)
		}
		// Match
		if i%3 == 0 {
			var f any
			mc := "subtree"
			switch r.Intn(3) {
			case 0:
				f = subFingerprint(r, a)
			case 1:
				var kind string
				f = perturb(r, subFingerprint(r, treegen.Dup(a)), &kind)
				mc = "perturbed"
			default:
				f = subFingerprint(r, treegen.Dup(a))
				if m, ok := f.(map[string]any); ok {
					m["absent_key"] = nil
					for k := range m {
						if r.Intn(3) == 0 {
							m[k] = nil
						}
					}
				}
				mc = "explicit-nil"
			}
			c.Cover("match:" + mc)
			var got bool
			csm := map[string]any{"fingerprint": clip(treegen.Show(f)), "target": clip(treegen.Show(a))}
			if pn := mon.Guard(func() { got = alt.Match(f, a) }); pn != nil {
				c.Violation("alt.Match", "panic", mon.FaultClass(pn.Msg), csm, "bool", pn.String())
			} else {
				c.Eval(1)
				if want := refMatch(f, a); got != want {
					c.Violation("alt.Match", "wrong-result", mc, csm, fmt.Sprint(want), fmt.Sprint(got))
				}
			}
		}
	}
}

func (ck *checker) genPair(a, b any, ignores []alt.Path, label string) {
	c := ck.c
	ga, gb := toGen(a), toGen(b)
	var gd, sd []alt.Path
	cs := map[string]any{"a": clip(treegen.Show(a)), "b": clip(treegen.Show(b)), "ignores": fmt.Sprint(ignores)}
	if pn := mon.Guard(func() { gd = alt.Diff(ga, gb, ignores...); sd = alt.Diff(a, b, ignores...) }); pn != nil {
		c.Violation("alt.Diff(gen)", "panic", mon.FaultClass(pn.Msg), cs, "paths", pn.String())
		return
	}
	c.Eval(1)
	norm := func(ps []alt.Path) string {
		out := make([]string, len(ps))
		for i, p := range ps {
			out[i] = lk(strip(p))
		}
		sort.Strings(out)
		return strings.Join(out, " ")
	}
	if (len(gd) == 0) != (len(sd) == 0) {
		c.Violation("alt.Diff(gen)", "emptiness-differs-from-simple", label, cs, norm(sd), norm(gd))
	}
}

func toPath(l loc) alt.Path {
	p := alt.Path{}
	for _, e := range l {
		p = append(p, e)
	}
	return p
}

// noMixedNum makes sure int and float leaves are not compared with each other
// after perturbation: floats get a fractional part, ints stay ints.
func noMixedNum(v any) any {
	switch t := v.(type) {
	case float64:
		if t == float64(int64(t)) {
			return t + 0.5
		}
		return t
	case []any:
		for i := range t {
			t[i] = noMixedNum(t[i])
		}
		return t
	case map[string]any:
		for k := range t {
			t[k] = noMixedNum(t[k])
		}
		return t
	}
	return v
}
