// Package c05: Expr.Get returns exactly the elements the path denotes.
// Oracle: the reference evaluator J (ref/jpref) - multiset of results and the
// partial order J defines for array traversal and union listing.
package c05

import (
	"fmt"
	"sort"
	"strings"

	"github.com/ohler55/ojg/gen"
	"github.com/ohler55/ojg/jp"

	"verif/gen/treegen"
	"verif/mon"
	"verif/props/decoders"
	"verif/props/jpspec"
	"verif/ref/jpref"
)

func init() {
	mon.Register(&mon.Prop{
		ID:      "C05",
		Batches: func(tier string) int { return map[string]int{"quick": 16, "thorough": 48}[tier] },
		Run:     run,
		Rule: "cases: (lattice) every slice with start,end in [-L-2,L+2] or omitted and step in [-3,3] or omitted, every Nth and every 1-2 member Union with indexes in [-L-2,L+2], on arrays of length L=0..5, as last fragment and followed by a child / index / wildcard fragment; " +
			"(random) paths of 1-6 fragments over unique-leaf trees with every fragment kind (root, current, child, index, wildcard, descent, union, slice, filter incl. nested filters) in every position. " +
			"Get's results are matched to J's located results (unique leaves) and checked as a multiset and against J's partial order (array traversal, union listing). " +
			"also slice bounds and steps, indexes and union members at and near the int limits, and nested filters whose own operand is rooted at the document. every case is also evaluated on the same data held as gen nodes (the multiset of selected values must agree). non-trivial: J selects at least one element or the path has a slice/filter/union/descent fragment; distinct: lattice points by construction, random cases by digest of (path, data)",
		Assumptions: []string{
			"slice arithmetic where the statement is silent is taken from ojg's own unit tests (DESIGN 4.3): step 0 selects nothing, start >= length selects nothing, results follow the walk direction",
			"order is constrained only between results whose locations first differ at an element taken from an array (or a union member) by the same fragment; map iteration order and ancestor/descendant order under a descent are unconstrained",
			"filters use equations whose value the operator documentation defines (the full operator matrix is C12)",
		},
		Findings: map[string]func(v *mon.Violation) bool{},
		Floors: func(tier string, cover map[string]int64, evals int64) []string {
			var out []string
			for _, k := range []string{"lattice:slice/last", "lattice:slice/inner", "lattice:nth", "lattice:union", "frag:descent/inner", "frag:filter/last", "frag:filter/inner", "frag:slice/inner", "frag:wild/inner", "frag:union/inner", "order-pairs-checked", "neg-step", "lattice:extreme-magnitudes"} {
				if cover[k] == 0 {
					out = append(out, "coverage class never reached: "+k)
				}
			}
			return out
		},
		Exhaustive: func(tier string) []string {
			return []string{"the slice lattice: L in 0..5, start/end in [-L-2, L+2] or omitted, step in [-3,3] or omitted, last and inner position", "Nth and 1-2 member Union indexes in [-L-2, L+2] for L in 0..5"}
		},
	})
}

// matchResults assigns each Get result to a J result with the same rendering
// (unique leaves make that unambiguous except for empty containers).
func matchResults(got []any, want []jpref.Res) (assign []int, diff string) {
	byText := map[string][]int{}
	for i, w := range want {
		t := jpspec.Ident(w.V)
		byText[t] = append(byText[t], i)
	}
	// required results first, optional ones last, J order within each group
	for t, q := range byText {
		sort.SliceStable(q, func(a, b int) bool { return !want[q[a]].Optional && want[q[b]].Optional })
		byText[t] = q
	}
	assign = make([]int, len(got))
	for i, g := range got {
		t := jpspec.Ident(g)
		q := byText[t]
		if len(q) == 0 {
			return nil, fmt.Sprintf("Get returned %s which J does not select (or selects fewer times)", clip(treegen.Show(g)))
		}
		assign[i] = q[0]
		byText[t] = q[1:]
	}
	for _, q := range byText {
		for _, wi := range q {
			if !want[wi].Optional {
				return nil, fmt.Sprintf("J selects %s at %s which Get did not return", clip(treegen.Show(want[wi].V)), want[wi].LocString())
			}
		}
	}
	return assign, ""
}

// orderViolation checks Get's order against J's partial order.
func orderViolation(assign []int, want []jpref.Res) (string, int) {
	pairs := 0
	for a := 0; a < len(assign); a++ {
		for b := a + 1; b < len(assign); b++ {
			ra, rb := want[assign[a]], want[assign[b]]
			d := 0
			for d < len(ra.Loc) && d < len(rb.Loc) && ra.Loc[d] == rb.Loc[d] {
				d++
			}
			if d >= len(ra.Loc) || d >= len(rb.Loc) {
				continue // same location or ancestor/descendant
			}
			pa, pb := ra.Prov[d], rb.Prov[d]
			if !pa.Ordered || !pb.Ordered || pa.Frag != pb.Frag {
				continue
			}
			if pa.Descent {
				// under a descent only siblings of one array are ordered: d must be the last element the
				// descent consumed for both results (the statement orders results of one array traversal,
				// not results found at different depths)
				if d+1 < len(ra.Prov) && ra.Prov[d+1].Descent && ra.Prov[d+1].Frag == pa.Frag {
					continue
				}
				if d+1 < len(rb.Prov) && rb.Prov[d+1].Descent && rb.Prov[d+1].Frag == pb.Frag {
					continue
				}
			}
			pairs++
			if assign[a] > assign[b] {
				return fmt.Sprintf("Get returns %s before %s, J's walk order is the reverse", ra.LocString(), rb.LocString()), pairs
			}
		}
	}
	return "", pairs
}

func clip(s string) string {
	if len(s) > 300 {
		return s[:300] + "…"
	}
	return s
}

type checker struct {
	c *mon.Ctx
}

func pathClass(p jpref.Path) string {
	var parts []string
	for i, f := range p {
		k := f.Kind
		if k == "slice" && len(f.Slice) == 3 && f.Slice[2] < 0 {
			k = "slice-"
		}
		if i == len(p)-1 {
			k += "$"
		}
		parts = append(parts, k)
	}
	return strings.Join(parts, ".")
}

func (ck *checker) check(p jpref.Path, data any, enum bool) {
	c := ck.c
	cs := map[string]any{"path": p.String(), "data": treegen.Show(data)}
	c.Begin("jp.Expr.Get", cs)
	before := jpref.Undefined
	want := jpref.Eval(p, data, jpref.Res{Loc: []any{}, V: data})
	if jpref.Undefined != before {
		c.Cover("dont-care-filter-cells")
		return
	}
	x := jpspec.ToExpr(p)
	var got []any
	if pn := mon.Guard(func() { got = x.Get(data) }); pn != nil {
		c.Violation("jp.Expr.Get", "panic", pathClass(p), cs, "results", pn.String())
		return
	}
	c.Eval(1)
	nontrivial := len(want) > 0
	for i, f := range p {
		pos := "inner"
		if i == len(p)-1 {
			pos = "last"
		}
		c.Cover("frag:" + f.Kind + "/" + pos)
		if f.Kind == "slice" && len(f.Slice) == 3 && f.Slice[2] < 0 {
			c.Cover("neg-step")
		}
		switch f.Kind {
		case "slice", "filter", "union", "descent":
			nontrivial = true
		}
	}
	if nontrivial {
		if enum {
			c.DistinctEnum(1)
		} else {
			c.Distinct(p.String(), treegen.Show(data))
		}
	}
	if c.WantSample() && len(want) > 1 && len(p) > 2 {
		c.Sample(map[string]any{"path": p.String(), "jp": x.String(), "data": clip(treegen.Show(data)), "selected": len(want)})
	}
	assign, diff := matchResults(got, want)
	if diff != "" {
		c.Violation("jp.Expr.Get", "wrong-elements", pathClass(p), cs, showRes(want), diff+" | Get: "+clip(treegen.Show(got)))
		return
	}
	// the same path on the same data held as gen nodes selects the corresponding elements (the multiset of
	// values; every fragment has a second copy of its code for gen data, a trailing descent included)
	var ggot []any
	if pn := mon.Guard(func() { ggot = x.Get(toGen(data)) }); pn != nil {
		c.Violation("jp.Expr.Get(gen)", "panic", pathClass(p), cs, "results", pn.String())
		return
	}
	c.Eval(1)
	c.Cover("twin:gen")
	if a, b := valueBag(ggot), valueBag(got); a != b {
		c.Violation("jp.Expr.Get(gen)", "selects-other-elements-than-on-simple-data", pathClass(p), cs, clip(b), clip(a))
		return
	}
	dup := map[string]bool{}
	for _, w := range want {
		id := fmt.Sprint(w.Loc...) + "|" + fmt.Sprint(len(w.Loc))
		if dup[id] {
			// the same location is selected more than once (e.g. two descents): which instance a result
			// stands for is ambiguous, so only the multiset is checked
			c.Cover("order-skipped-duplicate-locations")
			return
		}
		dup[id] = true
	}
	if d, pairs := orderViolation(assign, want); d != "" {
		c.Violation("jp.Expr.Get", "wrong-order", pathClass(p), cs, showRes(want), d+" | Get: "+clip(treegen.Show(got)))
	} else {
		c.CoverN("order-pairs-checked", int64(pairs))
	}
}

func showRes(rs []jpref.Res) string {
	parts := make([]string, len(rs))
	for i, r := range rs {
		parts[i] = r.LocString() + "=" + treegen.Show(r.V)
	}
	return clip(strings.Join(parts, " "))
}

const omitted = 1 << 20

func run(c *mon.Ctx) {
	ck := &checker{c: c}
	// (a) lattice
	idx := 0
	for L := 0; L <= 5; L++ {
		// data for last position: unique ints; for inner positions: arrays of maps / arrays
		flat := make([]any, L)
		maps := make([]any, L)
		arrs := make([]any, L)
		for i := 0; i < L; i++ {
			flat[i] = int64(100 + i)
			maps[i] = map[string]any{"k": int64(200 + i), "z": int64(300 + i)}
			arrs[i] = []any{int64(400 + 2*i), int64(401 + 2*i)}
		}
		bounds := []int{omitted}
		for b := -L - 2; b <= L+2; b++ {
			bounds = append(bounds, b)
		}
		steps := []int{omitted, -3, -2, -1, 0, 1, 2, 3}
		for _, s := range bounds {
			for _, e := range bounds {
				for _, st := range steps {
					idx++
					if !c.Mine(idx) {
						continue
					}
					var sl []int
					switch {
					case s == omitted && e == omitted && st == omitted:
						sl = []int{}
					case e == omitted && st == omitted:
						sl = []int{s}
					case st == omitted:
						sl = []int{zero(s), end(e)}
					default:
						sl = []int{zero(s), end(e), st}
					}
					f := jpspec.Slice(sl...)
					c.Cover("lattice:slice/last")
					ck.check(jpref.Path{jpspec.Root(), f}, flat, true)
					c.Cover("lattice:slice/inner")
					ck.check(jpref.Path{jpspec.Root(), f, jpspec.Child("k")}, maps, true)
					ck.check(jpref.Path{f, jpspec.Nth(0)}, arrs, true)
					ck.check(jpref.Path{jpspec.Root(), f, jpspec.Wild()}, arrs, true)
					ck.check(jpref.Path{jpspec.Root(), jpspec.Child("a"), f, jpspec.Child("z")}, map[string]any{"a": maps, "b": flat}, true)
				}
			}
		}
		for a := -L - 2; a <= L+2; a++ {
			idx++
			if !c.Mine(idx) {
				continue
			}
			c.Cover("lattice:nth")
			ck.check(jpref.Path{jpspec.Root(), jpspec.Nth(a)}, flat, true)
			ck.check(jpref.Path{jpspec.Nth(a), jpspec.Child("k")}, maps, true)
			ck.check(jpref.Path{jpspec.Root(), jpspec.Nth(a), jpspec.Wild()}, arrs, true)
			c.Cover("lattice:union")
			ck.check(jpref.Path{jpspec.Root(), jpspec.Union(a)}, flat, true)
			for b := -L - 2; b <= L+2; b++ {
				ck.check(jpref.Path{jpspec.Root(), jpspec.Union(a, b)}, flat, true)
				ck.check(jpref.Path{jpspec.Union(a, b), jpspec.Child("k")}, maps, true)
				ck.check(jpref.Path{jpspec.Root(), jpspec.Union(a, "x", b), jpspec.Nth(-1)}, arrs, true)
			}
		}
	}
	// (a') magnitudes at and near the int limits as slice bounds and steps, indexes and union members
	for _, L := range []int{0, 1, 3} {
		flat := make([]any, L)
		maps := make([]any, L)
		arrs := make([]any, L)
		for i := 0; i < L; i++ {
			flat[i] = int64(100 + i)
			maps[i] = map[string]any{"k": int64(200 + i), "z": int64(300 + i)}
			arrs[i] = []any{int64(400 + 2*i), int64(401 + 2*i)}
		}
		for _, sl := range jpspec.ExtremeSlices() {
			idx++
			if !c.Mine(idx) {
				continue
			}
			f := jpspec.Slice(sl...)
			c.Cover("lattice:extreme-magnitudes")
			ck.check(jpref.Path{jpspec.Root(), f}, flat, true)
			ck.check(jpref.Path{jpspec.Root(), f, jpspec.Child("k")}, maps, true)
			ck.check(jpref.Path{jpspec.Root(), f, jpspec.Wild()}, arrs, true)
			ck.check(jpref.Path{jpspec.Root(), jpspec.Descent(), f}, arrs, true)
		}
		for _, a := range jpspec.ExtremeInts {
			idx++
			if !c.Mine(idx) {
				continue
			}
			c.Cover("lattice:extreme-magnitudes")
			ck.check(jpref.Path{jpspec.Root(), jpspec.Nth(a)}, flat, true)
			ck.check(jpref.Path{jpspec.Nth(a), jpspec.Child("k")}, maps, true)
			ck.check(jpref.Path{jpspec.Root(), jpspec.Union(a, 0)}, flat, true)
			ck.check(jpref.Path{jpspec.Root(), jpspec.Union(0, a, -1), jpspec.Nth(-1)}, arrs, true)
		}
	}
	// (b) random paths over unique-leaf trees
	r := c.Rand("paths")
	g := &jpspec.Gen{R: r, Keys: []string{"a", "b", "c", "d", "k"}}
	n := c.Pick(2400000, 24000000) / c.Batches
	for i := 0; i < n; i++ {
		g.ResetLeaves()
		data := g.Tree(2 + r.Intn(3))
		p := g.Path(1+r.Intn(5), jpspec.AllKinds, true)
		if i%9 == 0 {
			// root / current fragments in the middle of a path
			k := r.Intn(len(p) + 1)
			mid := jpspec.At()
			if r.Intn(2) == 0 {
				mid = jpspec.Root()
			}
			p = append(append(append(jpref.Path{}, p[:k]...), mid), p[k:]...)
		}
		ck.check(p, data, false)
	}
}

func zero(s int) int {
	if s == omitted {
		return 0
	}
	return s
}

func end(e int) int {
	if e == omitted {
		return 1<<31 - 1
	}
	return e
}

var _ = sort.Strings
var _ = jp.R

func toGen(v any) gen.Node {
	switch t := v.(type) {
	case nil:
		return nil
	case bool:
		return gen.Bool(t)
	case int64:
		return gen.Int(t)
	case float64:
		return gen.Float(t)
	case string:
		return gen.String(t)
	case []any:
		a := make(gen.Array, len(t))
		for i, e := range t {
			a[i] = toGen(e)
		}
		return a
	case map[string]any:
		o := make(gen.Object, len(t))
		for k, e := range t {
			o[k] = toGen(e)
		}
		return o
	}
	panic(fmt.Sprintf("toGen %T", v))
}

// valueBag is the sorted list of the results' values (gen nodes simplified).
func valueBag(vs []any) string {
	out := make([]string, len(vs))
	for i, v := range vs {
		if n, ok := v.(gen.Node); ok && n != nil {
			v = decoders.FromGen(n)
		}
		out[i] = treegen.Show(v)
	}
	sort.Strings(out)
	return strings.Join(out, " ")
}
