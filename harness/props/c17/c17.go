// Package c17: streaming Match equals parse-then-locate.
// Oracle: the outermost locations J selects for the targets, in document
// order (pre-order of the text), each with the value D gives there; compared
// with the callback sequence of oj.Match / MatchString / MatchLoad (every
// chunking) and sen.Match.
package c17

import (
	"fmt"
	"math/rand"
	"sort"
	"strconv"
	"strings"

	"github.com/ohler55/ojg/jp"
	"github.com/ohler55/ojg/oj"
	"github.com/ohler55/ojg/sen"

	"verif/gen/jsongen"
	"verif/gen/treegen"
	"verif/mon"
	"verif/props/jpspec"
	"verif/ref/jpref"
)

func init() {
	mon.Register(&mon.Prop{
		ID:      "C17",
		Batches: func(tier string) int { return map[string]int{"quick": 16, "thorough": 48}[tier] },
		Run:     run,
		Rule: "cases: unique-leaf documents written by the harness with members in a random order (that order is the document order), 1-3 target paths of 1-5 fragments built from child, index, wildcard, union, slice, descent (also two descents) and trailing filter fragments; " +
			"the callbacks of oj.Match, oj.MatchString, oj.MatchLoad (whole, 1-byte, fixed 2/3/7, readers returning their last bytes together with io.EOF, every single split point for documents up to 200 bytes) and sen.Match, sen.MatchString, sen.MatchLoad are compared as a sequence of (normalized path, value) with the outermost J locations in document order. " +
			"non-trivial: the targets select at least one location; distinct by digest of (document, targets)",
		Assumptions: []string{
			"a scalar at the prefix of a filter target is never collected for the filter: a hit of another target on it must be delivered",
			"when one selected location lies inside another only the outermost one is delivered (the statement's 'outermost location')",
			"object members are visited in the order of the text, array elements in index order",
			"the three findings excuse the callback sequence only (never errors or panics), and not a missing hit of a target without slice, negative index or filter unless that hit lies at or inside an element matched by the part of a filter target before its filter (the matcher collects those elements: F-C17-filter)",
		},
		Findings: map[string]func(v *mon.Violation) bool{
			// the three documented / observed limits of the streaming matcher partition the violations by the
			// fragment kinds the targets use: slice first, then negative index, then trailing filter
			// (only the callback sequence is excused, and never a missing hit of a target that has none of
			// these fragments: that is reported under its own kind)
			"matchSliceTarget":    func(v *mon.Violation) bool { return seq(v) && has(v, "slice") },
			"matchNegativeIndex":  func(v *mon.Violation) bool { return seq(v) && !has(v, "slice") && has(v, "negnth") },
			"matchTrailingFilter": func(v *mon.Violation) bool { return seq(v) && !has(v, "slice") && !has(v, "negnth") && has(v, "filter") },
		},
		Floors: func(tier string, cover map[string]int64, evals int64) []string {
			var out []string
			for _, k := range []string{"route:oj.Match", "route:oj.MatchString", "route:oj.MatchLoad", "route:sen.Match", "route:sen.MatchString", "route:sen.MatchLoad", "plan:split", "plan:fixed1", "targets:1", "targets:2", "targets:3", "kind:descent", "kind:union", "kind:wild", "nested-selection"} {
				if cover[k] == 0 {
					out = append(out, "coverage class never reached: "+k)
				}
			}
			return out
		},
	})
}

// seq: the violation is about the delivered callback sequence as a whole.
func seq(v *mon.Violation) bool { return v.Kind == "wrong-callbacks" || v.Kind == "wrong-order" }

// limited: the target uses a fragment the streaming matcher documents or shows limits for.
func limited(t jpref.Path) bool {
	for _, f := range t {
		if f.Kind == "slice" || f.Kind == "filter" || f.Kind == "nth" && f.N < 0 {
			return true
		}
		if f.Kind == "union" {
			for _, u := range f.Union {
				if n, ok := u.(int); ok && n < 0 {
					return true
				}
			}
		}
	}
	return false
}

// has reports whether the violation's targets use a fragment kind.
func has(v *mon.Violation, kind string) bool {
	m, _ := v.Case.(map[string]any)
	if m == nil {
		return false
	}
	ks, _ := m["target_kinds"].([]string)
	for _, k := range ks {
		if k == kind {
			return true
		}
	}
	return false
}

// doc is a tree whose objects remember the member order of the text.
type member struct {
	k string
	v any
}
type object []member

func genDoc(g *jpspec.Gen, r *rand.Rand, depth int, top bool) any {
	if !top && (depth <= 0 || r.Intn(4) == 0) {
		l := g.Leaf()
		if s, ok := l.(string); ok && r.Intn(2) == 0 {
			// strings with the characters the tokenizers treat specially: the other quote character, an
			// escaped quote, escapes, non-ASCII (still unique: the leaf number stays in)
			l = []string{"it's ", "say \"hi\" ", "tab\t", "é", "back\\slash ", "'", "a b "}[r.Intn(7)] + s
		}
		return l
	}
	if r.Intn(2) == 0 {
		n := r.Intn(5)
		a := make([]any, n)
		for i := range a {
			a[i] = genDoc(g, r, depth-1, false)
		}
		return a
	}
	keys := []string{"a", "b", "c", "d", "k"}
	r.Shuffle(len(keys), func(i, j int) { keys[i], keys[j] = keys[j], keys[i] })
	n := r.Intn(4)
	o := make(object, 0, n)
	for i := 0; i < n; i++ {
		o = append(o, member{keys[i], genDoc(g, r, depth-1, false)})
	}
	return o
}

func writeDoc(sb *strings.Builder, v any, ws func()) {
	switch t := v.(type) {
	case []any:
		sb.WriteByte('[')
		for i, e := range t {
			if i > 0 {
				sb.WriteByte(',')
			}
			ws()
			writeDoc(sb, e, ws)
		}
		ws()
		sb.WriteByte(']')
	case object:
		sb.WriteByte('{')
		for i, m := range t {
			if i > 0 {
				sb.WriteByte(',')
			}
			ws()
			sb.WriteString(strconv.Quote(m.k))
			sb.WriteByte(':')
			ws()
			writeDoc(sb, m.v, ws)
		}
		sb.WriteByte('}')
	case string:
		sb.WriteString(strconv.Quote(t))
	case int64:
		sb.WriteString(strconv.FormatInt(t, 10))
	case float64:
		sb.WriteString(strconv.FormatFloat(t, 'g', -1, 64))
	}
}

// plain converts the ordered document to simple values.
func plain(v any) any {
	switch t := v.(type) {
	case []any:
		a := make([]any, len(t))
		for i, e := range t {
			a[i] = plain(e)
		}
		return a
	case object:
		m := map[string]any{}
		for _, mb := range t {
			m[mb.k] = plain(mb.v)
		}
		return m
	}
	return v
}

// order assigns a pre-order rank to every location of the ordered document.
func order(v any, loc string, n *int, out map[string]int) {
	out[loc] = *n
	*n++
	switch t := v.(type) {
	case []any:
		for i, e := range t {
			order(e, fmt.Sprintf("%s/%d", loc, i), n, out)
		}
	case object:
		for _, m := range t {
			order(m.v, loc+"/"+m.k, n, out)
		}
	}
}

func locKey(l []any) string {
	var b strings.Builder
	for _, e := range l {
		fmt.Fprintf(&b, "/%v", e)
	}
	return b.String()
}

func locPath(l []any) string {
	x := jp.R()
	for _, e := range l {
		switch t := e.(type) {
		case int:
			x = x.N(t)
		case string:
			x = x.C(t)
		}
	}
	return x.String()
}

func clip(s string) string {
	if len(s) > 400 {
		return s[:400] + "…"
	}
	return s
}

var targetKinds = []string{"child", "child", "child", "nth", "nth", "wild", "wild", "descent", "union", "union", "child", "wild", "slice"}

func genTarget(g *jpspec.Gen, r *rand.Rand) jpref.Path {
	p := jpref.Path{jpspec.Root()}
	n := 1 + r.Intn(3)
	if r.Intn(4) == 0 {
		n = 4 + r.Intn(2) // long enough for two descents with a name after each ($..a..b)
	}
	for i := 0; i < n; i++ {
		f := g.Frag(targetKinds)
		if n >= 4 && i%2 == 0 && r.Intn(2) == 0 {
			f = jpspec.Descent()
		}
		switch {
		case f.Kind == "descent" && (i == n-1 || len(p) > 0 && p[len(p)-1].Kind == "descent"):
			f = jpspec.Wild()
		case f.Kind == "nth" && r.Intn(8) != 0 && f.N < 0:
			f.N = -f.N // negative indexes are a documented limit: keep them a minority
		}
		if f.Kind == "union" {
			for ui, u := range f.Union {
				if n, ok := u.(int); ok && n < 0 {
					f.Union[ui] = -n
				}
			}
		}
		p = append(p, f)
	}
	if r.Intn(12) == 0 {
		p = append(p, jpspec.Filter(jpspec.Bin("gt", jpspec.P(jpspec.At()), jpspec.CInt(int64(r.Intn(30))))))
	}
	return p
}

// missingPlain returns the first of the hits that is neither delivered nor inside a delivered element.
func missingPlain(hits, got []string) string {
	for _, h := range hits {
		hp := h[:strings.Index(h, "=")]
		found := false
		for _, g := range got {
			gp := g[:strings.Index(g, "=")]
			if g == h || gp != hp && strings.HasPrefix(hp, gp) && (hp[len(gp)] == '.' || hp[len(gp)] == '[') {
				found = true
				break
			}
		}
		if !found {
			return h
		}
	}
	return ""
}

func kindsOf(ts []jpref.Path) []string {
	set := map[string]bool{}
	for _, t := range ts {
		for _, f := range t {
			k := f.Kind
			if k == "nth" && f.N < 0 {
				k = "negnth"
			}
			set[k] = true
		}
	}
	out := make([]string, 0, len(set))
	for k := range set {
		out = append(out, k)
	}
	sort.Strings(out)
	return out
}

func run(c *mon.Ctx) {
	r := c.Rand("c17")
	g := &jpspec.Gen{R: r, Keys: []string{"a", "b", "c", "d", "k"}}
	n := c.Pick(400000, 4000000) / c.Batches
	for i := 0; i < n; i++ {
		g.ResetLeaves()
		d := genDoc(g, r, 2+r.Intn(2), true)
		var sb strings.Builder
		ws := func() {}
		if i%3 == 1 {
			ws = func() {
				if r.Intn(3) == 0 {
					sb.WriteString([]string{" ", "\n", "  "}[r.Intn(3)])
				}
			}
		}
		writeDoc(&sb, d, ws)
		doc := sb.String()
		pd := plain(d)
		nt := 1 + r.Intn(3)
		var specs []jpref.Path
		var targets []jp.Expr
		for k := 0; k < nt; k++ {
			s := genTarget(g, r)
			specs = append(specs, s)
			targets = append(targets, jpspec.ToExpr(s))
		}
		kinds := kindsOf(specs)
		var tstr []string
		for _, t := range targets {
			tstr = append(tstr, t.String())
		}
		cs := map[string]any{"document": doc, "targets": tstr, "target_kinds": kinds}
		c.Begin("Match", cs)
		// expected
		before := jpref.Undefined
		sel := map[string]jpref.Res{}
		for _, s := range specs {
			for _, l := range jpref.Eval(s, pd, jpref.Res{Loc: []any{}, V: pd}) {
				sel[locKey(l.Loc)] = l
			}
		}
		if jpref.Undefined != before {
			continue
		}
		var outer []jpref.Res
		nested := false
		for k, l := range sel {
			in := false
			for o := range sel {
				if o != k && (strings.HasPrefix(k, o+"/") || o == "" && k != "") {
					in = true
				}
			}
			if in {
				nested = true
			} else {
				outer = append(outer, l)
			}
		}
		if nested {
			c.Cover("nested-selection")
		}
		rank := map[string]int{}
		cnt := 0
		order(d, "", &cnt, rank)
		sort.Slice(outer, func(a, b int) bool { return rank[locKey(outer[a].Loc)] < rank[locKey(outer[b].Loc)] })
		var want []string
		for _, l := range outer {
			want = append(want, locPath(l.Loc)+"="+treegen.Show(l.V))
		}
		c.Cover(fmt.Sprintf("targets:%d", nt))
		for _, k := range kinds {
			c.Cover("kind:" + k)
		}
		if len(want) > 0 {
			c.Distinct(doc, fmt.Sprint(tstr))
		}
		if c.WantSample() && len(want) > 1 {
			c.Sample(map[string]any{"document": clip(doc), "targets": tstr, "expected_callbacks": want})
		}
		class := strings.Join(kinds, "+")
		// the hits of the targets without slice, negative index or filter fragments, when the target set also
		// has such targets: those hits must be delivered whatever the limited targets do (or lie inside a
		// delivered element)
		var plainHits []string
		nLimited := 0
		for _, sp := range specs {
			if limited(sp) {
				nLimited++
			}
		}
		if nLimited > 0 && nLimited < len(specs) {
			psel := map[string]jpref.Res{}
			for _, sp := range specs {
				if !limited(sp) {
					for _, l := range jpref.Eval(sp, pd, jpref.Res{Loc: []any{}, V: pd}) {
						psel[locKey(l.Loc)] = l
					}
				}
			}
			// F-C17-filter: the matcher collects every element the part of a target before its trailing filter
			// matches, to run the filter on it; hits of other targets at or inside such an element go the way
			// of that element
			collected := map[string]bool{}
			for _, sp := range specs {
				if n := len(sp); n > 0 && sp[n-1].Kind == "filter" {
					pre := append(jpref.Path{}, sp[:n-1]...)
					for i, f := range pre {
						if f.Kind == "slice" { // F-C17-slice: a slice matches every index while streaming
							pre[i] = jpspec.Wild()
						}
					}
					for _, l := range jpref.Eval(pre, pd, jpref.Res{Loc: []any{}, V: pd}) {
						switch l.V.(type) {
						case map[string]any, []any:
							collected[locKey(l.Loc)] = true
						default:
							// a scalar is never collected for a filter: other targets still see it
						}
					}
				}
			}
			for k, l := range psel {
				in := false
				for o := range psel {
					if o != k && (strings.HasPrefix(k, o+"/") || o == "" && k != "") {
						in = true
					}
				}
				for o := range collected {
					if o == k || strings.HasPrefix(k, o+"/") || o == "" {
						in = true
					}
				}
				if !in {
					plainHits = append(plainHits, locPath(l.Loc)+"="+treegen.Show(l.V))
				}
			}
			sort.Strings(plainHits)
			c.Cover("mixed-limited-and-plain-targets")
		}
		run1 := func(entry string, f func(cb func(p jp.Expr, v any)) error, extra map[string]any) {
			var got []string
			var err error
			pn := mon.Guard(func() {
				err = f(func(p jp.Expr, v any) { got = append(got, p.String()+"="+treegen.Show(v)) })
			})
			c.Eval(1)
			c.Cover("route:" + strings.SplitN(entry, "(", 2)[0])
			cs2 := cs
			if extra != nil {
				cs2 = map[string]any{}
				for k, v := range cs {
					cs2[k] = v
				}
				for k, v := range extra {
					cs2[k] = v
				}
			}
			switch {
			case pn != nil:
				c.Violation(entry, "panic", class, cs2, "callbacks", pn.String())
			case err != nil:
				c.Violation(entry, "error-on-valid-document", class, cs2, "callbacks "+clip(fmt.Sprint(want)), err.Error())
			case fmt.Sprint(got) != fmt.Sprint(want) && missingPlain(plainHits, got) != "":
				c.Violation(entry, "hit-of-plain-target-missing", class, cs2, missingPlain(plainHits, got)+" delivered (or an element containing it)", clip(fmt.Sprint(got)))
			case fmt.Sprint(got) != fmt.Sprint(want):
				kind := "wrong-callbacks"
				if len(got) == len(want) {
					a, b := append([]string{}, got...), append([]string{}, want...)
					sort.Strings(a)
					sort.Strings(b)
					if fmt.Sprint(a) == fmt.Sprint(b) {
						kind = "wrong-order"
					}
				}
				c.Violation(entry, kind, class, cs2, clip(fmt.Sprint(want)), clip(fmt.Sprint(got)))
			}
		}
		run1("oj.Match", func(cb func(jp.Expr, any)) error { return oj.Match([]byte(doc), cb, targets...) }, nil)
		run1("oj.MatchString", func(cb func(jp.Expr, any)) error { return oj.MatchString(doc, cb, targets...) }, nil)
		run1("sen.Match", func(cb func(jp.Expr, any)) error { return sen.Match([]byte(doc), cb, targets...) }, nil)
		run1("sen.MatchString", func(cb func(jp.Expr, any)) error { return sen.MatchString(doc, cb, targets...) }, nil)
		plans := []jsongen.Plan{jsongen.Whole, jsongen.Fixed(1), jsongen.Fixed(2), jsongen.Fixed(3), jsongen.Fixed(7),
			// readers that hand over their last bytes together with io.EOF
			{Name: "fixed5+eofdata", Sizes: []int{5}, EOFWithData: true, ErrAt: -1}, {Name: "whole+eofdata", EOFWithData: true, ErrAt: -1}}
		if len(doc) <= 200 && (i%4 == 0 || c.Thorough()) {
			for at := 1; at < len(doc); at++ {
				plans = append(plans, jsongen.Split(at))
			}
		} else {
			for k := 0; k < 3 && len(doc) > 1; k++ {
				plans = append(plans, jsongen.Split(1+r.Intn(len(doc)-1)))
			}
		}
		for _, pl := range plans {
			pl := pl
			pc := strings.TrimRight(pl.Name, "0123456789")
			if pl.Name == "fixed1" {
				pc = "fixed1"
			}
			c.Cover("plan:" + strings.TrimSuffix(pc, "@"))
			run1("oj.MatchLoad", func(cb func(jp.Expr, any)) error { return oj.MatchLoad(pl.Reader([]byte(doc)), cb, targets...) }, map[string]any{"plan": pl.Name})
			if !strings.HasPrefix(pl.Name, "split") || i%8 == 0 {
				run1("sen.MatchLoad", func(cb func(jp.Expr, any)) error { return sen.MatchLoad(pl.Reader([]byte(doc)), cb, targets...) }, map[string]any{"plan": pl.Name})
			}
		}
	}
}
