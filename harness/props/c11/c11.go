// Package c11: every JSONPath evaluator and data representation agrees with Get.
// Oracle: differential - Has/First/FirstFound/Locate/Walk/GetNodes/FirstNode
// and evaluation on equivalent typed representations are compared with Get on
// simple data (which C05 pins to the reference evaluator J; J is consulted
// here too so that a common-mode error is attributed).
package c11

import (
	"fmt"
	"reflect"
	"sort"
	"strings"

	"github.com/ohler55/ojg/gen"
	"github.com/ohler55/ojg/jp"

	"verif/gen/treegen"
	"verif/mon"
	"verif/props/decoders"
	"verif/props/jpspec"
	"verif/ref/jpref"
)

func init() {
	mon.Register(&mon.Prop{
		ID:      "C11",
		Batches: func(tier string) int { return map[string]int{"quick": 16, "thorough": 48}[tier] },
		Run:     run,
		Rule: "cases: C05's path generator (paths not ending in a bare descent) and slice/index/union lattice over unique-leaf trees; for each (path, data): Has vs len(Get)>0, First/FirstFound vs Get's members (and Get[0] when J's order is total), " +
			"Locate(data,0) and Expr.Walk vs the normalized paths whose individual Get gives Get's results, Locate(data,m) as a size-m subset, GetNodes/FirstNode on the gen twin, and Get on equivalent representations " +
			"(typed slices and arrays, structs built with reflect.StructOf reached by reflection, harness-defined ordered Keyed/Indexed collections). also magnitudes at and near the int limits in slices, indexes and unions; where the order of Get's results is defined GetNodes must deliver the same sequence and FirstNode its first element. First/FirstFound/Has are also evaluated on the gen twin. non-trivial: Get selects at least one element; distinct: lattice points by construction, random cases by digest",
		Assumptions: []string{
			"ojg's Get on map[string]any/[]any data is the pivot (pinned to J by C05)",
			"order is compared only where it is defined (array traversal, union listing); struct and map wildcard order is not compared",
			"struct representations are built for objects whose keys are identifiers: field = key capitalised (ojg looks fields up case-insensitively)",
		},
		Findings: map[string]func(v *mon.Violation) bool{
			"firstHasOtherRepresentations": func(v *mon.Violation) bool {
				// First/FirstFound/Has on typed (reflection) data and on Keyed/Indexed collections: the shrunk path
				// still contains a slice, descent or wildcard fragment (their reflection / collection branches
				// differ from Get's); child / index / union / filter-only paths are not covered by this finding
				switch v.Entry {
				case "jp.Expr.Has(typed)", "jp.Expr.First(typed)", "jp.Expr.First(collections)", "jp.Expr.Has(collections)":
				case "jp.Expr.Walk(typed)", "jp.Expr.Locate(typed)":
					// the reflection branches of Slice.Walk / Slice.locate (arrays are not handled) and of the
					// filter fragment: the path contains a slice or a filter
					if v.Kind == "panic" {
						return false
					}
					for _, k := range strings.Split(strings.SplitN(v.Class, "/", 2)[0], ".") {
						if k == "slice" || k == "filter" {
							return true
						}
					}
					return false
				default:
					return false
				}
				cls := strings.SplitN(v.Class, "/", 2)[0]
				for _, k := range strings.Split(cls, ".") {
					if k == "slice" || k == "descent" || k == "wild" {
						return true
					}
				}
				return false
			},
			"filterOverStructFields": func(v *mon.Violation) bool {
				if v.Entry != "jp.Expr.Get(typed)" && v.Entry != "jp.Expr.Has(typed)" && v.Entry != "jp.Expr.First(typed)" {
					return false
				}
				parts := strings.SplitN(v.Class, "/", 2)
				return len(parts) == 2 && strings.Contains(parts[1], "struct") && strings.Contains(parts[0], "filter")
			},
			"locateRootOperand": func(v *mon.Violation) bool {
				m, _ := v.Case.(map[string]any)
				if m == nil || v.Entry != "jp.Expr.Locate" {
					return false
				}
				path, _ := m["path"].(string)
				i := strings.Index(path, "[?(")
				return i >= 0 && strings.Contains(path[i:], "$")
			},
			"inOverOtherRepresentations": func(v *mon.Violation) bool {
				m, _ := v.Case.(map[string]any)
				if m == nil || !(strings.HasSuffix(v.Entry, "(collections)") || strings.HasSuffix(v.Entry, "(typed)")) {
					return false
				}
				path, _ := m["path"].(string)
				return strings.Contains(path, " in @") || strings.Contains(path, " in $")
			},
			"locateWalkNegStepClamp": func(v *mon.Violation) bool {
				m, _ := v.Case.(map[string]any)
				if m == nil || v.Entry != "jp.Expr.Locate" && v.Entry != "jp.Expr.Walk" {
					return false
				}
				return m["neg_step_start_beyond_end"] == true && strings.Contains(v.Observed, "more")
			},
		},
		Floors: func(tier string, cover map[string]int64, evals int64) []string {
			var out []string
			for _, k := range []string{"eval:Has", "eval:First", "eval:Locate", "eval:Walk", "eval:GetNodes", "eval:FirstNode", "repr:typed-slice", "repr:array", "repr:struct", "repr:keyed", "repr:indexed", "first-order-defined"} {
				if cover[k] == 0 {
					out = append(out, "coverage class never reached: "+k)
				}
			}
			return out
		},
	})
}

func clip(s string) string {
	if len(s) > 300 {
		return s[:300] + "…"
	}
	return s
}

func multiset(vs []any) map[string]int {
	m := map[string]int{}
	for _, v := range vs {
		m[jpspec.Ident(v)]++
	}
	return m
}

func textSet(vs []any) []string {
	out := make([]string, len(vs))
	for i, v := range vs {
		out[i] = treegen.Show(norm(v))
	}
	sort.Strings(out)
	return out
}

// norm simplifies results from other representations to the value model.
func norm(v any) any {
	switch t := v.(type) {
	case gen.Node:
		return decoders.FromGen(t)
	case *orderedMap:
		m := map[string]any{}
		for i, k := range t.keys {
			m[k] = norm(t.vals[i])
		}
		return m
	case *indexedList:
		a := make([]any, len(t.vals))
		for i, e := range t.vals {
			a[i] = norm(e)
		}
		return a
	case []any:
		a := make([]any, len(t))
		for i, e := range t {
			a[i] = norm(e)
		}
		return a
	case map[string]any:
		m := make(map[string]any, len(t))
		for k, e := range t {
			m[k] = norm(e)
		}
		return m
	case nil, bool, int64, float64, string:
		return v
	case int:
		return int64(t)
	}
	rv := reflect.ValueOf(v)
	switch rv.Kind() {
	case reflect.Ptr:
		if rv.IsNil() {
			return nil
		}
		return norm(rv.Elem().Interface())
	case reflect.Slice, reflect.Array:
		a := make([]any, rv.Len())
		for i := range a {
			a[i] = norm(rv.Index(i).Interface())
		}
		return a
	case reflect.Map:
		m := map[string]any{}
		for _, k := range rv.MapKeys() {
			m[k.String()] = norm(rv.MapIndex(k).Interface())
		}
		return m
	case reflect.Struct:
		m := map[string]any{}
		for i := 0; i < rv.NumField(); i++ {
			name := rv.Type().Field(i).Name
			switch fv := rv.Field(i).Interface().(type) {
			case ShadowA:
				// hidden behind the outer field A
			case PromoteK:
				m["k"] = norm(fv.K)
			default:
				m[strings.ToLower(name[:1])+name[1:]] = norm(fv)
			}
		}
		return m
	case reflect.Int, reflect.Int64:
		return rv.Int()
	case reflect.Float64:
		return rv.Float()
	case reflect.String:
		return rv.String()
	}
	return fmt.Sprintf("<%T>", v)
}

// ---- harness-defined collections ----

type orderedMap struct {
	keys []string
	vals []any
}

func (o *orderedMap) ValueForKey(key string) (any, bool) {
	for i, k := range o.keys {
		if k == key {
			return o.vals[i], true
		}
	}
	return nil, false
}
func (o *orderedMap) SetValueForKey(key string, value any) {
	for i, k := range o.keys {
		if k == key {
			o.vals[i] = value
			return
		}
	}
	o.keys = append(o.keys, key)
	o.vals = append(o.vals, value)
}
func (o *orderedMap) RemoveValueForKey(key string) {
	for i, k := range o.keys {
		if k == key {
			o.keys = append(o.keys[:i], o.keys[i+1:]...)
			o.vals = append(o.vals[:i], o.vals[i+1:]...)
			return
		}
	}
}
func (o *orderedMap) Keys() []string { return append([]string{}, o.keys...) }

type indexedList struct{ vals []any }

func (l *indexedList) ValueAtIndex(i int) any {
	if i < 0 || i >= len(l.vals) {
		return nil
	}
	return l.vals[i]
}
func (l *indexedList) SetValueAtIndex(i int, v any) { l.vals[i] = v }
func (l *indexedList) Size() int                    { return len(l.vals) }

// toCollections converts objects to Keyed and arrays to Indexed collections.
func toCollections(v any) any {
	switch t := v.(type) {
	case []any:
		l := &indexedList{vals: make([]any, len(t))}
		for i, e := range t {
			l.vals[i] = toCollections(e)
		}
		return l
	case map[string]any:
		keys := make([]string, 0, len(t))
		for k := range t {
			keys = append(keys, k)
		}
		sort.Strings(keys)
		o := &orderedMap{}
		for _, k := range keys {
			o.keys = append(o.keys, k)
			o.vals = append(o.vals, toCollections(t[k]))
		}
		return o
	}
	return v
}

// toGen: harness converter.
func toGen(v any) gen.Node {
	switch t := v.(type) {
	case nil:
		return nil
	case bool:
		return gen.Bool(t)
	case int64:
		return gen.Int(t)
	case float64:
		return gen.Float(t)
	case string:
		return gen.String(t)
	case []any:
		a := make(gen.Array, len(t))
		for i, e := range t {
			a[i] = toGen(e)
		}
		return a
	case map[string]any:
		o := make(gen.Object, len(t))
		for k, e := range t {
			o[k] = toGen(e)
		}
		return o
	}
	panic(fmt.Sprintf("toGen %T", v))
}

// toTyped converts arrays to typed slices / arrays where their content allows
// and objects to structs (reflect.StructOf); returns what kinds were used.
func toTyped(v any, used map[string]bool, depth int) any {
	switch t := v.(type) {
	case []any:
		if len(t) > 0 {
			allInt, allStr, allMap, allArr := true, true, true, true
			for _, e := range t {
				_, i := e.(int64)
				_, s := e.(string)
				_, m := e.(map[string]any)
				_, a := e.([]any)
				allInt, allStr, allMap, allArr = allInt && i, allStr && s, allMap && m, allArr && a
			}
			switch {
			case allInt:
				used["typed-slice"] = true
				out := make([]int64, len(t))
				for i, e := range t {
					out[i] = e.(int64)
				}
				return out
			case allStr:
				used["typed-slice"] = true
				out := make([]string, len(t))
				for i, e := range t {
					out[i] = e.(string)
				}
				return out
			case allMap && depth%2 == 0:
				used["typed-slice"] = true
				out := make([]map[string]any, len(t))
				for i, e := range t {
					out[i] = e.(map[string]any)
				}
				return out
			case allArr && depth%2 == 0:
				used["typed-slice"] = true
				out := make([][]any, len(t))
				for i, e := range t {
					out[i] = e.([]any)
				}
				return out
			}
		}
		// a Go array [N]any
		if depth%2 == 1 && len(t) > 0 {
			used["array"] = true
			av := reflect.New(reflect.ArrayOf(len(t), reflect.TypeOf((*any)(nil)).Elem())).Elem()
			for i, e := range t {
				if e != nil {
					av.Index(i).Set(reflect.ValueOf(toTyped(e, used, depth+1)))
				}
			}
			return av.Interface()
		}
		out := make([]any, len(t))
		for i, e := range t {
			out[i] = toTyped(e, used, depth+1)
		}
		return out
	case map[string]any:
		if len(t) == 0 {
			return t
		}
		keys := make([]string, 0, len(t))
		for k := range t {
			keys = append(keys, k)
		}
		sort.Strings(keys)
		var fields []reflect.StructField
		// embedded structs: a field of the outer struct that shadows one promoted from an embedded struct
		// declared before it (the outer value must be found), and a field that only exists in the embedded
		// struct (the promoted value must be found)
		_, hasA := t["a"]
		_, hasK := t["k"]
		shadow := embedOK && hasA && depth%3 == 0
		promote := embedOK && hasK && depth%3 == 1
		if shadow {
			fields = append(fields, reflect.StructField{Name: "ShadowA", Type: reflect.TypeOf(ShadowA{}), Anonymous: true})
			used["struct-shadowed-embedded-field"] = true
		}
		if promote {
			fields = append(fields, reflect.StructField{Name: "PromoteK", Type: reflect.TypeOf(PromoteK{}), Anonymous: true})
			used["struct-promoted-field"] = true
		}
		first := len(fields)
		var outer []string
		for _, k := range keys {
			if promote && k == "k" {
				continue
			}
			outer = append(outer, k)
			fields = append(fields, reflect.StructField{Name: strings.ToUpper(k[:1]) + k[1:], Type: reflect.TypeOf((*any)(nil)).Elem()})
		}
		used["struct"] = true
		sv := reflect.New(reflect.StructOf(fields)).Elem()
		if shadow {
			sv.Field(0).Set(reflect.ValueOf(ShadowA{A: "decoy that must stay hidden"}))
		}
		if promote {
			sv.FieldByName("PromoteK").Set(reflect.ValueOf(PromoteK{K: toTyped(t["k"], used, depth+1)}))
		}
		for i, k := range outer {
			if e := toTyped(t[k], used, depth+1); e != nil {
				sv.Field(first + i).Set(reflect.ValueOf(e))
			}
		}
		if depth%2 == 0 {
			p := reflect.New(sv.Type())
			p.Elem().Set(sv)
			return p.Interface()
		}
		return sv.Interface()
	}
	return v
}

// embedOK: the path consists of root, child, index and union fragments only. A wildcard, descent, slice or
// filter over a struct yields the embedded struct itself as a member (not its promoted fields), which has
// no counterpart in the simple data; field lookup by name is what embedding is about.
var embedOK bool

// ShadowA and PromoteK are embedded into generated struct types (see toTyped).
type ShadowA struct{ A any }
type PromoteK struct{ K any }

type viol struct {
	entry, kind, class, exp, obs string
	cs                           map[string]any
}

type checker struct {
	c     *mon.Ctx
	out   []viol
	quiet bool
}

func (ck *checker) v(entry, kind, class string, cs map[string]any, exp, obs string) {
	ck.out = append(ck.out, viol{entry, kind, class, exp, obs, cs})
}

func pathClass(p jpref.Path) string {
	var parts []string
	for _, f := range p {
		parts = append(parts, f.Kind)
	}
	return strings.Join(parts, ".")
}

// check runs all comparisons for (p, data); violations are shrunk (fragments dropped while the same
// entry/kind still fails) before they are reported, so that the class names the fragment kinds that matter.
func (ck *checker) check(p jpref.Path, data any, enum bool) {
	ck.out = ck.out[:0]
	ck.quiet = false
	ck.check1(p, data, enum)
	if len(ck.out) == 0 {
		return
	}
	first := append([]viol{}, ck.out...)
	done := map[string]bool{}
	for _, v0 := range first {
		key := v0.entry + "/" + v0.kind
		if done[key] {
			continue
		}
		done[key] = true
		best, bestV := p, v0
		for changed := true; changed && len(best) > 1; {
			changed = false
			for i := range best {
				cand := append(append(jpref.Path{}, best[:i]...), best[i+1:]...)
				if len(cand) == 0 || cand[len(cand)-1].Kind == "descent" {
					continue
				}
				ck.out = ck.out[:0]
				ck.quiet = true
				ck.check1(cand, data, false)
				for _, w := range ck.out {
					if w.entry == v0.entry && w.kind == v0.kind {
						best, bestV, changed = cand, w, true
						break
					}
				}
				if changed {
					break
				}
			}
		}
		cls := pathClass(best)
		if i := strings.Index(bestV.class, "/"); i >= 0 {
			cls += bestV.class[i:]
		}
		ck.c.Violation(bestV.entry, bestV.kind, cls, bestV.cs, bestV.exp, bestV.obs)
	}
}

func (ck *checker) check1(p jpref.Path, data any, enum bool) {
	c := ck.c
	cs := map[string]any{"path": p.String(), "data": treegen.Show(data)}
	c.Begin("jp evaluators", cs)
	x := jpspec.ToExpr(p)
	var got []any
	if pn := mon.Guard(func() { got = x.Get(data) }); pn != nil {
		return // C05 / C12 report panics of Get
	}
	before := jpref.Undefined
	want := jpref.Eval(p, data, jpref.Res{Loc: []any{}, V: data})
	if jpref.Undefined != before {
		return
	}
	// the pivot must agree with J as a multiset; otherwise the case is C05's
	req := 0
	for _, w := range want {
		if !w.Optional {
			req++
		}
	}
	if len(got) < req || len(got) > len(want) {
		// reported by C05; the comparisons with Get below still apply (the property is agreement with Get)
		c.Cover("pivot-disagrees-with-J")
	}
	for _, f := range p {
		if f.Kind == "slice" && len(f.Slice) == 3 && f.Slice[2] < 0 {
			cs["neg_step_start_beyond_end"] = negStepBeyond(p, data)
		}
	}
	if len(got) > 0 && !ck.quiet {
		if enum {
			c.DistinctEnum(1)
		} else {
			c.Distinct(p.String(), treegen.Show(data))
		}
	}
	if !ck.quiet && c.WantSample() && len(got) > 1 && len(p) > 2 {
		c.Sample(map[string]any{"path": p.String(), "data": clip(treegen.Show(data)), "get_results": len(got)})
	}
	class := pathClass(p)
	gm := multiset(got)
	// Has
	var has bool
	if pn := mon.Guard(func() { has = x.Has(data) }); pn != nil {
		ck.v("jp.Expr.Has", "panic", class, cs, "bool", pn.String())
	} else {
		c.Eval(1)
		c.Cover("eval:Has")
		if has != (len(got) > 0) {
			ck.v("jp.Expr.Has", "differs-from-get", class, cs, fmt.Sprint(len(got) > 0, " (Get returns ", len(got), " results)"), fmt.Sprint(has))
		}
	}
	// First / FirstFound
	var first, ff any
	var found bool
	if pn := mon.Guard(func() { first = x.First(data); ff, found = x.FirstFound(data) }); pn != nil {
		ck.v("jp.Expr.First", "panic", class, cs, "value", pn.String())
	} else {
		c.Eval(2)
		c.Cover("eval:First")
		switch {
		case len(got) == 0:
			if first != nil || found {
				ck.v("jp.Expr.First", "found-but-get-empty", class, cs, "nil, false", fmt.Sprint(treegen.Show(norm(first)), " found=", found))
			}
		case !found:
			ck.v("jp.Expr.FirstFound", "not-found-but-get-nonempty", class, cs, "a member of "+clip(treegen.Show(got)), "found=false")
		case gm[jpspec.Ident(first)] == 0 || gm[jpspec.Ident(ff)] == 0:
			ck.v("jp.Expr.First", "not-a-member-of-get", class, cs, "a member of "+clip(treegen.Show(got)), treegen.Show(norm(first)))
		default:
			if totalOrder(want) {
				c.Cover("first-order-defined")
				if jpspec.Ident(first) != jpspec.Ident(got[0]) {
					ck.v("jp.Expr.First", "not-the-first", class, cs, treegen.Show(got[0]), treegen.Show(norm(first)))
				}
			}
		}
	}
	// Locate and Walk
	var locs []jp.Expr
	if pn := mon.Guard(func() { locs = x.Locate(data, 0) }); pn != nil {
		ck.v("jp.Expr.Locate", "panic", class, cs, "paths", pn.String())
	} else {
		c.Eval(1)
		c.Cover("eval:Locate")
		ck.located("jp.Expr.Locate", locs, nil, data, got, gm, class, cs)
		for _, m := range []int{1, 2} {
			var part []jp.Expr
			if pn := mon.Guard(func() { part = x.Locate(data, m) }); pn == nil {
				wantN := m
				if len(locs) < m {
					wantN = len(locs)
				}
				if len(part) != wantN {
					ck.v("jp.Expr.Locate", "max-not-respected", class, with(cs, "max", m), fmt.Sprint(wantN, " paths"), fmt.Sprint(len(part), " paths: ", part))
				} else {
					full := map[string]int{}
					for _, l := range locs {
						full[l.String()]++
					}
					for _, l := range part {
						if full[l.String()] == 0 {
							ck.v("jp.Expr.Locate", "max-result-not-in-full-result", class, with(cs, "max", m), fmt.Sprint(locs), l.String())
						}
						full[l.String()]--
					}
				}
			}
		}
	}
	var wpaths []jp.Expr
	var wvals []any
	if pn := mon.Guard(func() {
		x.Walk(data, func(path jp.Expr, nodes []any) {
			wpaths = append(wpaths, append(jp.Expr{}, path...))
			wvals = append(wvals, nodes[len(nodes)-1])
		})
	}); pn != nil {
		ck.v("jp.Expr.Walk", "panic", class, cs, "callbacks", pn.String())
	} else {
		c.Eval(1)
		c.Cover("eval:Walk")
		ck.located("jp.Expr.Walk", wpaths, wvals, data, got, gm, class, cs)
	}
	// gen twin
	gd := toGen(data)
	// First / FirstFound / Has on the gen twin (their gen branches are separate code)
	var gfirst any
	var gfound, ghas bool
	if pn := mon.Guard(func() { gfirst, gfound = x.FirstFound(gd); ghas = x.Has(gd) }); pn != nil {
		ck.v("jp.Expr.First(gen)", "panic", class, cs, "value", pn.String())
	} else {
		c.Eval(2)
		c.Cover("eval:First(gen)")
		switch {
		case ghas != (len(got) > 0):
			ck.v("jp.Expr.Has(gen)", "differs-from-get", class, cs, fmt.Sprint(len(got) > 0), fmt.Sprint(ghas))
		case gfound != (len(got) > 0):
			ck.v("jp.Expr.FirstFound(gen)", "found-differs-from-get", class, cs, fmt.Sprint(len(got) > 0), fmt.Sprint(gfound))
		case gfound:
			t := treegen.Show(norm(gfirst))
			ok := false
			for _, s := range textSet(got) {
				ok = ok || s == t
			}
			if !ok {
				ck.v("jp.Expr.First(gen)", "not-a-member-of-get", class, cs, clip(strings.Join(textSet(got), " ")), t)
			} else if totalOrder(want) {
				if f0 := treegen.Show(norm(got[0])); f0 != t {
					ck.v("jp.Expr.First(gen)", "not-the-first", class, cs, f0, t)
				}
			}
		}
	}
	var gn []gen.Node
	var fn gen.Node
	if pn := mon.Guard(func() { gn = x.GetNodes(gd); fn = x.FirstNode(gd) }); pn != nil {
		ck.v("jp.Expr.GetNodes", "panic", class, cs, "nodes", pn.String())
	} else {
		c.Eval(2)
		c.Cover("eval:GetNodes")
		c.Cover("eval:FirstNode")
		gv := make([]any, len(gn))
		for i, n := range gn {
			gv[i] = n
		}
		if a, b := textSet(gv), textSet(got); strings.Join(a, "\x00") != strings.Join(b, "\x00") {
			ck.v("jp.Expr.GetNodes", "differs-from-get", class, cs, clip(strings.Join(b, " ")), clip(strings.Join(a, " ")))
		} else if len(got) == 0 {
			if fn != nil {
				ck.v("jp.Expr.FirstNode", "found-but-get-empty", class, cs, "nil", treegen.Show(norm(fn)))
			}
		} else {
			t := treegen.Show(norm(fn))
			ok := false
			for _, s := range textSet(got) {
				ok = ok || s == t
			}
			if !ok {
				ck.v("jp.Expr.FirstNode", "not-a-member-of-get", class, cs, clip(strings.Join(textSet(got), " ")), t)
			} else if totalOrder(want) {
				// where the order of Get's results is defined (array traversal, listed union members) the
				// node evaluators deliver the same sequence and FirstNode is its first element
				c.Cover("gen-order-defined")
				seq := func(vs []any) string {
					out := make([]string, len(vs))
					for i, v := range vs {
						out[i] = treegen.Show(norm(v))
					}
					return strings.Join(out, " ")
				}
				if a, b := seq(gv), seq(got); a != b {
					ck.v("jp.Expr.GetNodes", "order-differs-from-get", class, cs, clip(b), clip(a))
				} else if first := treegen.Show(norm(got[0])); t != first {
					ck.v("jp.Expr.FirstNode", "not-the-first", class, cs, first, t)
				}
			}
		}
	}
	// other representations
	reprs := map[string]any{"gen": gd}
	used := map[string]bool{}
	embedOK = true
	for _, f := range p {
		switch f.Kind {
		case "root", "at", "child", "nth", "union":
		default:
			embedOK = false
		}
	}
	typed := toTyped(treegen.Dup(data), used, 0)
	if len(used) > 0 {
		reprs["typed"] = typed
	}
	coll := toCollections(data)
	reprs["collections"] = coll
	for name, rd := range reprs {
		var rg []any
		if pn := mon.Guard(func() { rg = x.Get(rd) }); pn != nil {
			ck.v("jp.Expr.Get("+name+")", "panic", class, cs, "results", pn.String())
			continue
		}
		c.Eval(1)
		if name == "typed" {
			for k := range used {
				c.Cover("repr:" + k)
			}
		} else if name == "gen" {
			c.Cover("repr:gen")
		} else {
			c.Cover("repr:keyed")
			c.Cover("repr:indexed")
		}
		if a, b := textSet(rg), textSet(got); strings.Join(a, "\x00") != strings.Join(b, "\x00") {
			kinds := []string{}
			for k := range used {
				kinds = append(kinds, k)
			}
			sort.Strings(kinds)
			cl := class
			if name == "typed" {
				cl += "/" + strings.Join(kinds, "+")
			}
			ck.v("jp.Expr.Get("+name+")", "selects-other-elements", cl, cs, clip(strings.Join(b, " ")), clip(strings.Join(a, " ")))
			continue
		}
		var rh bool
		var rf any
		if pn := mon.Guard(func() { rh = x.Has(rd); rf = x.First(rd) }); pn != nil {
			ck.v("jp.Expr.Has("+name+")", "panic", class, cs, "bool", pn.String())
			continue
		}
		if rh != (len(got) > 0) {
			ck.v("jp.Expr.Has("+name+")", "differs-from-get", class, cs, fmt.Sprint(len(got) > 0), fmt.Sprint(rh))
		}
		if len(got) > 0 {
			t := treegen.Show(norm(rf))
			ok := false
			for _, s := range textSet(got) {
				ok = ok || s == t
			}
			if !ok {
				ck.v("jp.Expr.First("+name+")", "not-a-member-of-get", class, cs, clip(strings.Join(textSet(got), " ")), t)
			}
		}
		// Locate and Walk on the representation: the same normalized paths as on the simple data
		want := make([]string, len(locs))
		for i, l := range locs {
			want[i] = l.String()
		}
		sort.Strings(want)
		var rl []jp.Expr
		var rw []string
		if pn := mon.Guard(func() {
			rl = x.Locate(rd, 0)
			x.Walk(rd, func(path jp.Expr, _ []any) { rw = append(rw, path.String()) })
		}); pn != nil {
			ck.v("jp.Expr.Locate("+name+")", "panic", class, cs, "paths", pn.String())
			continue
		}
		c.Eval(2)
		c.Cover("eval:Locate/Walk(" + name + ")")
		// paths on other representations may spell a struct field by its Go name and keep a negative index:
		// both are resolved against the simple data before the comparison
		ls := make([]string, len(rl))
		for i, l := range rl {
			ls[i] = canonPath(l, data)
		}
		sort.Strings(ls)
		for i := range want {
			want[i] = canonPath(locs[i], data)
		}
		sort.Strings(want)
		var rwx []jp.Expr
		x.Walk(rd, func(path jp.Expr, _ []any) { rwx = append(rwx, append(jp.Expr{}, path...)) })
		rw = rw[:0]
		for _, l := range rwx {
			rw = append(rw, canonPath(l, data))
		}
		sort.Strings(rw)
		if strings.Join(ls, " ") != strings.Join(want, " ") {
			ck.v("jp.Expr.Locate("+name+")", "differs-from-locate-on-simple-data", class, cs, clip(strings.Join(want, " ")), clip(strings.Join(ls, " ")))
		}
		// Walk reports paths without the root fragment: compared with the Walk paths on the simple data
		ww := make([]string, len(wpaths))
		for i, l := range wpaths {
			ww[i] = canonPath(l, data)
		}
		sort.Strings(ww)
		if strings.Join(rw, " ") != strings.Join(ww, " ") {
			ck.v("jp.Expr.Walk("+name+")", "differs-from-walk-on-simple-data", class, cs, clip(strings.Join(ww, " ")), clip(strings.Join(rw, " ")))
		}
	}
}

func with(cs map[string]any, k string, v any) map[string]any {
	m := map[string]any{k: v}
	for a, b := range cs {
		m[a] = b
	}
	return m
}

// totalOrder: J's results are totally ordered (no map iteration, no duplicates, nothing optional).
func totalOrder(want []jpref.Res) bool {
	seen := map[string]bool{}
	for _, w := range want {
		if w.Optional {
			return false
		}
		for _, p := range w.Prov {
			if !p.Ordered || p.Descent {
				return false
			}
		}
		id := w.LocString()
		if seen[id] {
			return false
		}
		seen[id] = true
	}
	return true
}

// located checks normalized paths (and optionally the values delivered with
// them) against Get's results.
func (ck *checker) located(entry string, paths []jp.Expr, vals []any, data any, got []any, gm map[string]int, class string, cs map[string]any) {
	if len(paths) != len(got) {
		dir := "fewer"
		if len(paths) > len(got) {
			dir = "more"
		}
		ck.v(entry, "count-differs-from-get", class, cs, fmt.Sprintf("%d locations (Get: %s)", len(got), clip(treegen.Show(got))), fmt.Sprintf("%d locations (%s): %v", len(paths), dir, paths))
		return
	}
	left := map[string]int{}
	for k, v := range gm {
		left[k] = v
	}
	for i, l := range paths {
		if !normalized(l) {
			ck.v(entry, "path-not-normalized", class, cs, "only root, child and index fragments", l.String())
			return
		}
		var r []any
		if pn := mon.Guard(func() { r = l.Get(data) }); pn != nil || len(r) != 1 {
			ck.v(entry, "path-does-not-lead-to-one-element", class, cs, "exactly one element at "+l.String(), fmt.Sprint(len(r), " elements"))
			return
		}
		id := jpspec.Ident(r[0])
		if left[id] == 0 {
			ck.v(entry, "location-not-selected-by-get", class, cs, clip(treegen.Show(got)), l.String()+" = "+clip(treegen.Show(r[0])))
			return
		}
		left[id]--
		if vals != nil && jpspec.Ident(vals[i]) != id {
			ck.v(entry, "value-does-not-match-path", class, cs, l.String()+" = "+clip(treegen.Show(r[0])), clip(treegen.Show(norm(vals[i]))))
			return
		}
	}
}

// canonPath renders a located path resolved against the simple data: indexes non-negative, keys spelled as
// in the data (a struct field reported by its Go name matches the key case-insensitively), no root fragment.
func canonPath(x jp.Expr, data any) string {
	var b strings.Builder
	cur := data
	for _, f := range x {
		switch t := f.(type) {
		case jp.Root, jp.At:
		case jp.Nth:
			i := int(t)
			if a, ok := cur.([]any); ok {
				if i < 0 {
					i += len(a)
				}
				if i >= 0 && i < len(a) {
					cur = a[i]
				} else {
					cur = nil
				}
			} else {
				cur = nil
			}
			fmt.Fprintf(&b, "[%d]", i)
		case jp.Child:
			k := string(t)
			if m, ok := cur.(map[string]any); ok {
				if _, has := m[k]; !has {
					for mk := range m {
						if strings.EqualFold(mk, k) {
							k = mk
						}
					}
				}
				cur = m[k]
			} else {
				cur = nil
			}
			fmt.Fprintf(&b, "[%q]", k)
		default:
			fmt.Fprintf(&b, "<%T>", f)
		}
	}
	return b.String()
}

func normalized(x jp.Expr) bool {
	for i, f := range x {
		switch f.(type) {
		case jp.Root, jp.At: // a path rooted at @ is reported rooted at @
			if i != 0 {
				return false
			}
		case jp.Child, jp.Nth:
		default:
			return false
		}
	}
	return true
}

// negStepBeyond: some negative-step slice of the path is applied to an array
// whose length is <= its (normalised) start - the pinned disagreement between
// Locate/Walk (clamp to the last element) and Get (select nothing).
func negStepBeyond(p jpref.Path, data any) bool {
	found := false
	var walk func(fi int, cur any)
	walk = func(fi int, cur any) {
		if fi >= len(p) || found {
			return
		}
		f := p[fi]
		if f.Kind == "slice" && len(f.Slice) == 3 && f.Slice[2] < 0 {
			if a, ok := cur.([]any); ok {
				s := f.Slice[0]
				if s < 0 {
					s += len(a)
				}
				if s >= len(a) && len(a) > 0 {
					found = true
					return
				}
			}
		}
		for _, r := range jpref.Eval(jpref.Path{f}, data, jpref.Res{Loc: []any{}, V: cur}) {
			walk(fi+1, r.V)
		}
	}
	walk(0, data)
	return found
}

const omitted = 1 << 20

func run(c *mon.Ctx) {
	ck := &checker{c: c}
	idx := 0
	for L := 0; L <= 5; L++ {
		flat := make([]any, L, L+1)
		maps := make([]any, L, L+1)
		arrs := make([]any, L, L+1)
		for i := 0; i < L; i++ {
			flat[i] = int64(100 + i)
			maps[i] = map[string]any{"k": int64(200 + i), "z": int64(300 + i)}
			arrs[i] = []any{int64(400 + 2*i), int64(401 + 2*i)}
		}
		bounds := []int{omitted}
		for b := -L - 2; b <= L+2; b++ {
			bounds = append(bounds, b)
		}
		for _, s := range bounds {
			for _, e := range bounds {
				for _, st := range []int{omitted, -3, -2, -1, 0, 1, 2, 3} {
					idx++
					if !c.Mine(idx) {
						continue
					}
					var sl []int
					switch {
					case s == omitted && e == omitted && st == omitted:
						sl = []int{}
					case e == omitted && st == omitted:
						sl = []int{s}
					case st == omitted:
						sl = []int{z(s), en(e)}
					default:
						sl = []int{z(s), en(e), st}
					}
					f := jpspec.Slice(sl...)
					ck.check(jpref.Path{jpspec.Root(), f}, flat, true)
					ck.check(jpref.Path{jpspec.Root(), f, jpspec.Child("k")}, maps, true)
					ck.check(jpref.Path{f, jpspec.Nth(0)}, arrs, true)
				}
			}
		}
		for a := -L - 2; a <= L+2; a++ {
			idx++
			if !c.Mine(idx) {
				continue
			}
			ck.check(jpref.Path{jpspec.Root(), jpspec.Nth(a)}, flat, true)
			ck.check(jpref.Path{jpspec.Nth(a), jpspec.Child("k")}, maps, true)
			for b := -L - 2; b <= L+2; b++ {
				ck.check(jpref.Path{jpspec.Root(), jpspec.Union(a, b)}, flat, true)
				ck.check(jpref.Path{jpspec.Union(a, "x", b), jpspec.Nth(-1)}, arrs, true)
			}
		}
	}
	// magnitudes at and near the int limits as slice bounds and steps, indexes and union members
	for _, L := range []int{0, 1, 3} {
		flat := make([]any, L)
		maps := make([]any, L)
		arrs := make([]any, L)
		for i := 0; i < L; i++ {
			flat[i] = int64(100 + i)
			maps[i] = map[string]any{"k": int64(200 + i), "z": int64(300 + i)}
			arrs[i] = []any{int64(400 + 2*i), int64(401 + 2*i)}
		}
		for _, sl := range jpspec.ExtremeSlices() {
			idx++
			if !c.Mine(idx) {
				continue
			}
			f := jpspec.Slice(sl...)
			c.Cover("lattice:extreme-magnitudes")
			ck.check(jpref.Path{jpspec.Root(), f}, flat, true)
			ck.check(jpref.Path{jpspec.Root(), f, jpspec.Child("k")}, maps, true)
			ck.check(jpref.Path{f, jpspec.Nth(0)}, arrs, true)
		}
		for _, a := range jpspec.ExtremeInts {
			idx++
			if !c.Mine(idx) {
				continue
			}
			c.Cover("lattice:extreme-magnitudes")
			ck.check(jpref.Path{jpspec.Root(), jpspec.Nth(a)}, flat, true)
			ck.check(jpref.Path{jpspec.Nth(a), jpspec.Child("k")}, maps, true)
			ck.check(jpref.Path{jpspec.Root(), jpspec.Union(a, 0)}, flat, true)
			ck.check(jpref.Path{jpspec.Union(0, a, -1), jpspec.Nth(-1)}, arrs, true)
		}
	}

	r := c.Rand("paths")
	g := &jpspec.Gen{R: r, Keys: []string{"a", "b", "c", "d", "k"}}
	n := c.Pick(1600000, 12000000) / c.Batches
	for i := 0; i < n; i++ {
		g.ResetLeaves()
		data := g.Tree(2 + r.Intn(3))
		p := g.Path(1+r.Intn(5), jpspec.AllKinds, false)
		ck.check(p, data, false)
		if i%16 == 0 {
			ck.walkAll(data)
		}
	}
}

// fromGen converts a scalar gen node to the simple value (containers are not expected here).
func fromGen(v any) any {
	switch t := v.(type) {
	case gen.Int:
		return int64(t)
	case gen.Float:
		return float64(t)
	case gen.String:
		return string(t)
	case gen.Bool:
		return bool(t)
	}
	return v
}

// walkAll: the package function jp.Walk must visit every node of the data exactly once with its normalized
// path (all nodes, or the leaves only), on simple data and on the gen twin.
func (ck *checker) walkAll(data any) {
	c := ck.c
	want := map[string]string{}
	leaves := map[string]string{}
	// paths are compared through jp's own normalized rendering of (Child/Nth) fragments, built here
	var rec2 func(x jp.Expr, v any)
	want, leaves = map[string]string{}, map[string]string{}
	rec2 = func(x jp.Expr, v any) {
		key := x.String()
		switch t := v.(type) {
		case []any:
			want[key] = "array"
			for i, e := range t {
				rec2(append(append(jp.Expr{}, x...), jp.Nth(i)), e)
			}
		case map[string]any:
			want[key] = "object"
			for k, e := range t {
				rec2(append(append(jp.Expr{}, x...), jp.Child(k)), e)
			}
		default:
			want[key] = treegen.Show(v)
			leaves[key] = treegen.Show(v)
		}
	}
	rec2(jp.R(), data)
	cs := map[string]any{"data": clip(treegen.Show(data))}
	for _, variant := range []struct {
		name       string
		d          any
		justLeaves bool
		want       map[string]string
	}{{"jp.Walk", data, false, want}, {"jp.Walk(justLeaves)", data, true, leaves}, {"jp.Walk(gen)", toGen(data), false, want}, {"jp.Walk(gen,justLeaves)", toGen(data), true, leaves}} {
		got := map[string]string{}
		dup := ""
		pn := mon.Guard(func() {
			jp.Walk(variant.d, func(path jp.Expr, value any) {
				k := path.String()
				if _, seen := got[k]; seen {
					dup = k
				}
				switch value.(type) {
				case []any, gen.Array:
					got[k] = "array"
				case map[string]any, gen.Object:
					got[k] = "object"
				default:
					got[k] = treegen.Show(fromGen(value))
				}
			}, variant.justLeaves)
		})
		c.Eval(1)
		c.Cover("eval:jp.Walk")
		switch {
		case pn != nil:
			c.Violation(variant.name, "panic", mon.FaultClass(pn.Msg), cs, "every node visited", pn.String())
		case dup != "":
			c.Violation(variant.name, "node-visited-twice", "", cs, "each node once", dup)
		case !reflect.DeepEqual(got, variant.want):
			c.Violation(variant.name, "visits-differ", "", cs, clip(fmt.Sprint(variant.want)), clip(fmt.Sprint(got)))
		}
	}
}

func z(s int) int {
	if s == omitted {
		return 0
	}
	return s
}

func en(e int) int {
	if e == omitted {
		return 1<<31 - 1
	}
	return e
}
