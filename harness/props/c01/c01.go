// Package c01: strict JSON front-ends accept exactly the RFC 8259 language.
// Oracle: the reference recogniser R (refereed by encoding/json.Valid).
package c01

import (
	"encoding/json"
	"fmt"

	"verif/gen/jsongen"
	"verif/mon"
	"verif/props/jsonfe"
	"verif/ref/jsonref"
)

func init() {
	mon.Register(&mon.Prop{
		ID:      "C01",
		Batches: func(tier string) int { return map[string]int{"quick": 16, "thorough": 64}[tier] },
		Run:     run,
		Rule: "cases: every byte string over all 256 byte values up to length 2 (quick) / 3 (thorough), every string over a 39-byte JSON alphabet up to length 4 / 5, " +
			"every (grammar-state prefix x container context x next byte x suffix) product, generated valid texts with 5 mutants each, BOM variants and documents with a token at the 4096/8192 refill boundary; " +
			"each is handed to 10 front-ends (fresh instances and pooled package functions), to front-ends called with options that must not change what is accepted (NumConv arguments, Reuse, a second parse on the same gen.Parser) and to one long-lived instance of each parser, validator and tokenizer that sees the whole workload, and the accept/reject decision compared with the reference recogniser R. " +
			"non-trivial: the input is non-empty and R's viable prefix extends beyond the first byte; distinct: enumerated strings are distinct by construction, all others are counted by digest",
		Assumptions: []string{
			"the reference recogniser R is RFC 8259 plus exactly the deviations named in C01 (checked against encoding/json.Valid on every BOM-less non-empty case: any disagreement makes the run inconclusive)",
			"an input consisting of exactly the BOM is don't-care (the statement does not say whether that is an empty input)",
			"a front-end that panics is counted as rejecting here; the panic itself is C06's business",
		},
		Findings: map[string]func(v *mon.Violation) bool{},
		Floors: func(tier string, cover map[string]int64, evals int64) []string {
			var out []string
			cells := 0
			for k := range cover {
				if len(k) > 5 && k[:5] == "cell:" {
					cells++
				}
			}
			if cells < 400 {
				out = append(out, fmt.Sprintf("only %d state x context x byte-class cells reached (floor 400)", cells))
			}
			if cover["referee-disagreements"] > 0 {
				out = append(out, "reference recogniser disagrees with encoding/json.Valid")
			}
			return out
		},
		Exhaustive: func(tier string) []string {
			if tier == "thorough" {
				return []string{"all byte strings of length <= 3 over 256 byte values", "all strings of length <= 5 over the 39-byte JSON alphabet"}
			}
			return []string{"all byte strings of length <= 2 over 256 byte values", "all strings of length <= 4 over the 39-byte JSON alphabet"}
		},
	})
}

var classIdx [256]uint8
var classNames []string

func init() {
	seen := map[string]int{}
	for b := 0; b < 256; b++ {
		n := jsonref.ByteClass(byte(b))
		i, ok := seen[n]
		if !ok {
			i = len(classNames)
			seen[n] = i
			classNames = append(classNames, n)
		}
		classIdx[b] = uint8(i)
	}
	classNames = append(classNames, "eof")
}

var ctxIdx = map[string]int{"top": 0, "arr": 1, "obj": 2}
var ctxNames = []string{"top", "arr", "obj"}

func run(c *mon.Ctx) {
	var cells [32][3][40]int64
	fes := append(append(append([]jsonfe.FE{}, jsonfe.FEs...), jsonfe.OptionFEs...), jsonfe.ReusedFEs...)
	nfe := len(fes)
	confusion := make([][2][2]int64, nfe)
	bySrc := map[string]int64{}
	shrunk := 0
	jsonfe.Workload(c, func(x []byte, src string) {
		c.Begin("strict-frontends", x)
		bySrc[src]++
		v, k, st, ctx, _ := jsonref.Trace(x)
		if len(x) == 3 && x[0] == 0xEF && x[1] == 0xBB && x[2] == 0xBF {
			return // BOM alone: don't-care
		}
		valid := v != 0
		bc := len(classNames) - 1
		if k < len(x) {
			bc = int(classIdx[x[k]])
		}
		cells[st][ctxIdx[ctx]][bc]++
		if len(x) > 0 && x[0] != 0xEF {
			if json.Valid(x) != (v == 1) {
				c.Cover("referee-disagreements")
				c.Note(fmt.Sprintf("R and json.Valid disagree on %q", x))
			}
		}
		if len(x) > 0 && (k >= 1 || valid) {
			if src == "enum256" || src == "enum39" {
				c.DistinctEnum(1)
			} else {
				c.Distinct(x)
			}
		}
		if c.WantSample() && len(x) > 3 && src != "enum256" {
			c.Sample(map[string]any{"input": mon.B(append([]byte{}, x...)), "source": src, "R": []string{"invalid", "valid", "empty"}[v], "viable_prefix": k})
		}
		for fi := range fes {
			fe := &fes[fi]
			if fi >= len(jsonfe.FEs) && src == "enum39" && len(x) >= 4 && !c.Thorough() {
				continue // the bulk enumeration goes to the plain front-ends only
			}
			err, _ := jsonfe.Call(fe, x, jsongen.Whole)
			c.Eval(1)
			a, b := 0, 0
			if err == nil {
				a = 1
			}
			if valid {
				b = 1
			}
			confusion[fi][a][b]++
			if (err == nil) == valid {
				continue
			}
			report(c, fe, x, valid, &shrunk)
		}
	})
	for s := range cells {
		for ci := range cells[s] {
			for b, n := range cells[s][ci] {
				if n > 0 {
					c.CoverN(fmt.Sprintf("cell:%s/%s/%s", jsonref.State(s), ctxNames[ci], classNames[b]), n)
				}
			}
		}
	}
	for fi, m := range confusion {
		n := fes[fi].Name
		c.CoverN("fe:"+n+":reject/invalid", m[0][0])
		c.CoverN("fe:"+n+":reject/valid", m[0][1])
		c.CoverN("fe:"+n+":accept/invalid", m[1][0])
		c.CoverN("fe:"+n+":accept/valid", m[1][1])
	}
	for s, n := range bySrc {
		c.CoverN("inputs:"+s, n)
	}
}

func report(c *mon.Ctx, fe *jsonfe.FE, x []byte, valid bool, shrunk *int) {
	w := append([]byte{}, x...)
	if *shrunk < 300 {
		*shrunk++
		w = mon.ShrinkBytes(w, func(y []byte) bool {
			if len(y) == 3 && y[0] == 0xEF {
				return false
			}
			v, _ := jsonref.Check(y)
			err, _ := jsonfe.Call(fe, y, jsongen.Whole)
			return (v != 0) == valid && (err == nil) != valid
		})
	}
	v, k, st, ctx, _ := jsonref.Trace(w)
	err, _ := jsonfe.Call(fe, w, jsongen.Whole)
	kind, class := "false-accept", ""
	if valid {
		kind = "false-reject"
		class = "nopos"
		if l, col, ok := jsonfe.Pos(err); ok {
			if off := jsonref.Offset(w, l, col); off >= 0 {
				s2, c2 := jsonref.StateAt(w, off)
				bc := "eof"
				if off < len(w) {
					bc = jsonref.ByteClass(w[off])
				}
				class = fmt.Sprintf("%s/%s/%s", s2, c2, bc)
			}
		}
	} else {
		bc := "eof"
		if k < len(w) {
			bc = jsonref.ByteClass(w[k])
		}
		class = fmt.Sprintf("%s/%s/%s", st, ctx, bc)
	}
	obs := "no error"
	if err != nil {
		obs = "error: " + err.Error()
	}
	c.Violation(fe.Name, kind, class, mon.B(w), fmt.Sprintf("R: %s (viable prefix %d of %d bytes)", []string{"invalid", "valid", "empty"}[v], k, len(w)), obs)
}
