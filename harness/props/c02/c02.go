// Package c02: parsed values denote exactly what the JSON text denotes.
// Oracle: reference decoder D (exact decimal numbers, strconv.ParseFloat as
// nearest-float referee) compared with every decoding route.
package c02

import (
	"encoding/json"
	"fmt"
	"github.com/ohler55/ojg"
	"regexp"
	"strings"

	"verif/gen/jsongen"
	"verif/mon"
	"verif/props/decoders"
	"verif/ref/jsonref"
)

func init() {
	mon.Register(&mon.Prop{
		ID:      "C02",
		Batches: func(tier string) int { return map[string]int{"quick": 16, "thorough": 48}[tier] },
		Run:     run,
		Rule: "cases: (numbers) the product sign x 91 integer-part shapes (lengths 1..22, int64/uint64 boundary neighbours) x 86 fraction shapes x 22 exponent forms, each in 2 (quick) / 6 (thorough) syntactic contexts; " +
			"(strings) all 65536 \\uXXXX escapes in both hex cases alone and embedded, surrogate pairs (corners, lone halves, random), every simple escape, escapes next to buffer-growth lengths; " +
			"(documents) generated valid texts with duplicate keys, escapes, raw high bytes and boundary numbers. Each valid text is decoded by 14 routes (oj/gen/sen parsers from []byte and from readers incl. 1-byte reads, tokenizers rebuilt by the harness collector and by alt.Builder) " +
			"and compared with the reference decoder; texts with a number beyond int64/float64 are decoded a second time with the package default ojg.DefaultNumConvMethod set to NumConvString (such a number may then be the string of its digits, nothing else may change or get lost). non-trivial: every case (all are valid JSON with at least one number, escape or member); distinct: lattice points and escapes are distinct by construction, documents by digest",
		Assumptions: []string{
			"a float64 must equal strconv.ParseFloat(literal) (correctly rounded); literals whose nearest float64 is infinite are don't-care between Inf and a big-number form",
			"-0 may come back as int64(0) (the value is zero)",
			"a lone surrogate escape decodes to U+FFFD; a high surrogate followed by a low surrogate decodes to the combined code point",
		},
		Findings: map[string]func(v *mon.Violation) bool{
			"maxIntInlineLoopBig": maxIntPred,
		},
		Floors: func(tier string, cover map[string]int64, evals int64) []string {
			var out []string
			for _, k := range []string{"repr:int64", "repr:float64", "repr:big", "src:number", "src:escape", "src:document", "escape:surrogate-pair"} {
				if cover[k] == 0 {
					out = append(out, "coverage class never reached: "+k)
				}
			}
			return out
		},
		Exhaustive: func(tier string) []string {
			return []string{"all 65536 \\uXXXX escapes (lower and upper case hex), alone and embedded", "the full number-shape lattice (sign x integer shape x fraction shape x exponent form)"}
		},
	})
}

var maxIntRe = regexp.MustCompile(`^-?92233720368547758(0[0-9])$`)

// maxIntPred: pinned by oj/gen/sen parser_test.go ("max int"): plain integers
// 9223372036854775800..807 come back as a big number from the in-memory
// parsers' inline digit loop.
func maxIntPred(v *mon.Violation) bool {
	if v.Kind != "value" || !strings.HasSuffix(v.Class, "/int-as-big") {
		return false
	}
	// the literal the observation is about (a number on its own or inside a document)
	lit := ""
	if m, ok := v.Case.(map[string]any); ok {
		lit, _ = m["literal"].(string)
	}
	if lit == "" {
		if m := maxIntObs.FindStringSubmatch(v.Observed); m != nil {
			lit = m[1]
		}
	}
	if !maxIntRe.MatchString(lit) || strings.HasPrefix(lit, "-") {
		return false
	}
	return lit[len(lit)-1] <= '7'
}

var maxIntObs = regexp.MustCompile(`plain integer literal (-?[0-9]+) that fits int64 came back as big`)

var specialInts = []string{"0", "1", "9", "10", "12", "123456789", "922337203685477580", "922337203685477581", "9223372036854775806", "9223372036854775807", "9223372036854775808", "9223372036854775809", "9223372036854775800", "9223372036854775799",
	"18446744073709551615", "18446744073709551616", "20000000000000000000", "92233720368547758070", "99999999999999999999", "100000000000000000000", "123456789012345678901234567890", "999999999999999999", "1000000000000000000", "9999999999999999999", "10000000000000000000"}

var specialFracs = []string{"", ".0", ".5", ".25", ".1", ".01", ".10", ".000000000000000001", ".0000000000000000001", ".00000000000000000001", ".123456789012345678", ".1234567890123456789", ".12345678901234567890",
	".999999999999999999", ".9999999999999999999", ".000000000000000000000001", ".5000000000000000000000", ".3", ".7", ".456"}

var exps = []string{"", "e0", "e1", "E+1", "e-1", "e007", "e22", "e23", "e-22", "e308", "e309", "e-308", "e-324", "e-325", "e1022", "e1023", "e-1022", "e-1023", "e99999", "e10", "E5", "e+05"}

var numContexts = []string{"%s", "[%s]", "[%s ]", `{"a":%s}`, "[%s\n]", "[%s,1]"}

func lattice() (ints, fracs []string) {
	ints = append(ints, specialInts...)
	fracs = append(fracs, specialFracs...)
	for n := 1; n <= 22; n++ {
		ints = append(ints, "1"+strings.Repeat("0", n-1), strings.Repeat("9", n), ("1234567890123456789012")[:n])
		fracs = append(fracs, "."+strings.Repeat("0", n-1)+"1", "."+strings.Repeat("9", n), "."+strings.Repeat("0", n))
	}
	return
}

type state struct {
	c     *mon.Ctx
	plans []jsongen.Plan
}

func run(c *mon.Ctx) {
	s := &state{c: c, plans: []jsongen.Plan{jsongen.Whole, jsongen.Fixed(1)}}
	ints, fracs := lattice()
	// (a) numbers
	idx := 0
	for _, sign := range []string{"", "-"} {
		for _, ip := range ints {
			for _, fp := range fracs {
				idx++
				if !c.Mine(idx) {
					continue
				}
				for ei, e := range exps {
					lit := sign + ip + fp + e
					c.DistinctEnum(1)
					nctx := 2
					if c.Thorough() {
						nctx = len(numContexts)
					}
					for k := 0; k < nctx; k++ {
						ctx := numContexts[(idx+ei+k*3)%len(numContexts)]
						s.check([]byte(fmt.Sprintf(ctx, lit)), "number", map[string]any{"literal": lit, "context": ctx})
					}
				}
			}
		}
	}
	// (b) escapes
	for u := 0; u < 0x10000; u++ {
		if !c.Mine(u) {
			continue
		}
		c.DistinctEnum(2)
		lo, up := fmt.Sprintf(`\u%04x`, u), fmt.Sprintf(`\u%04X`, u)
		s.check([]byte(`"`+lo+`"`), "escape", map[string]any{"escape": lo})
		s.check([]byte(`["a`+up+`b"]`), "escape", map[string]any{"escape": up})
		if u%97 == 0 {
			s.check([]byte(`{"`+lo+`":"`+up+up+`"}`), "escape", map[string]any{"escape": lo, "as": "key"})
		}
	}
	if c.Batch == 0 {
		for _, e := range []string{`\"`, `\\`, `\/`, `\b`, `\f`, `\n`, `\r`, `\t`} {
			c.DistinctEnum(1)
			for _, pad := range []int{0, 1, 15, 16, 30, 31, 32, 33, 62, 63, 64, 65, 127, 128, 1023, 4094, 4095, 4096} {
				s.check([]byte(`"`+strings.Repeat("x", pad)+e+`y"`), "escape", map[string]any{"escape": e, "pad": pad})
				s.check([]byte(`{"`+strings.Repeat("k", pad)+e+`":1}`), "escape", map[string]any{"escape": e, "pad": pad, "as": "key"})
			}
		}
	}
	r := c.Rand("surr")
	corners := []int{0xD800, 0xD801, 0xDBFF, 0xDC00, 0xDC01, 0xDFFF, 0xD7FF, 0xE000, 0x0041, 0xFFFF}
	for _, a := range corners {
		for _, b := range corners {
			if !c.Mine(a + b) {
				continue
			}
			c.DistinctEnum(1)
			e := fmt.Sprintf(`\u%04x\u%04X`, a, b)
			s.surr(a, b)
			s.check([]byte(`"`+e+`"`), "escape", map[string]any{"escape": e})
			s.check([]byte(`["x`+e+`y", "`+e+e+`"]`), "escape", map[string]any{"escape": e})
		}
	}
	for i := 0; i < c.Pick(1500, 20000); i++ {
		a, b := 0xD800+r.Intn(0x400), 0xDC00+r.Intn(0x400)
		if r.Intn(8) == 0 {
			a, b = b, a
		}
		e := fmt.Sprintf(`\u%04x\u%04x`, a, b)
		c.Distinct(e)
		s.surr(a, b)
		s.check([]byte(`{"k`+e+`":"`+e+`z"}`), "escape", map[string]any{"escape": e})
	}
	// (c) documents
	styles := []jsongen.Style{
		{MaxDepth: 3, MaxWidth: 4, WS: 1, Escapes: 0.3, DupKeys: true, HiBytes: true, Surr: true, BigNums: true},
		{MaxDepth: 5, MaxWidth: 3, WS: 0, Escapes: 0.1, DupKeys: true, BigNums: true},
		{MaxDepth: 2, MaxWidth: 6, WS: 2, Escapes: 0.5, Surr: true, HiBytes: true},
	}
	rd := c.Rand("docs")
	for i := 0; i < c.Pick(12000, 200000)/c.Batches; i++ {
		g := jsongen.New(rd, styles[i%len(styles)])
		t := g.Text()
		c.Distinct(t)
		s.check([]byte(t), "document", map[string]any{"text": mon.B(t)})
	}
}

func (s *state) surr(a, b int) {
	switch {
	case 0xD800 <= a && a < 0xDC00 && 0xDC00 <= b && b < 0xE000:
		s.c.Cover("escape:surrogate-pair")
	case 0xD800 <= a && a < 0xE000 || 0xD800 <= b && b < 0xE000:
		s.c.Cover("escape:lone-surrogate")
	}
}

func reprOf(v any, c *mon.Ctx) {
	switch t := v.(type) {
	case int64:
		c.Cover("repr:int64")
	case float64:
		c.Cover("repr:float64")
	case []any:
		if len(t) > 0 {
			reprOf(t[0], c)
		}
	case map[string]any:
		reprOf(t["a"], c)
	case nil, bool, string:
	default:
		c.Cover("repr:big")
	}
}

func (s *state) check(x []byte, src string, cs map[string]any) {
	c := s.c
	c.Begin("decoders", x)
	if v, _ := jsonref.Check(x); v != 1 {
		c.Inconclusive(fmt.Sprintf("generator produced a text R does not accept: %q", x))
		return
	}
	want := jsonref.Decode(x)
	c.Cover("src:" + src)
	if c.WantSample() && len(x) > 6 {
		c.Sample(map[string]any{"input": mon.B(x), "source": src, "reference_value": clipS(want.String())})
	}
	sawBig := s.decodeAll(x, src, cs, want, "")
	if sawBig {
		// the package-level default for numbers that fit neither int64 nor float64: with NumConvString they
		// come back as the string of their digits; nothing else may change and no number may get lost
		old := ojg.DefaultNumConvMethod
		ojg.DefaultNumConvMethod = ojg.NumConvString
		jsonref.NumAsStringOK = true
		c.Cover("default-numconv:string")
		s.decodeAll(x, src, cs, want, " with ojg.DefaultNumConvMethod=NumConvString")
		ojg.DefaultNumConvMethod = old
		jsonref.NumAsStringOK = false
	}
}

// hasBig: some number of the value came back in a big-number form.
func hasBig(v any) bool {
	switch t := v.(type) {
	case json.Number:
		return true
	case []any:
		for _, e := range t {
			if hasBig(e) {
				return true
			}
		}
	case map[string]any:
		for _, e := range t {
			if hasBig(e) {
				return true
			}
		}
	}
	return false
}

func (s *state) decodeAll(x []byte, src string, cs map[string]any, want *jsonref.Value, suffix string) (sawBig bool) {
	c := s.c
	first := suffix == ""
	for di := range decoders.All {
		d := &decoders.All[di]
		for pi, pl := range s.plans {
			if pi > 0 && !d.Reader {
				continue
			}
			got, err := decoders.Call(d, x, pl)
			c.Eval(1)
			entry := d.Name
			if pi > 0 {
				entry += "(1-byte reads)"
			}
			entry += suffix
			if err != nil {
				if strings.HasPrefix(err.Error(), "PANIC") {
					c.Cover("panics-left-to-C06")
					continue
				}
				cs2 := withInput(cs, x)
				c.Violation(entry, "error-on-valid-text", src, cs2, "value "+clipS(want.String()), "error: "+err.Error())
				continue
			}
			if first {
				reprOf(got, c)
				first = false
			}
			sawBig = sawBig || hasBig(got)
			ok, why := jsonref.EqualGo(want, got, "$")
			if ok {
				continue
			}
			c.Violation(entry, "value", src+"/"+classify(why), withInput(cs, x), clipS(want.String()), why)
		}
	}
	return sawBig
}

func withInput(cs map[string]any, x []byte) map[string]any {
	out := map[string]any{"input": mon.B(x)}
	for k, v := range cs {
		out[k] = v
	}
	return out
}

func clipS(s string) string {
	if len(s) > 300 {
		return s[:300] + "…"
	}
	return s
}

// classify turns EqualGo's explanation into a stable class.
func classify(why string) string {
	switch {
	case strings.Contains(why, "that fits int64 came back as big"):
		return "int-as-big"
	case strings.Contains(why, "that fits int64 came back as float64"):
		return "int-as-float"
	case strings.Contains(why, "is not the nearest float64"):
		return "float-not-nearest"
	case strings.Contains(why, "for out-of-range literal"):
		return "float-out-of-range"
	case strings.Contains(why, "int64 "):
		return "int-differs"
	case strings.Contains(why, "big "):
		return "big-differs"
	case strings.Contains(why, "expected string"):
		return "string"
	case strings.Contains(why, "members") || strings.Contains(why, "missing"):
		return "members"
	case strings.Contains(why, "elements"):
		return "elements"
	}
	return "kind"
}
