// Package jpspec converts path/equation specifications (ref/jpref) into ojg
// jp values through the public constructors, and generates random specs.
package jpspec

import (
	"fmt"
	"math"
	"math/rand"
	"reflect"
	"regexp"

	"github.com/ohler55/ojg/jp"

	"verif/ref/jpref"
)

// ToExpr builds a jp.Expr from a path specification.
func ToExpr(p jpref.Path) jp.Expr {
	x := jp.Expr{}
	for _, f := range p {
		switch f.Kind {
		case "root":
			x = append(x, jp.Root('$'))
		case "at":
			x = append(x, jp.At('@'))
		case "child":
			x = append(x, jp.Child(f.Key))
		case "nth":
			x = append(x, jp.Nth(f.N))
		case "wild":
			x = append(x, jp.Wildcard('*'))
		case "descent":
			x = append(x, jp.Descent('.'))
		case "union":
			u := jp.Union{}
			for _, e := range f.Union {
				switch t := e.(type) {
				case string:
					u = append(u, t)
				case int:
					u = append(u, int64(t))
				case float64:
					u = append(u, int64(t))
				}
			}
			x = append(x, u)
		case "slice":
			x = append(x, jp.Slice(append([]int{}, f.Slice...)))
		case "filter":
			x = append(x, ToEquation(f.Filter).Filter())
		default:
			panic("jpspec: unknown fragment kind " + f.Kind)
		}
	}
	return x
}

// ToExprAPI builds the same expression through jp's builder functions: the package-level starter for the first
// fragment (jp.R, jp.A, jp.C, jp.N, jp.W, jp.D, jp.U, jp.S, jp.F) and the methods for the rest, the one-letter
// ones when long is false and the spelled-out ones otherwise.
func ToExprAPI(p jpref.Path, long bool) jp.Expr {
	var x jp.Expr
	for i, f := range p {
		first := i == 0
		switch f.Kind {
		case "root":
			switch {
			case first:
				x = jp.R()
			case long:
				x = x.Root()
			default:
				x = x.R()
			}
		case "at":
			switch {
			case first:
				x = jp.A()
			case long:
				x = x.At()
			default:
				x = x.A()
			}
		case "child":
			switch {
			case first:
				x = jp.C(f.Key)
			case long:
				x = x.Child(f.Key)
			default:
				x = x.C(f.Key)
			}
		case "nth":
			switch {
			case first:
				x = jp.N(f.N)
			case long:
				x = x.Nth(f.N)
			default:
				x = x.N(f.N)
			}
		case "wild":
			switch {
			case first:
				x = jp.W()
			case long:
				x = x.Wildcard()
			default:
				x = x.W()
			}
		case "descent":
			switch {
			case first:
				x = jp.D()
			case long:
				x = x.Descent()
			default:
				x = x.D()
			}
		case "union":
			var u []any
			for _, e := range f.Union {
				switch t := e.(type) {
				case string:
					u = append(u, t)
				case int:
					if long {
						u = append(u, int64(t))
					} else {
						u = append(u, t)
					}
				case float64:
					u = append(u, int64(t))
				}
			}
			switch {
			case first:
				x = jp.U(u...)
			case long:
				x = x.Union(u...)
			default:
				x = x.U(u...)
			}
		case "slice":
			if len(f.Slice) == 0 {
				x = append(x, jp.Slice{}) // the builders need a start
				continue
			}
			switch {
			case first:
				x = jp.S(f.Slice[0], f.Slice[1:]...)
			case long:
				x = x.Slice(f.Slice[0], f.Slice[1:]...)
			default:
				x = x.S(f.Slice[0], f.Slice[1:]...)
			}
		case "filter":
			switch {
			case first:
				x = jp.F(ToEquation(f.Filter))
			case long:
				x = x.Filter(ToEquation(f.Filter))
			default:
				x = x.F(ToEquation(f.Filter))
			}
		default:
			panic("jpspec: unknown fragment kind " + f.Kind)
		}
	}
	return x
}

// ToEquation builds a *jp.Equation through the public constructors.
func ToEquation(e *jpref.Eq) *jp.Equation {
	switch e.Op {
	case "const":
		switch e.Kind {
		case "nil":
			return jp.ConstNil()
		case "nothing":
			return jp.ConstNothing()
		case "bool":
			return jp.ConstBool(e.Const.(bool))
		case "int":
			switch t := e.Const.(type) {
			case int64:
				return jp.ConstInt(t)
			case float64:
				return jp.ConstInt(int64(t))
			case int:
				return jp.ConstInt(int64(t))
			}
		case "float":
			return jp.ConstFloat(e.Const.(float64))
		case "string":
			return jp.ConstString(e.Const.(string))
		case "list":
			return jp.ConstList(e.Const.([]any))
		case "regex":
			return jp.ConstRegex(regexp.MustCompile(e.Const.(string)))
		}
		panic(fmt.Sprintf("jpspec: bad const %v %T", e.Kind, e.Const))
	case "path":
		return jp.Get(ToExpr(e.Path))
	case "eq":
		return jp.Eq(ToEquation(e.L), ToEquation(e.R))
	case "neq":
		return jp.Neq(ToEquation(e.L), ToEquation(e.R))
	case "lt":
		return jp.Lt(ToEquation(e.L), ToEquation(e.R))
	case "gt":
		return jp.Gt(ToEquation(e.L), ToEquation(e.R))
	case "lte":
		return jp.Lte(ToEquation(e.L), ToEquation(e.R))
	case "gte":
		return jp.Gte(ToEquation(e.L), ToEquation(e.R))
	case "and":
		return jp.And(ToEquation(e.L), ToEquation(e.R))
	case "or":
		return jp.Or(ToEquation(e.L), ToEquation(e.R))
	case "not":
		return jp.Not(ToEquation(e.L))
	case "add":
		return jp.Add(ToEquation(e.L), ToEquation(e.R))
	case "sub":
		return jp.Sub(ToEquation(e.L), ToEquation(e.R))
	case "mul":
		return jp.Multiply(ToEquation(e.L), ToEquation(e.R))
	case "div":
		return jp.Divide(ToEquation(e.L), ToEquation(e.R))
	case "in":
		return jp.In(ToEquation(e.L), ToEquation(e.R))
	case "empty":
		return jp.Empty(ToEquation(e.L), ToEquation(e.R))
	case "has":
		return jp.Has(ToEquation(e.L), ToEquation(e.R))
	case "exists":
		return jp.Exists(ToEquation(e.L), ToEquation(e.R))
	case "rx":
		return jp.Regex(ToEquation(e.L), ToEquation(e.R))
	case "length":
		return jp.Length(ToExpr(e.L.Path))
	case "count":
		return jp.Count(ToExpr(e.L.Path))
	case "match":
		return jp.Match(ToEquation(e.L), ToEquation(e.R))
	case "search":
		return jp.Search(ToEquation(e.L), ToEquation(e.R))
	}
	panic("jpspec: unknown op " + e.Op)
}

// Const helpers.
func CInt(i int64) *jpref.Eq                  { return &jpref.Eq{Op: "const", Kind: "int", Const: i} }
func CFloat(f float64) *jpref.Eq              { return &jpref.Eq{Op: "const", Kind: "float", Const: f} }
func CStr(s string) *jpref.Eq                 { return &jpref.Eq{Op: "const", Kind: "string", Const: s} }
func CBool(b bool) *jpref.Eq                  { return &jpref.Eq{Op: "const", Kind: "bool", Const: b} }
func CNil() *jpref.Eq                         { return &jpref.Eq{Op: "const", Kind: "nil"} }
func CNothing() *jpref.Eq                     { return &jpref.Eq{Op: "const", Kind: "nothing"} }
func CList(l []any) *jpref.Eq                 { return &jpref.Eq{Op: "const", Kind: "list", Const: l} }
func CRegex(s string) *jpref.Eq               { return &jpref.Eq{Op: "const", Kind: "regex", Const: s} }
func P(p ...jpref.Frag) *jpref.Eq             { return &jpref.Eq{Op: "path", Path: p} }
func Bin(op string, l, r *jpref.Eq) *jpref.Eq { return &jpref.Eq{Op: op, L: l, R: r} }

func At() jpref.Frag                { return jpref.Frag{Kind: "at"} }
func Root() jpref.Frag              { return jpref.Frag{Kind: "root"} }
func Child(k string) jpref.Frag     { return jpref.Frag{Kind: "child", Key: k} }
func Nth(n int) jpref.Frag          { return jpref.Frag{Kind: "nth", N: n} }
func Wild() jpref.Frag              { return jpref.Frag{Kind: "wild"} }
func Descent() jpref.Frag           { return jpref.Frag{Kind: "descent"} }
func Union(u ...any) jpref.Frag     { return jpref.Frag{Kind: "union", Union: u} }
func Slice(s ...int) jpref.Frag     { return jpref.Frag{Kind: "slice", Slice: s} }
func Filter(e *jpref.Eq) jpref.Frag { return jpref.Frag{Kind: "filter", Filter: e} }

// Gen generates random paths and data for the jp family.
type Gen struct {
	R    *rand.Rand
	Keys []string
	leaf int
}

// Tree generates a unique-leaf tree: every scalar leaf is a distinct value.
func (g *Gen) Tree(depth int) any { return g.tree(depth, true) }

func (g *Gen) tree(depth int, top bool) any {
	if !top && (depth <= 0 || g.R.Intn(4) == 0) {
		return g.Leaf()
	}
	if g.R.Intn(2) == 0 {
		n := g.R.Intn(5)
		a := make([]any, n, n+1) // spare capacity: every array, also an empty one, has its own identity
		for i := range a {
			a[i] = g.tree(depth-1, false)
		}
		return a
	}
	n := g.R.Intn(4)
	m := map[string]any{}
	for i := 0; i < n; i++ {
		m[g.Keys[g.R.Intn(len(g.Keys))]] = g.tree(depth-1, false)
	}
	return m
}

func (g *Gen) Leaf() any {
	g.leaf++
	switch g.R.Intn(6) {
	case 0:
		return fmt.Sprintf("s%d", g.leaf)
	case 1:
		return float64(g.leaf) + 0.5
	default:
		return int64(g.leaf)
	}
}

func (g *Gen) ResetLeaves() { g.leaf = 0 }

// Ident renders a value with the identity of containers (results of Get are
// the very objects of the data, so identity tells equal-looking containers apart).
func Ident(v any) string {
	switch t := v.(type) {
	case []any:
		return fmt.Sprintf("arr@%x/%d", reflect.ValueOf(t).Pointer(), len(t))
	case map[string]any:
		return fmt.Sprintf("map@%x", reflect.ValueOf(t).Pointer())
	}
	return fmt.Sprintf("%T:%v", v, v)
}

// SimpleFilter returns a filter equation with a defined, unambiguous meaning.
func (g *Gen) SimpleFilter() *jpref.Eq {
	k := g.Keys[g.R.Intn(len(g.Keys))]
	k2 := g.Keys[g.R.Intn(len(g.Keys))]
	switch g.R.Intn(14) {
	case 13:
		// a nested filter whose own operand is rooted at the document: the inner $ is still the document,
		// not the element the outer filter is looking at
		root := P(Root(), Child(k2))
		if g.R.Intn(2) == 0 {
			root = P(Root(), Nth(g.R.Intn(3)))
		}
		op := []string{"gt", "lt", "neq", "eq", "gte"}[g.R.Intn(5)]
		inner := Filter(Bin(op, []*jpref.Eq{P(At()), P(At(), Child(k))}[g.R.Intn(2)], root))
		if g.R.Intn(2) == 0 {
			return Bin("exists", P(At(), inner), CBool(g.R.Intn(4) != 0))
		}
		return Bin("exists", P(At(), Child(k), inner), CBool(true))
	case 10:
		// an operand rooted at the document ($), compared with one rooted at the element
		root := P(Root(), Child(k2))
		if g.R.Intn(2) == 0 {
			root = P(Root(), Nth(g.R.Intn(3)))
		}
		op := []string{"gt", "lt", "neq", "eq"}[g.R.Intn(4)]
		elem := []*jpref.Eq{P(At()), P(At(), Child(k))}[g.R.Intn(2)]
		if g.R.Intn(3) == 0 {
			// the document operand first: the evaluator has to come back to the element for the second
			return Bin(op, root, []*jpref.Eq{P(At()), P(At(), Child(k), Nth(0)), elem}[g.R.Intn(3)])
		}
		return Bin(op, elem, root)
	case 11:
		// membership in a list that comes from the data
		return Bin("in", CInt(int64(1+g.R.Intn(30))), P(At(), Child(k)))
	case 12:
		if g.R.Intn(2) == 0 {
			// true whenever @.k is a non-empty list: its own first (or last) member is in it
			return Bin("in", P(At(), Child(k), Nth(g.R.Intn(2)-1)), P(At(), Child(k)))
		}
		return Bin("in", P(At(), Child(k)), P(At(), Child(k2)))
	case 8:
		// two multi-valued operands: true if ANY pairing satisfies the comparison
		return Bin([]string{"lt", "gt", "eq"}[g.R.Intn(3)], P(At(), Child(k), Wild()), P(At(), Child(k2), Wild()))
	case 9:
		return Bin("and", Bin("gt", P(At(), Wild()), CInt(int64(g.R.Intn(30)))), Bin("lt", P(At(), Wild()), CInt(int64(g.R.Intn(30)))))
	case 0:
		return Bin("gt", P(At()), CInt(int64(g.R.Intn(40))))
	case 1:
		return Bin("lte", P(At()), CFloat(float64(g.R.Intn(40))+0.5))
	case 2:
		return Bin("exists", P(At(), Child(k)), CBool(g.R.Intn(2) == 0))
	case 3:
		return Bin("gt", P(At(), Child(k)), CInt(int64(g.R.Intn(30))))
	case 4:
		return Bin("lt", P(At(), Nth(g.R.Intn(3)-1)), CInt(int64(g.R.Intn(40))))
	case 5:
		return Bin("or", Bin("lt", P(At()), CInt(int64(g.R.Intn(20)))), Bin("gte", P(At()), CInt(int64(20+g.R.Intn(20)))))
	case 6:
		return Bin("and", Bin("has", P(At(), Child(k)), CBool(true)), Bin("neq", P(At(), Child(k)), CInt(int64(g.R.Intn(30)))))
	default:
		// nested filter: elements that have a child array with some element > n
		return Bin("exists", P(At(), Filter(Bin("gt", P(At()), CInt(int64(g.R.Intn(40)))))), CBool(true))
	}
}

// Frag generates one random fragment; idx bounds are drawn in [-6, 6].
func (g *Gen) Frag(kinds []string) jpref.Frag {
	switch kinds[g.R.Intn(len(kinds))] {
	case "child":
		return Child(g.Keys[g.R.Intn(len(g.Keys))])
	case "nth":
		return Nth(g.R.Intn(9) - 4)
	case "wild":
		return Wild()
	case "descent":
		return Descent()
	case "union":
		var u []any
		for j := 0; j < 1+g.R.Intn(3); j++ {
			if g.R.Intn(2) == 0 {
				u = append(u, g.Keys[g.R.Intn(len(g.Keys))])
			} else {
				u = append(u, g.R.Intn(9)-4)
			}
		}
		return Union(u...)
	case "slice":
		s := []int{g.R.Intn(13) - 6}
		if g.R.Intn(4) > 0 {
			s = append(s, g.R.Intn(13)-6)
			if g.R.Intn(2) > 0 {
				s = append(s, g.R.Intn(7)-3)
			}
		}
		return Slice(s...)
	case "filter":
		return Filter(g.SimpleFilter())
	case "root":
		return Root()
	case "at":
		return At()
	}
	return Wild()
}

var AllKinds = []string{"child", "child", "nth", "wild", "descent", "union", "slice", "slice", "filter"}

// Path generates a random path of 1..maxLen fragments, optionally rooted. A
// descent is never the last fragment unless allowTrailingDescent, and two
// descents are never adjacent.
func (g *Gen) Path(maxLen int, kinds []string, allowTrailingDescent bool) jpref.Path {
	var p jpref.Path
	switch g.R.Intn(6) {
	case 0, 1, 2:
		p = append(p, Root())
	case 3:
		p = append(p, At()) // a path rooted at @ applied to data: @ is the data
	}
	n := 1 + g.R.Intn(maxLen)
	for i := 0; i < n; i++ {
		f := g.Frag(kinds)
		if f.Kind == "descent" {
			if len(p) > 0 && p[len(p)-1].Kind == "descent" {
				f = Wild()
			} else if i == n-1 && !allowTrailingDescent {
				f = Wild()
			}
		}
		if (f.Kind == "root" || f.Kind == "at") && len(p) > 0 && (p[len(p)-1].Kind == "root" || p[len(p)-1].Kind == "at") {
			f = Wild() // "$$", "@@", "$@" are not paths anybody writes (and do not print to parseable text)
		}
		p = append(p, f)
	}
	return p
}

// ExtremeInts are index, bound and step magnitudes at and near the limits of the int types.
var ExtremeInts = []int{math.MaxInt64, math.MinInt64, math.MaxInt64 - 1, math.MinInt64 + 1, 1 << 62, -(1 << 62), math.MaxInt32, math.MinInt32, math.MaxInt32 + 1}

// ExtremeSlices lists slice fragments (1-3 members) in which at least one of start, end and step is one of
// ExtremeInts and the others are small values.
func ExtremeSlices() [][]int {
	small := []int{0, 1, -1, 2}
	var out [][]int
	for _, x := range ExtremeInts {
		out = append(out, []int{x})
		for _, a := range small {
			out = append(out, []int{x, a}, []int{a, x})
			for _, b := range []int{1, -1, 2} {
				out = append(out, []int{x, a, b}, []int{a, x, b}, []int{a, b + 1, x})
			}
		}
		for _, y := range ExtremeInts {
			out = append(out, []int{x, y}, []int{x, y, 1}, []int{x, y, -1}, []int{0, x, y}, []int{-1, x, y}, []int{x, 2, y})
		}
	}
	return out
}
