// Package c07: reused and pooled parsers and writers behave like fresh ones.
// Oracle: history monitor - every call of a history on a shared (or pooled)
// instance is compared with the same call on a fresh instance; values returned
// earlier are re-inspected after every later call and after the caller's
// input buffer has been overwritten.
package c07

import (
	"bytes"
	"encoding/json"
	"errors"
	"fmt"
	"math"

	"strings"
	"sync"

	"github.com/ohler55/ojg"
	"github.com/ohler55/ojg/gen"
	"github.com/ohler55/ojg/oj"
	"github.com/ohler55/ojg/pretty"
	"github.com/ohler55/ojg/sen"

	"verif/gen/jsongen"
	"verif/mon"
	"verif/props/decoders"
)

func init() {
	mon.Register(&mon.Prop{
		ID:      "C07",
		Batches: func(tier string) int { return map[string]int{"quick": 16, "thorough": 48}[tier] },
		Run:     run,
		Rule: "cases: call histories on one instance of oj.Parser (also with Reuse), gen.Parser, sen.Parser, oj.Tokenizer, sen.Tokenizer, oj.Validator, oj.Writer, sen.Writer, pretty.Writer and through the pooled package functions " +
			"oj.Parse/Load/JSON/Marshal/Write and sen.Parse/ParseReader/String/Write on one goroutine (pool reuse confirmed by pointer identity through the verif hook, GC off): all ordered (poison, probe) pairs over a call catalogue " +
			"(valid inputs, inputs invalid at every depth: open containers, open string, mid-escape, mid-number, mid-literal; aborted calls: panicking callback, failing reader, failing io.Writer; option variations: callback kinds, channel, NumConvMethod, OnlyOne, writer Options changed between calls, SEN + and token functions) " +
			"and random histories of length 3-30; every call's result must equal the result of the same call on a fresh instance, earlier results must stay unchanged, and returned values must not alias the input buffer. " +
			"the Reuse field is also switched on and off per call on one oj.Parser / gen.Parser (results of calls made without Reuse must never change), and MustWrite is called directly on oj.Writer / sen.Writer with a working and a failing io.Writer. non-trivial: a history of at least two calls whose first call is not a plain success on a valid input; distinct by digest of the history",
		Assumptions: []string{
			"with Reuse=true previously returned maps may change (documented) - the 'earlier result unchanged' clause is waived there",
			"MustJSON / MustSEN / sen.Bytes / pretty.Writer.Encode document that the returned buffer is reused by the next call on that writer - waived on the same instance",
			"results are compared as (value tree, error text, callback/channel delivery sequence, bytes written)",
		},
		Findings: map[string]func(v *mon.Violation) bool{},
		Floors: func(tier string, cover map[string]int64, evals int64) []string {
			var out []string
			if cover["pool-reuse-confirmed"] < 1000 {
				out = append(out, fmt.Sprintf("only %d pooled calls ran on a recycled instance confirmed by identity (floor 1000)", cover["pool-reuse-confirmed"]))
			}
			for _, k := range []string{"subject:oj.Parser", "subject:gen.Parser", "subject:sen.Parser", "subject:oj.Tokenizer", "subject:sen.Tokenizer", "subject:oj.Validator", "subject:oj.Writer", "subject:sen.Writer", "subject:pretty.Writer", "subject:pooled", "pairs", "random-histories", "alias-checks", "earlier-result-rechecks"} {
				if cover[k] == 0 {
					out = append(out, "coverage class never reached: "+k)
				}
			}
			return out
		},
	})
}

// ---- call catalogue ----

type call struct {
	Src  string `json:"src,omitempty"`
	Mode string `json:"mode,omitempty"`
	Val  int    `json:"val,omitempty"` // writers: index into values
	Opt  int    `json:"opt,omitempty"` // writers: index into options
}

func (c call) String() string {
	if c.Src != "" || c.Mode != "" && c.Val == 0 && c.Opt == 0 {
		return fmt.Sprintf("%s(%q)", c.Mode, c.Src)
	}
	return fmt.Sprintf("%s(val%d,opt%d)", c.Mode, c.Val, c.Opt)
}

var jsonSrcs = []string{
	`{"a":[1,2.5,"xA\n",null,true,{"b":{}}],"c":123456789012345678901234567890}`, `[1,2,{"k":"v"}]`, `"only string"`, `true`, `12`, `-1.5e3`, `null`,
	`[1,2`, `{"a":`, `{"a"`, `{"a":"x`, `"abc\`, `"ab\u00`, `"\ud83d`, `[1.`, `[-`, `[1e`, `[1e+`, `[tru`, `[nul`, `[fals`, `{"a":1,`, `[[[[`, `{"a":{"b":{"c":[`, `]`, `}`, `1 2 3`, `{"a":1}{"b":2}`, `[1] [2`,
	`12345678901234567890123`, `1.5e400`, `-0.000000000000000000000001`, ` `, ``, "\xef\xbb\xbf[1]", "\xef\xbb[]", `[1,2,3]x`, `{"a":1,"a":2}`, `[9223372036854775807,1.`, "[1,\n2,\n", `{"k":"` + strings.Repeat("y", 100),
}

var senSrcs = []string{
	`{a:abc b:'q' c:[x y z]}`, `[+ "a"]`, `["a" + "b"]`, `["a" +`, `{a:"b" + `, `fun(1 2`, `f(1 2)`, `[f(1) g(`, `{a:1 // c`, `[1 /* c`, `{a:{b:{c:`, `[x`, `{x`, `{x:`, `abc`, `[tru`, `{a:tr`, `'single`, `[a b c]`, `{k:"v"}{`, `[1 2] [3`,
	`{msg: "total: " + count}`, `["abc" + 1]`, `["abc" +`, `[a "b"]`, `["x" "y"]`,
}

var parseModes = []string{"", "cbbool", "cb", "chan", "numfloat", "numstr", "reader", "reader1", "readererr", "cbpanic", "cbstop"}

// ---- results ----

func showAny(v any) string {
	switch t := v.(type) {
	case json.Number:
		return "N" + string(t)
	case gen.Node:
		return "G" + showAny(decoders.FromGen(t))
	case []any:
		parts := make([]string, len(t))
		for i, e := range t {
			parts[i] = showAny(e)
		}
		return "[" + strings.Join(parts, ",") + "]"
	case map[string]any:
		keys := make([]string, 0, len(t))
		for k := range t {
			keys = append(keys, k)
		}
		sortStrings(keys)
		parts := make([]string, len(keys))
		for i, k := range keys {
			parts[i] = fmt.Sprintf("%q:%s", k, showAny(t[k]))
		}
		return "{" + strings.Join(parts, ",") + "}"
	case string:
		return fmt.Sprintf("%q", t)
	case float64:
		return fmt.Sprintf("f%v", t)
	case int64:
		return fmt.Sprintf("i%d", t)
	case nil:
		return "null"
	case bool:
		return fmt.Sprint(t)
	case []byte:
		return fmt.Sprintf("b%q", t)
	}
	return fmt.Sprintf("<%T %v>", v, v)
}

func sortStrings(a []string) {
	for i := 1; i < len(a); i++ {
		for j := i; j > 0 && a[j] < a[j-1]; j-- {
			a[j], a[j-1] = a[j-1], a[j]
		}
	}
}

type errReader struct {
	b   []byte
	bad int
}

var errBoom = errors.New("boom")

func (r *errReader) Read(p []byte) (int, error) {
	if r.bad <= 0 {
		return 0, errBoom
	}
	n := copy(p, r.b)
	if n > r.bad {
		n = r.bad
	}
	r.b = r.b[n:]
	r.bad -= n
	if n == 0 {
		return 0, errBoom
	}
	return n, nil
}

type failWriter struct {
	bytes.Buffer
	left int
}

func (w *failWriter) Write(p []byte) (int, error) {
	if len(p) > w.left {
		w.Buffer.Write(p[:w.left])
		n := w.left
		w.left = 0
		return n, errBoom
	}
	w.left -= len(p)
	return w.Buffer.Write(p)
}

// outcome of one call: the canonical result text plus the value that was
// returned to the caller (kept for the "earlier results unchanged" check) and
// the input buffer that was handed in (overwritten afterwards for the alias check).
type outcome struct {
	res      string
	retained any
	input    []byte
	waive    bool // documented buffer reuse: do not re-inspect
}

func guardO(f func() outcome) (o outcome) {
	defer func() {
		if r := recover(); r != nil {
			o = outcome{res: fmt.Sprintf("PANIC(%v)", r)}
		}
	}()
	return f()
}

// runParse drives a parser-shaped API in a given mode.
func runParse(c call, parse func(buf []byte, args ...any) (any, error), read func(r jsongenReader, args ...any) (any, error), mkcb func(docs *[]string, stop, boom bool) any, mkchan func(docs *[]string) (any, func()), unm ...func([]byte, any) error) outcome {
	return guardO(func() outcome {
		var docs []string
		var v any
		var err error
		in := []byte(c.Src)
		switch c.Mode {
		case "unmarshal":
			// Unmarshal switches the parser to ForceFloat for the call; into an untyped target
			var t any
			err = unm[0](in, &t)
			v = t
		case "unmarshalT":
			// into a typed target: the recompose step fails for most documents
			var t struct {
				A []string
				C int
			}
			err = unm[0](in, &t)
			v = fmt.Sprint(t)
			if err != nil {
				// which field fails first (and what was set before) follows the recomposer's map order:
				// only the fact of the error is comparable
				if _, isParse := err.(*oj.ParseError); !isParse {
					v, err = nil, errors.New("recompose error")
				}
			}
		case "reader":
			v, err = read(bytes.NewReader(in))
		case "reader1":
			v, err = read(jsongen.Fixed(1).Reader(in))
		case "readererr":
			v, err = read(&errReader{b: in, bad: len(in) / 2})
		case "cbbool":
			v, err = parse(in, mkcb(&docs, false, false))
		case "cbstop":
			v, err = parse(in, mkcb(&docs, true, false))
		case "cbpanic":
			v, err = parse(in, mkcb(&docs, false, true))
		case "cb":
			v, err = parse(in, mkcb(&docs, false, false))
		case "chan":
			ch, wait := mkchan(&docs)
			v, err = parse(in, ch)
			wait()
		case "numfloat":
			v, err = parse(in, ojg.NumConvFloat64)
		case "numstr":
			v, err = parse(in, ojg.NumConvString)
		case "reuse":
			// the subject switched the instance's Reuse field on for this call only: the maps of this
			// result may be recycled by a later Reuse call (documented), those of all other calls may not
			v, err = parse(in)
			return outcome{res: fmt.Sprintf("%s|%v|%v", showAny(v), err, docs), retained: v, input: in, waive: true}
		case "reusereader":
			v, err = read(bytes.NewReader(in))
			return outcome{res: fmt.Sprintf("%s|%v|%v", showAny(v), err, docs), retained: v, input: in, waive: true}
		default:
			v, err = parse(in)
		}
		return outcome{res: fmt.Sprintf("%s|%v|%v", showAny(v), err, docs), retained: v, input: in}
	})
}

type jsongenReader interface{ Read([]byte) (int, error) }

func simpleCB(docs *[]string, stop, boom bool) any {
	return func(v any) bool {
		if boom {
			panic("callback stop")
		}
		*docs = append(*docs, showAny(v))
		return stop
	}
}

func simpleChan(docs *[]string) (any, func()) {
	ch := make(chan any, 2)
	var wg sync.WaitGroup
	wg.Add(1)
	go func() {
		for v := range ch {
			*docs = append(*docs, showAny(v))
		}
		wg.Done()
	}()
	return ch, func() { close(ch); wg.Wait() }
}

type eventH struct{ ev []string }

func (h *eventH) add(s string)    { h.ev = append(h.ev, s) }
func (h *eventH) Null()           { h.add("null") }
func (h *eventH) Bool(b bool)     { h.add(fmt.Sprint(b)) }
func (h *eventH) Int(i int64)     { h.add(fmt.Sprint("i", i)) }
func (h *eventH) Float(f float64) { h.add(fmt.Sprint("f", f)) }
func (h *eventH) Number(s string) { h.add("n" + s) }
func (h *eventH) String(s string) { h.add("s" + s) }
func (h *eventH) ObjectStart()    { h.add("{") }
func (h *eventH) ObjectEnd()      { h.add("}") }
func (h *eventH) Key(k string)    { h.add("k" + k) }
func (h *eventH) ArrayStart()     { h.add("[") }
func (h *eventH) ArrayEnd()       { h.add("]") }

// ---- subjects ----

type subject struct {
	name   string
	cover  string
	fresh  func() any
	calls  []call
	run    func(inst any, c call) outcome
	pooled bool
	reuse  bool // Reuse option: earlier maps may change
}

func parseCalls(srcs []string, modes []string) []call {
	var out []call
	for _, s := range srcs {
		for _, m := range modes {
			out = append(out, call{Src: s, Mode: m})
		}
	}
	return out
}

type badSimplifier struct{}

func (badSimplifier) Simplify() any { panic("simplify failed") }

var writeValues = []any{
	map[string]any{"a": []any{int64(1), nil, "", []any{}}, "b": map[string]any{}, "c": nil, "d": "<x>", "e": 2.5},
	[]any(nil), []any{}, "s", nil, int64(7), []any{map[string]any{"x": int64(1), "y": int64(2)}, map[string]any{"x": int64(3)}},
	strings.Repeat("long ", 300), []any{"a", badSimplifier{}, "b"}, map[string]any{"k": make(chan int)}, []any{math.NaN()}, map[string]any{"deep": []any{[]any{[]any{map[string]any{"z": true}}}}},
}

var writeOpts = []ojg.Options{{}, {Indent: 2}, {Tab: true}, {OmitNil: true}, {OmitEmpty: true}, {HTMLUnsafe: true}, {Color: true, KeyColor: "<k>", NoColor: "</>", SyntaxColor: "<s>"}, {Indent: 3, OmitNil: true, WriteLimit: 8}, {WriteLimit: 1}}

var writeModes = []string{"text", "must", "write", "writefail", "marshal", "mustwrite", "mustwritefail"}

func writerCalls() []call {
	var out []call
	for v := range writeValues {
		for o := range writeOpts {
			for _, m := range writeModes {
				if (v+o)%2 == 0 || m == "text" {
					out = append(out, call{Mode: m, Val: v, Opt: o})
				}
			}
		}
	}
	return out
}

func subjects() []*subject {
	senTF := func(p *sen.Parser) {
		p.AddTokenFunc("f", func(args ...any) any { return int64(len(args)) })
	}
	genCB := func(docs *[]string, stop, boom bool) any {
		return func(n gen.Node) bool {
			if boom {
				panic("callback stop")
			}
			*docs = append(*docs, showAny(n))
			return stop
		}
	}
	genChan := func(docs *[]string) (any, func()) {
		ch := make(chan gen.Node, 2)
		var wg sync.WaitGroup
		wg.Add(1)
		go func() {
			for v := range ch {
				*docs = append(*docs, showAny(v))
			}
			wg.Done()
		}()
		return ch, func() { close(ch); wg.Wait() }
	}
	all := append(append([]string{}, jsonSrcs...), senSrcs...)
	tokModes := []string{"", "reader", "reader1", "readererr", "hpanic"}
	runTok := func(parse func([]byte, oj.TokenHandler) error, load func(jsongenReader, oj.TokenHandler) error, c call) outcome {
		return guardO(func() outcome {
			h := &eventH{}
			var err error
			in := []byte(c.Src)
			switch c.Mode {
			case "reader":
				err = load(bytes.NewReader(in), h)
			case "reader1":
				err = load(jsongen.Fixed(1).Reader(in), h)
			case "readererr":
				err = load(&errReader{b: in, bad: len(in) / 2}, h)
			case "hpanic":
				err = parse(in, &panicH{n: 3})
			default:
				err = parse(in, h)
			}
			return outcome{res: fmt.Sprintf("%v|%v", h.ev, err), input: in, retained: h.ev}
		})
	}
	ojWriter := func(w *oj.Writer, c call) outcome {
		return guardO(func() outcome {
			w.Options = writeOpts[c.Opt]
			w.Options.Sort = true
			v := writeValues[c.Val]
			switch c.Mode {
			case "must":
				b := w.MustJSON(v)
				return outcome{res: string(b), waive: true}
			case "write":
				var b bytes.Buffer
				err := w.Write(&b, v)
				return outcome{res: fmt.Sprintf("%s|%v", b.String(), err)}
			case "writefail":
				fw := &failWriter{left: 5}
				err := w.Write(fw, v)
				return outcome{res: fmt.Sprintf("%s|%v", fw.String(), err)}
			case "marshal":
				b, err := oj.Marshal(v, w)
				return outcome{res: fmt.Sprintf("%s|%v", b, err), retained: b}
			case "mustwrite":
				// the panicking form called directly (no recover inside the writer runs afterwards)
				var b bytes.Buffer
				pn := mon.Guard(func() { w.MustWrite(&b, v) })
				return outcome{res: fmt.Sprintf("%s|%v", b.String(), pn != nil)}
			case "mustwritefail":
				fw := &failWriter{left: 5}
				pn := mon.Guard(func() { w.MustWrite(fw, v) })
				return outcome{res: fmt.Sprintf("%s|%v", fw.String(), pn != nil)}
			}
			return outcome{res: w.JSON(v)}
		})
	}
	senWriter := func(w *sen.Writer, c call) outcome {
		return guardO(func() outcome {
			w.Options = writeOpts[c.Opt]
			w.Options.Sort = true
			v := writeValues[c.Val]
			switch c.Mode {
			case "must":
				return outcome{res: string(w.MustSEN(v)), waive: true}
			case "write", "marshal":
				var b bytes.Buffer
				err := w.Write(&b, v)
				return outcome{res: fmt.Sprintf("%s|%v", b.String(), err)}
			case "writefail":
				fw := &failWriter{left: 5}
				err := w.Write(fw, v)
				return outcome{res: fmt.Sprintf("%s|%v", fw.String(), err)}
			case "mustwrite":
				var b bytes.Buffer
				pn := mon.Guard(func() { w.MustWrite(&b, v) })
				return outcome{res: fmt.Sprintf("%s|%v", b.String(), pn != nil)}
			case "mustwritefail":
				fw := &failWriter{left: 5}
				pn := mon.Guard(func() { w.MustWrite(fw, v) })
				return outcome{res: fmt.Sprintf("%s|%v", fw.String(), pn != nil)}
			}
			return outcome{res: w.SEN(v)}
		})
	}
	prettyWriter := func(w *pretty.Writer, c call) outcome {
		return guardO(func() outcome {
			w.Options = writeOpts[c.Opt]
			w.Options.Sort = true
			w.Width = []int{80, 20, 1}[c.Opt%3]
			w.MaxDepth = 1 + c.Opt%3
			w.Align = c.Opt%2 == 0
			w.SEN = c.Val%2 == 0
			v := writeValues[c.Val]
			switch c.Mode {
			case "must":
				return outcome{res: string(w.Encode(v)), waive: true}
			case "write":
				var b bytes.Buffer
				err := w.Write(&b, v)
				return outcome{res: fmt.Sprintf("%s|%v", b.String(), err)}
			case "writefail":
				fw := &failWriter{left: 5}
				err := w.Write(fw, v)
				return outcome{res: fmt.Sprintf("%s|%v", fw.String(), err)}
			}
			b, err := w.Marshal(v)
			return outcome{res: fmt.Sprintf("%s|%v", b, err), retained: b}
		})
	}
	return []*subject{
		{name: "oj.Parser", cover: "subject:oj.Parser", fresh: func() any { return &oj.Parser{} }, calls: parseCalls(jsonSrcs, append(append([]string{}, parseModes...), "unmarshal", "unmarshalT", "reuse", "reusereader")),
			run: func(i any, c call) outcome {
				p := i.(*oj.Parser)
				p.Reuse = strings.HasPrefix(c.Mode, "reuse")
				return runParse(c, p.Parse, func(r jsongenReader, a ...any) (any, error) { return p.ParseReader(r, a...) }, simpleCB, simpleChan,
					func(b []byte, vp any) error { return p.Unmarshal(b, vp) })
			}},
		{name: "oj.Parser(Reuse)", cover: "subject:oj.Parser", reuse: true, fresh: func() any { return &oj.Parser{Reuse: true} }, calls: parseCalls(jsonSrcs, []string{"", "cbbool", "reader1", "readererr", "cbpanic", "numstr"}),
			run: func(i any, c call) outcome {
				p := i.(*oj.Parser)
				return runParse(c, p.Parse, func(r jsongenReader, a ...any) (any, error) { return p.ParseReader(r, a...) }, simpleCB, simpleChan)
			}},
		{name: "gen.Parser", cover: "subject:gen.Parser", fresh: func() any { return &gen.Parser{} }, calls: parseCalls(jsonSrcs, []string{"", "cbbool", "chan", "reader", "reader1", "readererr", "cbpanic", "cbstop", "reuse", "reusereader"}),
			run: func(i any, c call) outcome {
				p := i.(*gen.Parser)
				p.Reuse = strings.HasPrefix(c.Mode, "reuse")
				return runParse(c, func(b []byte, a ...any) (any, error) { n, e := p.Parse(b, a...); return n, e },
					func(r jsongenReader, a ...any) (any, error) { n, e := p.ParseReader(r, a...); return n, e }, genCB, genChan)
			}},
		{name: "sen.Parser", cover: "subject:sen.Parser", fresh: func() any { p := &sen.Parser{}; senTF(p); return p }, calls: parseCalls(all, []string{"", "cbbool", "chan", "reader", "reader1", "readererr", "cbpanic", "cbstop", "unmarshal", "unmarshalT"}),
			run: func(i any, c call) outcome {
				p := i.(*sen.Parser)
				return runParse(c, p.Parse, func(r jsongenReader, a ...any) (any, error) { return p.ParseReader(r, a...) }, simpleCB, simpleChan,
					func(b []byte, vp any) error { return p.Unmarshal(b, vp) })
			}},
		{name: "oj.Tokenizer", cover: "subject:oj.Tokenizer", fresh: func() any { return &oj.Tokenizer{} }, calls: parseCalls(jsonSrcs, tokModes),
			run: func(i any, c call) outcome {
				t := i.(*oj.Tokenizer)
				return runTok(t.Parse, func(r jsongenReader, h oj.TokenHandler) error { return t.Load(r, h) }, c)
			}},
		{name: "sen.Tokenizer", cover: "subject:sen.Tokenizer", fresh: func() any { return &sen.Tokenizer{} }, calls: parseCalls(all, tokModes),
			run: func(i any, c call) outcome {
				t := i.(*sen.Tokenizer)
				return runTok(t.Parse, func(r jsongenReader, h oj.TokenHandler) error { return t.Load(r, h) }, c)
			}},
		{name: "oj.Validator", cover: "subject:oj.Validator", fresh: func() any { return &oj.Validator{} }, calls: parseCalls(jsonSrcs, []string{"", "onlyone", "reader", "reader1", "readererr"}),
			run: func(i any, c call) outcome {
				v := i.(*oj.Validator)
				return guardO(func() outcome {
					in := []byte(c.Src)
					v.OnlyOne = c.Mode == "onlyone"
					switch c.Mode {
					case "reader":
						return outcome{res: fmt.Sprint(v.ValidateReader(bytes.NewReader(in)))}
					case "reader1":
						return outcome{res: fmt.Sprint(v.ValidateReader(jsongen.Fixed(1).Reader(in)))}
					case "readererr":
						return outcome{res: fmt.Sprint(v.ValidateReader(&errReader{b: in, bad: len(in) / 2}))}
					}
					return outcome{res: fmt.Sprint(v.Validate(in))}
				})
			}},
		{name: "oj.Writer", cover: "subject:oj.Writer", fresh: func() any { return &oj.Writer{} }, calls: writerCalls(), run: func(i any, c call) outcome { return ojWriter(i.(*oj.Writer), c) }},
		{name: "sen.Writer", cover: "subject:sen.Writer", fresh: func() any { return &sen.Writer{} }, calls: writerCalls(), run: func(i any, c call) outcome { return senWriter(i.(*sen.Writer), c) }},
		{name: "pretty.Writer", cover: "subject:pretty.Writer", fresh: func() any { return &pretty.Writer{} }, calls: writerCalls(), run: func(i any, c call) outcome { return prettyWriter(i.(*pretty.Writer), c) }},
	}
}

type panicH struct {
	oj.ZeroHandler
	n int
}

func (h *panicH) tick() {
	h.n--
	if h.n <= 0 {
		panic("handler stop")
	}
}
func (h *panicH) Int(int64)     { h.tick() }
func (h *panicH) String(string) { h.tick() }
func (h *panicH) Key(string)    { h.tick() }
func (h *panicH) ArrayStart()   { h.tick() }
func (h *panicH) ObjectStart()  { h.tick() }

// ---- pooled subjects: shared = package function, fresh = new instance ----

type pooledSubject struct {
	name  string
	calls []call
	pool  func() *sync.Pool
	call  func(c call) outcome // through the package-level function
	fresh func(c call) outcome // same call on a fresh instance
}

func pooledSubjects() []*pooledSubject {
	ojP, ojW, ojM := oj.VerifPools()
	senP, senW := sen.VerifPools()
	wv := func(c call) any { return writeValues[c.Val] }
	pm := []string{"", "cbbool", "chan", "numfloat", "numstr", "cbpanic", "cbstop"}
	rm := []string{"reader", "reader1", "readererr"}
	var wcalls []call
	for v := range writeValues {
		wcalls = append(wcalls, call{Mode: "text", Val: v})
	}
	var wwcalls []call
	for v := range writeValues {
		wwcalls = append(wwcalls, call{Mode: "write", Val: v}, call{Mode: "writefail", Val: v})
	}
	wr := func(write func(w *failWriter) error, c call) outcome {
		return guardO(func() outcome {
			fw := &failWriter{left: 1 << 30}
			if c.Mode == "writefail" {
				fw.left = 5
			}
			err := write(fw)
			if c.Mode == "writefail" {
				// the default options do not sort: how far a failing stream got depends on map order
				return outcome{res: fmt.Sprintf("%v", err)}
			}
			return outcome{res: fmt.Sprintf("%s|%v", canonJSON(fw.String()), err)}
		})
	}
	return []*pooledSubject{
		{name: "oj.Parse", calls: parseCalls(jsonSrcs, append(append([]string{}, pm...), "unmarshal", "unmarshalT")), pool: func() *sync.Pool { return ojP },
			call: func(c call) outcome {
				return runParse(c, oj.Parse, nil, simpleCB, simpleChan, func(b []byte, vp any) error { return oj.Unmarshal(b, vp) })
			},
			fresh: func(c call) outcome {
				p := &oj.Parser{}
				return runParse(c, p.Parse, nil, simpleCB, simpleChan, func(b []byte, vp any) error { return p.Unmarshal(b, vp) })
			}},
		{name: "oj.Load", calls: parseCalls(jsonSrcs, rm), pool: func() *sync.Pool { return ojP },
			call: func(c call) outcome {
				return runParse(c, nil, func(r jsongenReader, a ...any) (any, error) { return oj.Load(r, a...) }, simpleCB, simpleChan)
			},
			fresh: func(c call) outcome {
				p := &oj.Parser{}
				return runParse(c, nil, func(r jsongenReader, a ...any) (any, error) { return p.ParseReader(r, a...) }, simpleCB, simpleChan)
			}},
		// the pooled parser is shared by the []byte and the reader entry points (and Unmarshal, if it ever
		// uses the pool): histories that mix them
		{name: "oj.Parse|Load|Unmarshal", calls: parseCalls(jsonSrcs, []string{"", "reader", "reader1", "readererr", "numfloat", "cbpanic", "unmarshal", "unmarshalT"}), pool: func() *sync.Pool { return ojP },
			call: func(c call) outcome {
				return runParse(c, oj.Parse, func(r jsongenReader, a ...any) (any, error) { return oj.Load(r, a...) }, simpleCB, simpleChan, func(b []byte, vp any) error { return oj.Unmarshal(b, vp) })
			},
			fresh: func(c call) outcome {
				p := &oj.Parser{}
				return runParse(c, p.Parse, func(r jsongenReader, a ...any) (any, error) { return p.ParseReader(r, a...) }, simpleCB, simpleChan, func(b []byte, vp any) error { return p.Unmarshal(b, vp) })
			}},
		{name: "sen.Parse|ParseReader|Unmarshal", calls: parseCalls(append(append([]string{}, jsonSrcs...), senSrcs...), []string{"", "reader", "reader1", "readererr", "cbpanic", "unmarshal", "unmarshalT"}), pool: func() *sync.Pool { return senP },
			call: func(c call) outcome {
				return runParse(c, sen.Parse, func(r jsongenReader, a ...any) (any, error) { return sen.ParseReader(r, a...) }, simpleCB, simpleChan, func(b []byte, vp any) error { return sen.Unmarshal(b, vp) })
			},
			fresh: func(c call) outcome {
				p := &sen.Parser{}
				return runParse(c, p.Parse, func(r jsongenReader, a ...any) (any, error) { return p.ParseReader(r, a...) }, simpleCB, simpleChan, func(b []byte, vp any) error { return p.Unmarshal(b, vp) })
			}},
		{name: "sen.Parse", calls: parseCalls(append(append([]string{}, jsonSrcs...), senSrcs...), pm), pool: func() *sync.Pool { return senP },
			call:  func(c call) outcome { return runParse(c, sen.Parse, nil, simpleCB, simpleChan) },
			fresh: func(c call) outcome { p := &sen.Parser{}; return runParse(c, p.Parse, nil, simpleCB, simpleChan) }},
		{name: "sen.ParseReader", calls: parseCalls(append(append([]string{}, jsonSrcs...), senSrcs...), rm), pool: func() *sync.Pool { return senP },
			call: func(c call) outcome {
				return runParse(c, nil, func(r jsongenReader, a ...any) (any, error) { return sen.ParseReader(r, a...) }, simpleCB, simpleChan)
			},
			fresh: func(c call) outcome {
				p := &sen.Parser{}
				return runParse(c, nil, func(r jsongenReader, a ...any) (any, error) { return p.ParseReader(r, a...) }, simpleCB, simpleChan)
			}},
		{name: "oj.JSON", calls: wcalls, pool: func() *sync.Pool { return ojW },
			call: func(c call) outcome { return guardO(func() outcome { return outcome{res: canonJSON(oj.JSON(wv(c)))} }) },
			fresh: func(c call) outcome {
				return guardO(func() outcome {
					w := &oj.Writer{Options: oj.DefaultOptions}
					return outcome{res: canonJSON(w.JSON(wv(c)))}
				})
			}},
		{name: "oj.Marshal", calls: wcalls, pool: func() *sync.Pool { return ojM },
			call: func(c call) outcome {
				return guardO(func() outcome {
					b, err := oj.Marshal(wv(c))
					return outcome{res: fmt.Sprintf("%s|%v", canonJSON(string(b)), err), retained: b}
				})
			},
			fresh: func(c call) outcome {
				return guardO(func() outcome {
					b, err := oj.Marshal(wv(c), &ojg.GoOptions)
					return outcome{res: fmt.Sprintf("%s|%v", canonJSON(string(b)), err)}
				})
			}},
		{name: "oj.Write", calls: wwcalls, pool: func() *sync.Pool { return ojW },
			call: func(c call) outcome { return wr(func(w *failWriter) error { return oj.Write(w, wv(c)) }, c) },
			fresh: func(c call) outcome {
				return wr(func(w *failWriter) error { x := &oj.Writer{Options: oj.DefaultOptions}; return x.Write(w, wv(c)) }, c)
			}},
		{name: "sen.String", calls: wcalls, pool: func() *sync.Pool { return senW },
			call: func(c call) outcome {
				return guardO(func() outcome { return outcome{res: canonJSON(sen.String(wv(c)))} })
			},
			fresh: func(c call) outcome {
				return guardO(func() outcome {
					w := &sen.Writer{Options: ojg.DefaultOptions}
					return outcome{res: canonJSON(w.SEN(wv(c)))}
				})
			}},
		{name: "sen.Write", calls: wwcalls, pool: func() *sync.Pool { return senW },
			call: func(c call) outcome { return wr(func(w *failWriter) error { return sen.Write(w, wv(c)) }, c) },
			fresh: func(c call) outcome {
				return wr(func(w *failWriter) error { x := &sen.Writer{Options: ojg.DefaultOptions}; return x.Write(w, wv(c)) }, c)
			}},
	}
}

// canonJSON: the default options do not sort; results with more than one
// object member are compared after sorting the text's characters per line is
// not possible, so unsorted multi-member outputs are reduced to a multiset of bytes.
func canonJSON(s string) string {
	b := []byte(s)
	cnt := [256]int{}
	for _, x := range b {
		cnt[x]++
	}
	var sb strings.Builder
	fmt.Fprintf(&sb, "len=%d", len(b))
	for i, n := range cnt {
		if n > 0 {
			fmt.Fprintf(&sb, " %02x:%d", i, n)
		}
	}
	return sb.String()
}

// ---- history runner ----

type kept struct {
	idx    int
	v      any
	digest string
}

type runner struct {
	c *mon.Ctx
}

// history runs calls on one shared instance of a subject.
func (r *runner) history(s *subject, calls []call, kind string) {
	c := r.c
	c.Begin(s.name, calls)
	inst := s.fresh()
	var keep []kept
	for i, cl := range calls {
		got := s.run(inst, cl)
		want := s.run(s.fresh(), cl)
		c.Eval(2)
		if got.res != want.res {
			class := cl.Mode
			if i > 0 {
				class = calls[i-1].Mode + "->" + cl.Mode
			}
			c.Violation(s.name, "differs-from-fresh", class, map[string]any{"history": calls[:i+1], "call_index": i}, want.res, got.res)
			return
		}
		// input aliasing: overwrite the caller's buffer, the returned value must not change
		if got.retained != nil && got.input != nil && !got.waive {
			before := showAny(got.retained)
			for k := range got.input {
				got.input[k] = 'X'
			}
			c.Cover("alias-checks")
			if after := showAny(got.retained); after != before {
				c.Violation(s.name, "result-aliases-input-buffer", cl.Mode, map[string]any{"history": calls[:i+1], "call_index": i}, before, after)
				return
			}
		}
		// earlier results unchanged
		if !s.reuse {
			for _, k := range keep {
				c.Cover("earlier-result-rechecks")
				if now := showAny(k.v); now != k.digest {
					c.Violation(s.name, "earlier-result-changed", calls[k.idx].Mode+"->"+cl.Mode, map[string]any{"history": calls[:i+1], "earlier_index": k.idx, "call_index": i}, k.digest, now)
					return
				}
			}
			if got.retained != nil && !got.waive {
				keep = append(keep, kept{i, got.retained, showAny(got.retained)})
				if len(keep) > 6 {
					keep = keep[1:]
				}
			}
		}
	}
	if len(calls) >= 2 {
		c.Distinct(s.name, fmt.Sprint(calls))
	}
	c.Cover(kind)
	c.Cover(s.cover)
}

func (r *runner) pooledHistory(s *pooledSubject, calls []call) {
	c := r.c
	c.Begin(s.name, calls)
	var keep []kept
	for i, cl := range calls {
		pool := s.pool()
		before := pool.Get()
		pool.Put(before)
		got := s.call(cl)
		after := pool.Get()
		pool.Put(after)
		if before == after {
			c.Cover("pool-reuse-confirmed")
		} else {
			c.Cover("pool-reuse-not-confirmed")
		}
		want := s.fresh(cl)
		c.Eval(2)
		if got.res != want.res {
			class := cl.Mode
			if i > 0 {
				class = calls[i-1].Mode + "->" + cl.Mode
			}
			c.Violation(s.name, "differs-from-fresh", class, map[string]any{"history": calls[:i+1], "call_index": i}, want.res, got.res)
			return
		}
		if got.retained != nil && got.input != nil {
			b := showAny(got.retained)
			for k := range got.input {
				got.input[k] = 'X'
			}
			c.Cover("alias-checks")
			if a := showAny(got.retained); a != b {
				c.Violation(s.name, "result-aliases-input-buffer", cl.Mode, map[string]any{"history": calls[:i+1], "call_index": i}, b, a)
				return
			}
		}
		for _, k := range keep {
			c.Cover("earlier-result-rechecks")
			if now := showAny(k.v); now != k.digest {
				c.Violation(s.name, "earlier-result-changed", calls[k.idx].Mode+"->"+cl.Mode, map[string]any{"history": calls[:i+1], "earlier_index": k.idx, "call_index": i}, k.digest, now)
				return
			}
		}
		if got.retained != nil {
			keep = append(keep, kept{i, got.retained, showAny(got.retained)})
			if len(keep) > 6 {
				keep = keep[1:]
			}
		}
	}
	if len(calls) >= 2 {
		c.Distinct(s.name, fmt.Sprint(calls))
	}
	c.Cover("subject:pooled")
}

func run(c *mon.Ctx) {

	r := &runner{c: c}
	subs := subjects()
	idx := 0
	// all ordered pairs (poison, probe)
	for _, s := range subs {
		n := len(s.calls)
		stride := 1
		if !c.Thorough() && n*n > 60000 {
			stride = n*n/60000 + 1
		}
		k := 0
		for a := 0; a < n; a++ {
			for b := 0; b < n; b++ {
				k++
				if k%stride != 0 {
					continue
				}
				idx++
				if !c.Mine(idx) {
					continue
				}
				if s.calls[b].Mode == "cbpanic" || s.calls[b].Mode == "hpanic" {
					continue // a probe that aborts itself tells nothing
				}
				r.history(s, []call{s.calls[a], s.calls[b]}, "pairs")
			}
		}
	}
	if c.WantSample() {
		c.Sample(map[string]any{"subject": "oj.Parser", "history": []call{{Src: `{"a":`, Mode: "readererr"}, {Src: `[1,2]`, Mode: "reader"}}})
	}
	// random histories
	rnd := c.Rand("hist")
	nh := c.Pick(40000, 400000) / c.Batches
	for i := 0; i < nh; i++ {
		s := subs[rnd.Intn(len(subs))]
		l := 3 + rnd.Intn(28)
		h := make([]call, l)
		for j := range h {
			h[j] = s.calls[rnd.Intn(len(s.calls))]
		}
		r.history(s, h, "random-histories")
		if c.WantSample() {
			c.Sample(map[string]any{"subject": s.name, "history": h[:3], "length": l})
		}
	}
	// pooled package-level functions: pairs and random histories on this goroutine
	ps := pooledSubjects()
	for _, s := range ps {
		n := len(s.calls)
		stride := 1
		if !c.Thorough() && n*n > 30000 {
			stride = n*n/30000 + 1
		}
		k := 0
		for a := 0; a < n; a++ {
			for b := 0; b < n; b++ {
				k++
				if k%stride != 0 {
					continue
				}
				idx++
				if !c.Mine(idx) || s.calls[b].Mode == "cbpanic" {
					continue
				}
				r.pooledHistory(s, []call{s.calls[a], s.calls[b]})
			}
		}
	}
	for i := 0; i < nh/2; i++ {
		s := ps[rnd.Intn(len(ps))]
		l := 3 + rnd.Intn(20)
		h := make([]call, l)
		for j := range h {
			h[j] = s.calls[rnd.Intn(len(s.calls))]
		}
		r.pooledHistory(s, h)
	}
}
