// Package c04: JSON writers emit valid JSON that denotes the data written.
// Oracle: the reference recogniser R and decoder D applied to the emitted
// text (ojg's own parser is not used to read it back) and the expected tree
// E(options, value); streamed bytes must equal the in-memory text.
package c04

import (
	"bytes"
	"fmt"
	"math/rand"
	"sort"
	"strconv"
	"strings"
	"unicode/utf8"

	"github.com/ohler55/ojg"
	"github.com/ohler55/ojg/gen"
	"github.com/ohler55/ojg/oj"
	"github.com/ohler55/ojg/pretty"

	"verif/gen/treegen"
	"verif/mon"
	"verif/ref/jsonref"
)

func init() {
	mon.Register(&mon.Prop{
		ID:      "C04",
		Batches: func(tier string) int { return map[string]int{"quick": 16, "thorough": 48}[tier] },
		Run:     run,
		Rule: "cases: generated trees of simple values (boundary int64/float64, strings with control, quote, HTML, U+2028/9, invalid UTF-8 bytes, empty containers at every depth, nesting chains of 8-40 levels on both sides of the writers' 30 prepared tabs with an array or object at any level) and their gen twins, " +
			"each written by oj.JSON, oj.Marshal, oj.Write, oj.Writer.JSON/MustJSON/Write, pretty.JSON, pretty.WriteJSON, pretty.Writer.Encode/Marshal/Write under the option lattice " +
			"{Tab, Sort, OmitNil, OmitEmpty, HTMLUnsafe} x Indent {0,1,2,3,8,200} x WriteLimit {1,2,3,5,8,17,64,1024} x pretty {Width 1/20/40/80/200, MaxDepth 1/2/3/9, Align}; the text must be valid per R, decode (D) to E(options, tree), " +
			"stream byte-for-byte like the in-memory call, be deterministic and ascending under Sort, and contain no raw < > & unless HTMLUnsafe and no raw U+2028/9. " +
			"also table-like data whose columns hold cells of mixed kinds (leaf, list, object), rows as objects or as lists, for the aligned pretty writer. non-trivial: a tree with at least one container member; distinct by digest of (tree, writer family)",
		Assumptions: []string{
			"under OmitEmpty object members holding a zero scalar (0, 0.0, false) are don't-care: the Options comment mentions 'zero values', the statement does not",
			"FloatFormat is left at its default",
			"trees whose keys collide after U+FFFD replacement are not generated",
		},
		Findings: map[string]func(v *mon.Violation) bool{
			"prettyAlignSortsEncodedKeys": func(v *mon.Violation) bool {
				m, _ := v.Case.(map[string]any)
				if m == nil || !strings.HasPrefix(v.Entry, "pretty.") || v.Kind != "value" || !strings.HasSuffix(v.Class, "sort-order") || m["align"] != true {
					return false
				}
				// only when some key needs escaping: the aligned table orders columns by the encoded key text
				tree, _ := m["tree"].(string)
				return strings.ContainsAny(tree, "\\<>&")
			},
			"prettyAlignTrailingComma": func(v *mon.Violation) bool {
				m, _ := v.Case.(map[string]any)
				if m == nil || !strings.HasPrefix(v.Entry, "pretty.") || v.Kind != "invalid-json" {
					return false
				}
				text, _ := m["text"].(string)
				return m["align"] == true && trailingCommaInAlignedRow(text)
			},
		},
		Floors: func(tier string, cover map[string]int64, evals int64) []string {
			var out []string
			for _, k := range []string{"writer:oj.JSON", "writer:oj.Write", "writer:oj.Marshal", "writer:pretty.JSON", "writer:pretty.WriteJSON", "twin:gen", "omitted:nil", "omitted:empty", "flushes>1", "invalid-utf8-string", "deep-indent"} {
				if cover[k] == 0 {
					out = append(out, "coverage class never reached: "+k)
				}
			}
			return out
		},
	})
}

// trailingCommaInAlignedRow recognises the pinned defect: an aligned object
// row whose last column is missing ends in ", }" (pretty/align_test.go expects it).
func trailingCommaInAlignedRow(text string) bool {
	i := strings.Index(text, ",")
	for i >= 0 {
		j := i + 1
		for j < len(text) && text[j] == ' ' {
			j++
		}
		if j < len(text) && text[j] == '}' && j > i+1 {
			return true
		}
		k := strings.Index(text[i+1:], ",")
		if k < 0 {
			break
		}
		i += 1 + k
	}
	return false
}

func fixStr(s string) string {
	if utf8.ValidString(s) {
		return s
	}
	var b strings.Builder
	for i := 0; i < len(s); {
		r, n := utf8.DecodeRuneInString(s[i:])
		if r == utf8.RuneError && n == 1 {
			b.WriteString("�")
		} else {
			b.WriteString(s[i : i+n])
		}
		i += n
	}
	return b.String()
}

// toGen converts a simple tree to gen nodes (harness converter).
func toGen(v any) gen.Node {
	switch t := v.(type) {
	case nil:
		return nil
	case bool:
		return gen.Bool(t)
	case int64:
		return gen.Int(t)
	case float64:
		return gen.Float(t)
	case string:
		return gen.String(t)
	case []any:
		a := make(gen.Array, len(t))
		for i, e := range t {
			a[i] = toGen(e)
		}
		return a
	case map[string]any:
		o := make(gen.Object, len(t))
		for k, e := range t {
			o[k] = toGen(e)
		}
		return o
	}
	panic(fmt.Sprintf("toGen: %T", v))
}

func keysCollide(v any) bool {
	switch t := v.(type) {
	case []any:
		for _, e := range t {
			if keysCollide(e) {
				return true
			}
		}
	case map[string]any:
		seen := map[string]bool{}
		for k, e := range t {
			f := fixStr(k)
			if seen[f] {
				return true
			}
			seen[f] = true
			if keysCollide(e) {
				return true
			}
		}
	}
	return false
}

type cmpState struct {
	o       *ojg.Options
	omitNil int
	omitEmp int
}

// cmp compares the decoded output with the expected tree E(o, v), computing
// omission on the fly. It returns "" or a description of the first difference.
func (cs *cmpState) cmp(ref *jsonref.Value, v any, path string) string {
	switch t := v.(type) {
	case nil:
		if ref.K != jsonref.Null {
			return fmt.Sprintf("%s: expected null, text has %s", path, ref)
		}
	case bool:
		if ref.K != jsonref.Bool || ref.B != t {
			return fmt.Sprintf("%s: expected %v, text has %s", path, t, ref)
		}
	case int64:
		if ref.K != jsonref.Num {
			return fmt.Sprintf("%s: expected %d, text has %s", path, t, ref)
		}
		a, ok := jsonref.ParseDec(ref.Lit)
		b, _ := jsonref.ParseDec(strconv.FormatInt(t, 10))
		if !ok || !a.Equal(b) {
			return fmt.Sprintf("%s: expected %d, text has %s", path, t, ref.Lit)
		}
	case float64:
		if ref.K != jsonref.Num {
			return fmt.Sprintf("%s: expected %v, text has %s", path, t, ref)
		}
		f, err := strconv.ParseFloat(ref.Lit, 64)
		if err != nil || f != t {
			return fmt.Sprintf("%s: expected float %s, text has %s", path, strconv.FormatFloat(t, 'g', -1, 64), ref.Lit)
		}
	case string:
		if ref.K != jsonref.Str || ref.S != fixStr(t) {
			return fmt.Sprintf("%s: expected string %q, text has %s", path, fixStr(t), clip(ref.String()))
		}
	case []any:
		if ref.K != jsonref.Arr {
			return fmt.Sprintf("%s: expected array, text has %s", path, clip(ref.String()))
		}
		if len(ref.A) != len(t) {
			return fmt.Sprintf("%s: expected %d elements, text has %d", path, len(t), len(ref.A))
		}
		for i := range t {
			if d := cs.cmp(ref.A[i], t[i], fmt.Sprintf("%s[%d]", path, i)); d != "" {
				return d
			}
		}
	case map[string]any:
		if ref.K != jsonref.Obj {
			return fmt.Sprintf("%s: expected object, text has %s", path, clip(ref.String()))
		}
		matched := 0
		for k, c := range t {
			fk := fixStr(k)
			m, present := ref.M[fk]
			drop, optional := false, false
			switch tc := c.(type) {
			case nil:
				drop = cs.o.OmitNil
				if drop {
					cs.omitNil++
				}
			case string:
				drop = cs.o.OmitEmpty && len(tc) == 0
			case []any:
				drop = cs.o.OmitEmpty && len(tc) == 0
			case map[string]any:
				drop = cs.o.OmitEmpty && len(tc) == 0
			case bool:
				optional = cs.o.OmitEmpty && !tc
			case int64:
				optional = cs.o.OmitEmpty && tc == 0
			case float64:
				optional = cs.o.OmitEmpty && tc == 0
			}
			if drop && c != nil {
				cs.omitEmp++
			}
			switch {
			case drop:
				if present {
					return fmt.Sprintf("%s: member %q should be omitted but is present", path, fk)
				}
			case !present:
				if !optional {
					return fmt.Sprintf("%s: member %q is missing from the text", path, fk)
				}
			default:
				matched++
				if d := cs.cmp(m, c, path+"."+fk); d != "" {
					return d
				}
			}
		}
		if matched != len(ref.M) {
			return fmt.Sprintf("%s: text has %d members %q, only %d expected ones matched", path, len(ref.M), ref.Keys, matched)
		}
		if len(ref.Keys) != len(ref.M) {
			return fmt.Sprintf("%s: text has duplicate member names %q", path, ref.Keys)
		}
		if cs.o.Sort {
			// ascending order of the keys as given (raw bytes); the text shows them after U+FFFD replacement
			orig := make([]string, 0, len(t))
			for k := range t {
				orig = append(orig, k)
			}
			sort.Strings(orig)
			var want []string
			for _, k := range orig {
				if _, present := ref.M[fixStr(k)]; present {
					want = append(want, fixStr(k))
				}
			}
			for i := range ref.Keys {
				if i >= len(want) || ref.Keys[i] != want[i] {
					return fmt.Sprintf("%s: with Sort the members are not in ascending key order: text has %q, expected %q", path, ref.Keys, want)
				}
			}
		}
	default:
		return fmt.Sprintf("%s: unexpected expected-type %T", path, v)
	}
	return ""
}

func clip(s string) string {
	if len(s) > 200 {
		return s[:200] + "…"
	}
	return s
}

type countW struct {
	bytes.Buffer
	writes int
	maxLen int
}

func (w *countW) Write(p []byte) (int, error) {
	w.writes++
	if len(p) > w.maxLen {
		w.maxLen = len(p)
	}
	return w.Buffer.Write(p)
}

var indents = []int{0, 1, 2, 3, 8, 200}
var limits = []int{1, 2, 3, 5, 8, 17, 64, 1024}
var widths = []int{1, 20, 40, 80, 200}
var depths = []int{1, 2, 3, 9}

type checker struct {
	c *mon.Ctx
}

func depthOf(v any) int {
	d := 0
	switch t := v.(type) {
	case []any:
		for _, e := range t {
			if x := depthOf(e); x > d {
				d = x
			}
		}
		return d + 1
	case map[string]any:
		for _, e := range t {
			if x := depthOf(e); x > d {
				d = x
			}
		}
		return d + 1
	}
	return 0
}

func hasInvalidUTF8(v any) bool {
	switch t := v.(type) {
	case string:
		return !utf8.ValidString(t)
	case []any:
		for _, e := range t {
			if hasInvalidUTF8(e) {
				return true
			}
		}
	case map[string]any:
		for k, e := range t {
			if !utf8.ValidString(k) || hasInvalidUTF8(e) {
				return true
			}
		}
	}
	return false
}

// text checks one emitted text against R, D and E.
func (ck *checker) text(entry string, text []byte, tree any, o *ojg.Options, cs map[string]any) bool {
	c := ck.c
	c.Eval(1)
	c.Cover("writer:" + strings.SplitN(entry, "(", 2)[0])
	with := func() map[string]any {
		m := map[string]any{"text": string(mon.EncBytes(text))}
		for k, v := range cs {
			m[k] = v
		}
		if len(text) < 600 {
			m["text"] = string(text)
		}
		return m
	}
	if v, k := jsonref.Check(text); v != 1 {
		c.Violation(entry, "invalid-json", optClass(o), with(), "a valid JSON text", fmt.Sprintf("R rejects at offset %d of %d: %s", k, len(text), clip(string(text))))
		return false
	}
	ref := jsonref.Decode(text)
	st := &cmpState{o: o}
	if d := st.cmp(ref, tree, "$"); d != "" {
		c.Violation(entry, "value", optClass(o)+"/"+diffClass(d), with(), "E(options, tree) = "+clip(treegen.Show(tree)), d)
		return false
	}
	if st.omitNil > 0 {
		c.Cover("omitted:nil")
	}
	if st.omitEmp > 0 {
		c.Cover("omitted:empty")
	}
	if !o.HTMLUnsafe && bytes.ContainsAny(text, "<>&") {
		c.Violation(entry, "html-unsafe-byte", "", with(), "no raw < > & with HTMLUnsafe=false", clip(string(text)))
	}
	if bytes.Contains(text, []byte(" ")) || bytes.Contains(text, []byte(" ")) {
		c.Violation(entry, "raw-u2028", "", with(), "U+2028/U+2029 escaped", clip(string(text)))
	}
	return true
}

func diffClass(d string) string {
	switch {
	case strings.Contains(d, "should be omitted"):
		return "not-omitted"
	case strings.Contains(d, "is missing"):
		return "member-missing"
	case strings.Contains(d, "ascending"):
		return "sort-order"
	case strings.Contains(d, "expected string"):
		return "string"
	case strings.Contains(d, "expected float"):
		return "float"
	case strings.Contains(d, "elements"):
		return "elements"
	case strings.Contains(d, "members"):
		return "members"
	}
	return "kind"
}

func optClass(o *ojg.Options) string {
	var s []string
	if o.Indent > 0 {
		s = append(s, "indent")
	}
	if o.Tab {
		s = append(s, "tab")
	}
	if o.Sort {
		s = append(s, "sort")
	}
	if o.OmitNil {
		s = append(s, "omitnil")
	}
	if o.OmitEmpty {
		s = append(s, "omitempty")
	}
	if len(s) == 0 {
		return "plain"
	}
	return strings.Join(s, "+")
}

func guardS(f func() string) (s string, p *mon.Panic) {
	p = mon.Guard(func() { s = f() })
	return
}

func run(c *mon.Ctx) {
	ck := &checker{c: c}
	r := c.Rand("trees")
	n := c.Pick(64000, 640000) / c.Batches
	for i := 0; i < n; i++ {
		cfg := &treegen.Cfg{MaxDepth: 2 + r.Intn(4), MaxWidth: 1 + r.Intn(5), Keys: func(r *rand.Rand) string { return treegen.DefaultString(r) }}
		if i%3 == 0 {
			cfg.Keys = nil
		}
		var tree any
		switch {
		case i%40 == 7:
			// deep nesting beyond the fixed indentation strings
			// (the writers keep 30 tabs / a fixed run of spaces at hand: depths on both sides of that, with an
			// array or an object at any level)
			d := []int{8, 8 + r.Intn(20), 27 + r.Intn(8), 40}[r.Intn(4)]
			tree = int64(1)
			for k := 0; k < d; k++ {
				if (i/40+k)%2 == 0 && r.Intn(4) != 0 || r.Intn(4) == 0 {
					tree = []any{tree, "x"}
				} else {
					tree = map[string]any{"k": tree, "e": []any{}}
				}
			}
		case i%40 == 9:
			// table-like data for Align with holes
			rows := []any{}
			cols := []string{"a", "bb", "ccc", "d"}
			for k := 0; k < 2+r.Intn(4); k++ {
				row := map[string]any{}
				for _, col := range cols {
					if r.Intn(4) != 0 {
						row[col] = cfg.Leaf(r)
					}
				}
				rows = append(rows, row)
			}
			tree = rows
			if r.Intn(2) == 0 {
				tree = map[string]any{"rows": rows, "n": nil}
			}
		case i%40 == 13 || i%40 == 27:
			// table-like data whose columns hold cells of mixed kinds, rows as objects or as lists
			tree = cfg.Table(r)
			if r.Intn(3) == 0 {
				tree = map[string]any{"rows": tree, "n": nil}
			}
		case i%40 == 11:
			// a single huge string around each write limit
			tree = []any{strings.Repeat("s", limits[r.Intn(len(limits))]+r.Intn(3)-1)}
		default:
			tree = cfg.Tree(r)
		}
		if keysCollide(tree) {
			continue
		}
		c.Begin("writers", treegen.Show(tree))
		if depthOf(tree) > 0 {
			c.Distinct(treegen.Show(tree))
		}
		if hasInvalidUTF8(tree) {
			c.Cover("invalid-utf8-string")
		}
		if c.WantSample() && i > 3 {
			c.Sample(map[string]any{"tree": clip(treegen.Show(tree))})
		}
		gtree := toGen(tree)
		// option lattice: all 32 boolean masks, indent/limit/width/depth drawn per mask
		for mask := 0; mask < 32; mask++ {
			o := ojg.Options{Tab: mask&1 != 0, Sort: mask&2 != 0, OmitNil: mask&4 != 0, OmitEmpty: mask&8 != 0, HTMLUnsafe: mask&16 != 0, WriteLimit: 1024, InitSize: 256}
			o.Indent = indents[(i+mask)%len(indents)]
			if o.Indent > 8 && depthOf(tree) > 12 {
				o.Indent = 8 // keeps the text of the deepest trees in the kilobytes
			}
			if (o.Indent >= 8 || o.Tab) && depthOf(tree) >= 8 {
				c.Cover("deep-indent")
			}
			cs := map[string]any{"tree": treegen.Show(tree), "options": fmt.Sprintf("Indent=%d Tab=%v Sort=%v OmitNil=%v OmitEmpty=%v HTMLUnsafe=%v", o.Indent, o.Tab, o.Sort, o.OmitNil, o.OmitEmpty, o.HTMLUnsafe)}
			ck.ojWriters(tree, gtree, &o, cs, i+mask)
			if mask%2 == 0 { // Tab does not apply to pretty
				ck.prettyWriters(tree, gtree, &o, cs, i+mask)
			}
		}
	}
}

func (ck *checker) ojWriters(tree any, gtree gen.Node, o *ojg.Options, cs map[string]any, salt int) {
	c := ck.c
	j, p := guardS(func() string { return oj.JSON(tree, o) })
	if p != nil {
		c.Violation("oj.JSON", "panic", mon.FaultClass(p.Msg), cs, "text", p.String())
		return
	}
	if !ck.text("oj.JSON", []byte(j), tree, o, cs) {
		return
	}
	deterministic := o.Sort || maxMembers(tree) <= 1
	same := func(entry string, got []byte) {
		c.Eval(1)
		c.Cover("writer:" + entry)
		if deterministic {
			if string(got) != j {
				c.Violation(entry, "differs-from-oj.JSON", optClass(o), with(cs, "text", string(got)), clip(j), clip(string(got)))
			}
		} else {
			ck.text(entry, got, tree, o, cs)
		}
	}
	// gen twin
	if g, p := guardS(func() string { return oj.JSON(gtree, o) }); p != nil {
		c.Violation("oj.JSON(gen)", "panic", mon.FaultClass(p.Msg), cs, "text", p.String())
	} else {
		c.Cover("twin:gen")
		same("oj.JSON(gen)", []byte(g))
	}
	if o.Sort {
		if j2 := oj.JSON(tree, o); j2 != j {
			c.Violation("oj.JSON", "nondeterministic-with-sort", "", cs, clip(j), clip(j2))
		}
	}
	// Marshal (strict) and writers on instances
	if m, err := oj.Marshal(gtree, o); err != nil {
		c.Violation("oj.Marshal(gen)", "error", "", cs, "text", err.Error())
	} else {
		same("oj.Marshal(gen)", m)
	}
	if m, err := oj.Marshal(tree, o); err != nil {
		c.Violation("oj.Marshal", "error", "", cs, "text", err.Error())
	} else {
		same("oj.Marshal", m)
	}
	wr := &oj.Writer{Options: *o}
	same("oj.Writer.JSON", []byte(wr.JSON(tree)))
	same("oj.Writer.MustJSON", append([]byte{}, wr.MustJSON(gtree)...))
	// streaming under every write limit
	for li, wl := range limits {
		if (li+salt)%2 != 0 && wl != 1 {
			continue
		}
		o2 := *o
		o2.WriteLimit = wl
		var w countW
		var err error
		entry := "oj.Write"
		if li%2 == 0 {
			err = oj.Write(&w, tree, &o2)
		} else {
			entry = "oj.Writer.Write"
			w2 := &oj.Writer{Options: o2}
			err = w2.Write(&w, gtree)
		}
		if err != nil {
			c.Violation(entry, "error", "", with(cs, "write_limit", wl), "text", err.Error())
			continue
		}
		if w.writes > 1 {
			c.Cover("flushes>1")
		}
		if li%2 != 0 && deterministic {
			// the same Writer instance right after streaming: the in-memory text must be complete
			w2 := &oj.Writer{Options: o2}
			var sink countW
			_ = w2.Write(&sink, gtree)
			if again := w2.JSON(tree); again != j {
				c.Violation("oj.Writer.JSON(after Write)", "differs-from-oj.JSON", optClass(o), with(cs, "write_limit", wl), clip(j), clip(again))
			}
		}
		c.Eval(1)
		c.Cover("writer:" + entry)
		if deterministic {
			if w.String() != j {
				c.Violation(entry, "stream-differs-from-memory", optClass(o), with(cs, "write_limit", wl), clip(j), clip(w.String()))
			}
		} else {
			ck.text(entry, w.Bytes(), tree, o, with(cs, "write_limit", wl))
		}
	}
}

func with(cs map[string]any, k string, v any) map[string]any {
	m := map[string]any{k: v}
	for a, b := range cs {
		m[a] = b
	}
	return m
}

func maxMembers(v any) int {
	m := 0
	switch t := v.(type) {
	case []any:
		for _, e := range t {
			if x := maxMembers(e); x > m {
				m = x
			}
		}
	case map[string]any:
		m = len(t)
		for _, e := range t {
			if x := maxMembers(e); x > m {
				m = x
			}
		}
	}
	return m
}

func (ck *checker) prettyWriters(tree any, gtree gen.Node, o *ojg.Options, cs map[string]any, salt int) {
	c := ck.c
	width := widths[salt%len(widths)]
	depth := depths[(salt/5)%len(depths)]
	align := (salt/3)%2 == 0
	arg := float64(width) + float64(depth)/10
	cs = with(cs, "width", width)
	cs["max_depth"] = depth
	cs["align"] = align
	pj, p := guardS(func() string { return pretty.JSON(tree, o, arg, align) })
	if p != nil {
		c.Violation("pretty.JSON", "panic", mon.FaultClass(p.Msg), cs, "text", p.String())
		return
	}
	if !ck.text("pretty.JSON", []byte(pj), tree, o, cs) {
		return
	}
	deterministic := o.Sort || maxMembers(tree) <= 1
	same := func(entry string, got []byte) {
		c.Eval(1)
		c.Cover("writer:" + entry)
		if deterministic {
			if string(got) != pj {
				c.Violation(entry, "differs-from-pretty.JSON", optClass(o), with(cs, "text", string(got)), clip(pj), clip(string(got)))
			}
		} else {
			ck.text(entry, got, tree, o, cs)
		}
	}
	if g, p := guardS(func() string { return pretty.JSON(gtree, o, arg, align) }); p != nil {
		c.Violation("pretty.JSON(gen)", "panic", mon.FaultClass(p.Msg), cs, "text", p.String())
	} else {
		same("pretty.JSON(gen)", []byte(g))
	}
	o2 := *o
	o2.WriteLimit = limits[salt%len(limits)]
	var w countW
	if err := pretty.WriteJSON(&w, tree, &o2, arg, align); err != nil {
		c.Violation("pretty.WriteJSON", "error", "", cs, "text", err.Error())
	} else {
		same("pretty.WriteJSON", w.Bytes())
	}
	pw := &pretty.Writer{Options: *o, Width: width, MaxDepth: depth, Align: align}
	same("pretty.Writer.Encode", append([]byte{}, pw.Encode(tree)...))
	if m, err := pw.Marshal(gtree); err != nil {
		c.Violation("pretty.Writer.Marshal", "error", "", cs, "text", err.Error())
	} else {
		same("pretty.Writer.Marshal", m)
	}
	var w2 countW
	if err := pw.Write(&w2, tree); err != nil {
		c.Violation("pretty.Writer.Write", "error", "", cs, "text", err.Error())
	} else {
		same("pretty.Writer.Write", w2.Bytes())
	}
}
