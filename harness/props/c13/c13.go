// Package c13: path mutations touch exactly the selected locations.
// Oracle: frame conditions derived from the reference evaluator J: exact
// expected states for Remove / Del / Modify, postconditions for Set, "at most
// one" for the *One forms, simple/gen correspondence, errors not panics.
package c13

import (
	"fmt"
	"reflect"
	"sort"
	"strings"

	"github.com/ohler55/ojg/gen"
	"github.com/ohler55/ojg/jp"

	"verif/gen/treegen"
	"verif/mon"
	"verif/props/decoders"
	"verif/props/jpspec"
	"verif/ref/jpref"
)

func init() {
	mon.Register(&mon.Prop{
		ID:      "C13",
		Batches: func(tier string) int { return map[string]int{"quick": 16, "thorough": 48}[tier] },
		Run:     run,
		Rule: "cases: Set/SetOne/Del/DelOne/Remove/RemoveOne/Modify/ModifyOne with paths from C05's generator (last fragment of every supported kind; slices, unions, wildcards, filters and descents in inner positions) on deep copies of unique-leaf trees, scalar and container replacement values, " +
			"a scalar-rewriting modifier and an array-appending modifier, plus the slice lattice for Remove; after each call the data is compared with the state J's locations prescribe (exact for Remove, Del, Modify; postconditions for Set), *One forms must change at most one location, " +
			"the gen twin must end in the corresponding state, the same request on jp.Keyed/jp.RemovableIndexed collections and (Remove) on typed Go slices must end in the state reached on maps and slices, and failures must be 'can not ...' errors, never panics. also magnitudes at and near the int limits, and Remove/RemoveOne/Modify through $[?(@ op $[k])] and $.list[?(@ op $.list[k])] for every array over {1,2,3} of length 2-4 (a sample of length 5), every k and comparison. also Set/SetOne/Modify/ModifyOne of nil and of a string below maps reached by reflection (a named map type, a pointer to a map). non-trivial: J selects at least one location or the path creates elements; distinct by digest of (operation, path, data)",
		Assumptions: []string{
			"removals happen innermost first and a filter further out is evaluated on the data as it is by then: for Remove/Del with a filter every state reached by removing, step by step, outermost selected locations of the current state is accepted, each step strictly nearer to the root than the one before - or, with an operand rooted at the document, further members of the same object, which are deleted in place in map order - (a bounded search; hitting the bound leaves the case undecided)",
			"Set: a location above a member that the call creates may hold a container instead of the value (the inner location was written last)",
			"Modify with <=, >=, == against an operand inside the filtered array replaces the operand's own element before the later comparisons: not run",
			"the twin comparison requires Get to agree on every prefix of the path (Set creates members below what an inner fragment selects)",
			"Del deletes object members and sets array elements to null in place (pinned by del_test.go); Remove removes and shifts",
			"only the outermost of nested selected locations carry obligations (a replaced or removed ancestor makes the inner location disappear)",
			"the state after an error return is not constrained (no atomicity is promised)",
			"Set is checked by postconditions because path creation is only loosely documented",
			"the collection and typed-slice twins are compared only when Get selects the same values on them as on the simple data (differences there are C11's subject); DelOne/SetOne take the first member in member order, which differs between a map and an ordered collection: only faults are compared for them; a collection may refuse a Set that a map or slice accepts",
		},
		Findings: map[string]func(v *mon.Violation) bool{
			// Set creates the array for an index below a member that does not exist yet with
			// make([]any, n+1) unchecked: n+1 wraps around or exceeds what the runtime can allocate
			"setHugeIndexCreation": func(v *mon.Violation) bool {
				return (v.Entry == "jp.Expr.Set" || v.Entry == "jp.Expr.SetOne" || strings.HasPrefix(v.Entry, "jp.Expr.Set(")) &&
					v.Kind == "panic" && strings.Contains(v.Observed, "makeslice: len out of range")
			},
			"mutationSliceSemantics": func(v *mon.Violation) bool {
				// the path of the mutation contains a slice fragment (set.go, modify.go and Slice.remove carry
				// their own slice arithmetic: inclusive end as pinned by remove_test.go, other clamping)
				m, _ := v.Case.(map[string]any)
				if m == nil || m["has_slice"] != true {
					return false
				}
				switch v.Kind {
				case "state", "one-form", "frame-changed", "frame-removed", "selected-not-set", "lost-selection", "gen-state-differs-from-simple",
					"collections-state-differs-from-simple", "typed-slices-state-differs-from-simple", "one-form-changed-on-one-representation-only":
					// (the last three: the branches for Indexed collections and for typed slices reached by
					// reflection each have their own variant again, e.g. an exclusive end in reflectGetSlice)
					return true
				}
				return false
			},
		},
		Floors: func(tier string, cover map[string]int64, evals int64) []string {
			var out []string
			for _, k := range []string{"op:Set", "op:SetOne", "op:Del", "op:DelOne", "op:Remove", "op:RemoveOne", "op:Modify", "op:ModifyOne", "twin:gen", "nested-selection", "created-path", "lattice:remove-slice", "error:expected"} {
				if cover[k] == 0 {
					out = append(out, "coverage class never reached: "+k)
				}
			}
			return out
		},
	})
}

func locKey(l []any) string {
	var b strings.Builder
	for _, e := range l {
		fmt.Fprintf(&b, "/%v", e)
	}
	return b.String()
}

func cat(a []any, b any) []any { return append(append([]any{}, a...), b) }

func refDel(v any, pre []any, ls map[string]bool) any {
	switch t := v.(type) {
	case []any:
		out := make([]any, len(t))
		for i, c := range t {
			if ls[locKey(cat(pre, i))] {
				out[i] = nil
			} else {
				out[i] = refDel(c, cat(pre, i), ls)
			}
		}
		return out
	case map[string]any:
		out := map[string]any{}
		for k, c := range t {
			if ls[locKey(cat(pre, k))] {
				continue
			}
			out[k] = refDel(c, cat(pre, k), ls)
		}
		return out
	}
	return v
}

func refRemove(v any, pre []any, ls map[string]bool) any {
	switch t := v.(type) {
	case []any:
		out := []any{}
		for i, c := range t {
			if ls[locKey(cat(pre, i))] {
				continue
			}
			out = append(out, refRemove(c, cat(pre, i), ls))
		}
		return out
	case map[string]any:
		out := map[string]any{}
		for k, c := range t {
			if ls[locKey(cat(pre, k))] {
				continue
			}
			out[k] = refRemove(c, cat(pre, k), ls)
		}
		return out
	}
	return v
}

func refModify(v any, pre []any, ls map[string]bool, f func(any) (any, bool)) any {
	if ls[locKey(pre)] {
		if nv, changed := f(v); changed {
			return nv
		}
	}
	switch t := v.(type) {
	case []any:
		out := make([]any, len(t))
		for i, c := range t {
			out[i] = refModify(c, cat(pre, i), ls, f)
		}
		return out
	case map[string]any:
		out := map[string]any{}
		for k, c := range t {
			out[k] = refModify(c, cat(pre, k), ls, f)
		}
		return out
	}
	return v
}

func flatten(v any, pre []any, out map[string]string) {
	switch t := v.(type) {
	case []any:
		out[locKey(pre)] = fmt.Sprintf("[%d]", len(t))
		for i, c := range t {
			flatten(c, cat(pre, i), out)
		}
	case map[string]any:
		out[locKey(pre)] = "{}"
		for k, c := range t {
			flatten(c, cat(pre, k), out)
		}
	default:
		out[locKey(pre)] = treegen.Show(v)
	}
}

func under(q string, ls map[string]bool) bool {
	for l := range ls {
		if q == l || strings.HasPrefix(q, l+"/") {
			return true
		}
	}
	return false
}

func above(q string, ls map[string]bool) bool {
	for l := range ls {
		if strings.HasPrefix(l, q+"/") || q == "" && l != "" {
			return true
		}
	}
	return false
}

// outermost reduces a location set to the locations without a selected proper ancestor.
func outermost(ls map[string]bool) (map[string]bool, bool) {
	out := map[string]bool{}
	nested := false
	for l := range ls {
		anc := false
		for m := range ls {
			if m != l && (strings.HasPrefix(l, m+"/") || m == "" && l != "") {
				anc = true
			}
		}
		if anc {
			nested = true
		} else {
			out[l] = true
		}
	}
	return out, nested
}

func normTree(v any) any {
	switch t := v.(type) {
	case gen.Node:
		return normTree(decoders.FromGen(t))
	case []any:
		out := make([]any, len(t))
		for i, e := range t {
			out[i] = normTree(e)
		}
		return out
	case map[string]any:
		out := map[string]any{}
		for k, e := range t {
			out[k] = normTree(e)
		}
		return out
	case int:
		return int64(t)
	case *orderedMap:
		out := map[string]any{}
		for i, k := range t.keys {
			out[k] = normTree(t.vals[i])
		}
		return out
	case *indexedList:
		out := make([]any, len(t.vals))
		for i, e := range t.vals {
			out[i] = normTree(e)
		}
		return out
	case []int64:
		out := make([]any, len(t))
		for i, e := range t {
			out[i] = e
		}
		return out
	case []string:
		out := make([]any, len(t))
		for i, e := range t {
			out[i] = e
		}
		return out
	case []map[string]any:
		out := make([]any, len(t))
		for i, e := range t {
			out[i] = normTree(e)
		}
		return out
	case [][]any:
		out := make([]any, len(t))
		for i, e := range t {
			out[i] = normTree(e)
		}
		return out
	}
	return v
}

// ---- harness-defined collections (jp.Keyed, jp.RemovableIndexed) and typed Go slices ----

type orderedMap struct {
	keys []string
	vals []any
}

func (o *orderedMap) ValueForKey(key string) (any, bool) {
	for i, k := range o.keys {
		if k == key {
			return o.vals[i], true
		}
	}
	return nil, false
}
func (o *orderedMap) SetValueForKey(key string, value any) {
	for i, k := range o.keys {
		if k == key {
			o.vals[i] = value
			return
		}
	}
	o.keys = append(o.keys, key)
	o.vals = append(o.vals, value)
}
func (o *orderedMap) RemoveValueForKey(key string) {
	for i, k := range o.keys {
		if k == key {
			o.keys = append(o.keys[:i], o.keys[i+1:]...)
			o.vals = append(o.vals[:i], o.vals[i+1:]...)
			return
		}
	}
}
func (o *orderedMap) Keys() []string { return append([]string{}, o.keys...) }

type indexedList struct{ vals []any }

func (l *indexedList) ValueAtIndex(i int) any {
	if i < 0 || i >= len(l.vals) {
		return nil
	}
	return l.vals[i]
}
func (l *indexedList) SetValueAtIndex(i int, v any) { l.vals[i] = v }
func (l *indexedList) Size() int                    { return len(l.vals) }
func (l *indexedList) RemoveValueAtIndex(i int) {
	l.vals = append(l.vals[:i], l.vals[i+1:]...)
}

func toColl(v any) any {
	switch t := v.(type) {
	case []any:
		l := &indexedList{vals: make([]any, len(t))}
		for i, e := range t {
			l.vals[i] = toColl(e)
		}
		return l
	case map[string]any:
		ks := make([]string, 0, len(t))
		for k := range t {
			ks = append(ks, k)
		}
		sort.Strings(ks)
		o := &orderedMap{}
		for _, k := range ks {
			o.keys = append(o.keys, k)
			o.vals = append(o.vals, toColl(t[k]))
		}
		return o
	}
	return v
}

// toTyped puts homogeneous arrays into typed Go slices ([]int64, []string, []map[string]any, [][]any),
// which jp reaches by reflection; *used reports whether any was.
func toTyped(v any, used *bool) any {
	switch t := v.(type) {
	case []any:
		for i := range t {
			t[i] = toTyped(t[i], used)
		}
		if len(t) == 0 {
			return t
		}
		switch t[0].(type) {
		case int64:
			if out, ok := sliceOf[int64](t); ok {
				*used = true
				return out
			}
		case string:
			if out, ok := sliceOf[string](t); ok {
				*used = true
				return out
			}
		case map[string]any:
			if out, ok := sliceOf[map[string]any](t); ok {
				*used = true
				return out
			}
		case []any:
			if out, ok := sliceOf[[]any](t); ok {
				*used = true
				return out
			}
		}
	case map[string]any:
		for k := range t {
			t[k] = toTyped(t[k], used)
		}
	}
	return v
}

func sliceOf[T any](a []any) ([]T, bool) {
	out := make([]T, len(a))
	for i, e := range a {
		x, ok := e.(T)
		if !ok {
			return nil, false
		}
		out[i] = x
	}
	return out, true
}

func eq(a, b any) bool { return reflect.DeepEqual(normTree(a), normTree(b)) }

func toGen(v any) gen.Node {
	switch t := v.(type) {
	case nil:
		return nil
	case bool:
		return gen.Bool(t)
	case int64:
		return gen.Int(t)
	case float64:
		return gen.Float(t)
	case string:
		return gen.String(t)
	case []any:
		a := make(gen.Array, len(t))
		for i, e := range t {
			a[i] = toGen(e)
		}
		return a
	case map[string]any:
		o := make(gen.Object, len(t))
		for k, e := range t {
			o[k] = toGen(e)
		}
		return o
	}
	panic(fmt.Sprintf("toGen %T", v))
}

func scalarMod(e any) (any, bool) {
	switch t := e.(type) {
	case int64:
		return fmt.Sprintf("M%d", t), true
	case gen.Int:
		return gen.String(fmt.Sprintf("M%d", int64(t))), true
	}
	return e, false
}

func appendMod(e any) (any, bool) {
	switch t := e.(type) {
	case []any:
		return append(t, "APP"), true
	case gen.Array:
		return append(t, gen.String("APP")), true
	case *indexedList:
		return &indexedList{vals: append(append([]any{}, t.vals...), "APP")}, true
	}
	return e, false
}

func refAppendMod(e any) (any, bool) {
	if t, ok := e.([]any); ok {
		return append(append([]any{}, t...), "APP"), true
	}
	return e, false
}

func refScalarMod(e any) (any, bool) {
	if t, ok := e.(int64); ok {
		return fmt.Sprintf("M%d", t), true
	}
	return e, false
}

type checker struct{ c *mon.Ctx }

func pathClass(p jpref.Path) string {
	var parts []string
	for i, f := range p {
		k := f.Kind
		if i == len(p)-1 {
			k += "$"
		}
		parts = append(parts, k)
	}
	return strings.Join(parts, ".")
}

func clip(s string) string {
	if len(s) > 300 {
		return s[:300] + "…"
	}
	return s
}

// apply runs one operation; it returns the resulting root and the error.
func apply(op string, x jp.Expr, d any, val any, mod func(any) (any, bool)) (result any, err error, pn *mon.Panic) {
	result = d
	pn = mon.Guard(func() {
		switch op {
		case "Set":
			err = x.Set(d, val)
		case "SetOne":
			err = x.SetOne(d, val)
		case "Del":
			err = x.Del(d)
		case "DelOne":
			err = x.DelOne(d)
		case "Remove":
			result, err = x.Remove(d)
		case "RemoveOne":
			result, err = x.RemoveOne(d)
		case "Modify":
			result, err = x.Modify(d, mod)
		case "ModifyOne":
			result, err = x.ModifyOne(d, mod)
		}
	})
	return
}

var removableLast = map[string]bool{"child": true, "nth": true, "wild": true, "union": true, "slice": true, "filter": true}

func (ck *checker) check(op string, p jpref.Path, d0 any, enum bool, modKind string) {
	c := ck.c
	lastIsSlice := len(p) > 0 && p[len(p)-1].Kind == "slice"
	hasSlice := false
	for _, f := range p {
		hasSlice = hasSlice || f.Kind == "slice"
	}
	cs := map[string]any{"op": op, "path": p.String(), "data": treegen.Show(d0), "last_is_slice": lastIsSlice, "has_slice": hasSlice}
	if modKind != "" {
		cs["modifier"] = modKind
	}
	c.Begin("jp mutation", cs)
	before := jpref.Undefined
	L0 := jpref.Eval(p, d0, jpref.Res{Loc: []any{}, V: d0})
	if jpref.Undefined != before {
		return
	}
	for _, r := range L0 {
		if r.Optional {
			return // undefined mid-path scalar continuation: not used for mutation frames
		}
	}
	l0 := map[string]bool{}
	for _, l := range L0 {
		l0[locKey(l.Loc)] = true
	}
	if len(l0) != len(L0) && (strings.HasPrefix(op, "Modify") || strings.HasPrefix(op, "Remove")) {
		// a location selected more than once (duplicate union members, two descents): whether the modifier
		// runs once or once per selection is not defined
		c.Cover("skipped:duplicate-selection-modify")
		return
	}
	out0, nested := outermost(l0)
	if nested {
		c.Cover("nested-selection")
	}
	x := jpspec.ToExpr(p)
	d := treegen.Dup(d0)
	var val any = "S"
	hasDescentFrag := false
	for _, f := range p {
		hasDescentFrag = hasDescentFrag || f.Kind == "descent"
	}
	if strings.HasPrefix(op, "Set") && len(p)%2 == 0 && !hasDescentFrag {
		// (with a descent the one container value would be stored in several places and then be descended
		// into itself, which makes the data cyclic)
		val = map[string]any{"new": []any{int64(-1)}}
	}
	mod, refMod := scalarMod, refScalarMod
	if modKind == "append" {
		mod, refMod = appendMod, refAppendMod
	}
	result, err, pn := apply(op, x, d, val, mod)
	c.Eval(1)
	c.Cover("op:" + op)
	class := op + "/" + pathClass(p)
	if pn != nil {
		c.Violation("jp.Expr."+op, "panic", class+"/"+mon.FaultClass(pn.Msg), cs, "result or error", pn.String())
		return
	}
	if len(L0) > 0 {
		if enum {
			c.DistinctEnum(1)
		} else {
			c.Distinct(op, p.String(), treegen.Show(d0))
		}
	}
	if c.WantSample() && len(L0) > 1 && len(p) > 2 {
		c.Sample(map[string]any{"op": op, "path": p.String(), "data": clip(treegen.Show(d0)), "selected": len(L0)})
	}
	// error policy
	mustFail := ""
	lastKind := ""
	if len(p) > 0 {
		lastKind = p[len(p)-1].Kind
	}
	switch op {
	case "Remove", "RemoveOne":
		switch {
		case len(p) == 0:
			mustFail = "empty path"
		case !removableLast[lastKind]:
			mustFail = "unsupported last fragment " + lastKind
		case len(p) >= 2 && p[len(p)-2].Kind == "descent":
			mustFail = "descent before the last fragment"
		}
	case "Modify", "ModifyOne":
		if len(p) == 0 {
			mustFail = "empty path"
		} else if lastKind == "descent" {
			mustFail = "path ends in a descent"
		}
	}
	if err != nil {
		msg := err.Error()
		switch {
		case mon.IsRuntimeFaultMsg(msg):
			c.Violation("jp.Expr."+op, "recovered-runtime-fault", class+"/"+mon.FaultClass(msg), cs, "'can not ...' error or success", msg)
		case !strings.HasPrefix(msg, "can not "):
			c.Violation("jp.Expr."+op, "undocumented-error", class, cs, "an error starting with 'can not '", msg)
		case mustFail == "" && !strings.HasPrefix(op, "Set") && !strings.HasPrefix(op, "Del"):
			c.Violation("jp.Expr."+op, "error-for-possible-request", class, cs, "success", msg)
		default:
			c.Cover("error:expected")
		}
		return
	}
	if mustFail != "" {
		// documented as impossible; accepting it silently is tolerated only if nothing changed
		if !eq(result, d0) {
			c.Violation("jp.Expr."+op, "impossible-request-changed-data", class, cs, "an error ("+mustFail+") or no change", clip(treegen.Show(normTree(result))))
		}
		return
	}
	// expected states
	var want any
	switch op {
	case "Del":
		want = refDel(d0, nil, out0)
	case "Remove":
		want = refRemove(d0, nil, out0)
	case "Modify":
		want = refModify(d0, nil, l0, refMod)
	}
	switch op {
	case "Del", "Remove", "Modify":
		if !eq(want, result) && (op == "Remove" || op == "Del") && hasFilter(p) {
			// removing below a node can make a filter select that node afterwards (evaluation and mutation
			// are interleaved): the states reached by re-applying the removal are accepted too
			w := want
			for it := 0; it < 3 && !eq(w, result); it++ {
				ls := map[string]bool{}
				for _, r := range jpref.Eval(p, w, jpref.Res{Loc: []any{}, V: w}) {
					ls[locKey(r.Loc)] = true
				}
				o, _ := outermost(ls)
				if op == "Remove" {
					w = refRemove(w, nil, o)
				} else {
					w = refDel(w, nil, o)
				}
			}
			if eq(w, result) {
				c.Cover("accepted:remove-reapplied-after-filter-change")
				want = w
			}
		}
		if !eq(want, result) && (op == "Remove" || op == "Del") && hasFilter(p) {
			// the same interleaving in general: removals happen innermost first, and a filter further out
			// is evaluated on the data as it is by then. Accepted: every state reached by removing, step by
			// step, a non-empty set of outermost locations the path selects on the current state (bounded
			// search; a search that hits its bound leaves the case undecided, never a violation).
			// Within one container all members are tested against the same state, so a later step only
			// removes locations strictly nearer to the root than everything removed before it.
			// Exception: members of an OBJECT are deleted in place while the other members are still being
			// tested, so with an operand rooted at the document a later member of the same object may be
			// tested against a document that has already lost an earlier one (in Go's map order).
			type st struct {
				v     any
				limit int  // depth bound for the next step
				same  bool // object members at depth == limit may follow (document operand, members removed so far at that depth were object members)
			}
			isMember := func(k string) bool {
				i := strings.LastIndex(k, "/")
				if i < 0 || i+1 >= len(k) {
					return false
				}
				for _, ch := range k[i+1:] {
					if ch < '0' || ch > '9' {
						return true
					}
				}
				return false
			}
			rootOp := hasRootOperand(p)
			depthOf := func(k string) int { return strings.Count(k, "/") }
			seen := map[string]bool{}
			front := []st{{d0, 1 << 30, false}}
			found, capped := false, false
			target := treegen.Show(normTree(result))
		search:
			for depth := 0; depth < 4 && len(front) > 0; depth++ {
				var next []st
				for _, sv := range front {
					ls := map[string]bool{}
					for _, r := range jpref.Eval(p, sv.v, jpref.Res{Loc: []any{}, V: sv.v}) {
						ls[locKey(r.Loc)] = true
					}
					o, _ := outermost(ls)
					var ks []string
					for _, k := range keys(o) {
						if depthOf(k) < sv.limit || (sv.same && depthOf(k) == sv.limit && isMember(k)) {
							ks = append(ks, k)
						}
					}
					if len(ks) > 10 {
						capped = true
						continue
					}
					for mask := 1; mask < 1<<len(ks); mask++ {
						sub := map[string]bool{}
						lim := 1 << 30
						members := rootOp
						for i, k := range ks {
							if mask&(1<<i) != 0 {
								sub[k] = true
								if d := depthOf(k); d < lim {
									lim = d
								}
								members = members && isMember(k)
							}
						}
						var w any
						if op == "Remove" {
							w = refRemove(sv.v, nil, sub)
						} else {
							w = refDel(sv.v, nil, sub)
						}
						key := treegen.Show(normTree(w))
						if key == target {
							found = true
							want = w
							break search
						}
						key += fmt.Sprint("@", lim, members)
						if seen[key] {
							continue
						}
						seen[key] = true
						if len(seen) > 20000 {
							capped = true
							break search
						}
						next = append(next, st{w, lim, members})
					}
				}
				front = next
			}
			if found {
				c.Cover("accepted:remove-interleaved-with-filter-evaluation")
			} else if capped {
				c.Cover("undecided:remove-interleaving-search-capped")
				return
			}
		}
		if !eq(want, result) && (op == "Remove" || op == "Del") && hasRootOperand(p) && len(out0) <= 8 {
			// a filter operand rooted at the document is evaluated while members are being deleted from
			// maps in place (in Go map order): when the operand's own location is among the removed ones
			// the later evaluations see it gone. Any state that removes a subset of the selected
			// locations is accepted in this narrow case.
			ks := keys(out0)
			for mask := 0; mask < 1<<len(ks) && !eq(want, result); mask++ {
				sub := map[string]bool{}
				for i, k := range ks {
					if mask&(1<<i) != 0 {
						sub[k] = true
					}
				}
				var w any
				if op == "Remove" {
					w = refRemove(d0, nil, sub)
				} else {
					w = refDel(d0, nil, sub)
				}
				if eq(w, result) {
					c.Cover("accepted:root-operand-changed-during-removal")
					want = w
				}
			}
		}
		if !eq(want, result) {
			c.Violation("jp.Expr."+op, "state", class, cs, clip(treegen.Show(want)), clip(treegen.Show(normTree(result))))
			return
		}
		if len(p) > 0 && len(l0) > 0 && l0[""] {
			c.Cover("root-replaced")
		}
	case "DelOne", "RemoveOne", "ModifyOne":
		ok := eq(d0, result)
		if !ok {
			for l := range l0 {
				one := map[string]bool{l: true}
				var w any
				switch op {
				case "DelOne":
					w = refDel(d0, nil, one)
				case "RemoveOne":
					w = refRemove(d0, nil, one)
				default:
					w = refModify(d0, nil, one, refMod)
				}
				if eq(w, result) {
					ok = true
					break
				}
			}
		}
		if !ok {
			c.Violation("jp.Expr."+op, "one-form", class, cs, "the data unchanged, or changed at exactly one of "+fmt.Sprint(keys(l0)), clip(treegen.Show(normTree(result))))
			return
		}
	case "Set", "SetOne":
		ck.setPost(op, p, d0, d, l0, out0, val, class, cs)
	}
	// *One forms on the gen twin: which location is taken may depend on map order, but whether anything was
	// changed must be the same on simple and gen data (RemoveOne / ModifyOne only count real changes)
	switch op {
	case "RemoveOne", "ModifyOne":
		gres, gerr, gpn := apply(op, x, toGen(d0), gen.String("S"), mod)
		c.Cover("twin:gen")
		c.Eval(1)
		if gpn == nil && gerr == nil {
			if a, b := eq(result, d0), eq(gres, d0); a != b {
				c.Violation("jp.Expr."+op+"(gen)", "one-form-changed-on-one-representation-only", class, cs, fmt.Sprint("simple data changed: ", !a), fmt.Sprint("gen data changed: ", !b))
			}
		}
	}
	// gen twin
	switch op {
	case "Del", "Remove", "Modify":
		gd := toGen(d0)
		var gval any = gen.String("S")
		gres, gerr, gpn := apply(op, x, gd, gval, mod)
		c.Cover("twin:gen")
		c.Eval(1)
		switch {
		case gpn != nil:
			c.Violation("jp.Expr."+op+"(gen)", "panic", class+"/"+mon.FaultClass(gpn.Msg), cs, "result or error", gpn.String())
		case gerr != nil:
			c.Violation("jp.Expr."+op+"(gen)", "error-on-gen-only", class, cs, "same outcome as on simple data", gerr.Error())
		case !eq(gres, result) && (op == "Remove" || op == "Del") && hasRootOperand(p):
			// see above: with a document rooted operand the outcome of removing from maps follows Go's map order
			c.Cover("accepted:root-operand-changed-during-removal")
		case !eq(gres, result):
			c.Violation("jp.Expr."+op+"(gen)", "gen-state-differs-from-simple", class, cs, clip(treegen.Show(normTree(result))), clip(treegen.Show(normTree(gres))))
		}
	}
	// the same request on the data held in other representations: harness-defined jp.Keyed /
	// jp.RemovableIndexed collections and typed Go slices (reached by reflection)
	ck.otherRepr("collections", op, x, toColl(treegen.Dup(d0)), d0, result, val, mod, p, class, cs)
	if op == "Remove" || op == "RemoveOne" {
		used := false
		if td := toTyped(treegen.Dup(d0), &used); used {
			ck.otherRepr("typed-slices", op, x, td, d0, result, val, mod, p, class, cs)
		}
	}
}

// sameSelection: the two Get results hold the same values (as a multiset, representation aside).
func sameSelection(a, b []any) bool {
	if len(a) != len(b) {
		return false
	}
	ra, rb := make([]string, len(a)), make([]string, len(b))
	for i := range a {
		ra[i] = treegen.Show(normTree(a[i]))
		rb[i] = treegen.Show(normTree(b[i]))
	}
	sort.Strings(ra)
	sort.Strings(rb)
	return reflect.DeepEqual(ra, rb)
}

func (ck *checker) otherRepr(repr, op string, x jp.Expr, td, d0, result, val any, mod func(any) (any, bool), p jpref.Path, class string, cs map[string]any) {
	c := ck.c
	if repr == "collections" {
		val = toColl(val)
	}
	// the property ties the mutators to what Get selects on the same data: where Get itself selects
	// something else on this representation than on the simple data (C11's subject), the comparison with the
	// simple outcome says nothing about the mutator
	// (checked for every prefix of the path: Set creates members below locations that an inner fragment
	// selects, so the whole path can select nothing on both representations while a prefix differs)
	for i := len(x); 0 < i; i-- {
		var g0, g1 []any
		if pn := mon.Guard(func() { g0, g1 = x[:i].Get(d0), x[:i].Get(td) }); pn != nil || !sameSelection(g0, g1) {
			c.Cover("twin-skipped:get-selects-differently-on-" + repr)
			return
		}
	}
	tres, terr, tpn := apply(op, x, td, val, mod)
	c.Cover("twin:" + repr)
	c.Eval(1)
	subject := "jp.Expr." + op + "(" + repr + ")"
	switch {
	case tpn != nil:
		c.Violation(subject, "panic", class+"/"+mon.FaultClass(tpn.Msg), cs, "result or error", tpn.String())
	case terr != nil && mon.IsRuntimeFaultMsg(terr.Error()):
		c.Violation(subject, "recovered-runtime-fault", class+"/"+mon.FaultClass(terr.Error()), cs, "'can not ...' error or success", terr.Error())
	case terr != nil && strings.HasPrefix(op, "Set"):
		c.Cover("twin-error:Set") // a collection can refuse what a slice or map accepts (growing, a value of another type)
	case terr != nil && op == "DelOne":
		// the member a wildcard takes first follows the order of members; an index that does not exist in
		// that member is an error on simple data as well
		c.Cover("twin-error:DelOne")
	case terr != nil:
		c.Violation(subject, "error-on-"+repr+"-only", class, cs, "same outcome as on simple data", terr.Error())
	case op == "DelOne" || op == "SetOne":
		// which location these take follows the order of members (a wildcard takes the first member, which
		// may or may not have the child named next): nothing to compare beyond "no fault"
		c.Cover("twin-one-form:fault-check-only")
	case strings.HasSuffix(op, "One"):
		// which location is taken may differ with the order of members; whether anything changed may not
		if a, b := eq(result, d0), eq(tres, d0); a != b {
			c.Violation(subject, "one-form-changed-on-one-representation-only", class, cs, fmt.Sprint("simple data changed: ", !a), fmt.Sprint(repr+" data changed: ", !b))
		}
	case !eq(tres, result) && (op == "Remove" || op == "Del") && hasRootOperand(p):
		c.Cover("accepted:root-operand-changed-during-removal")
	case !eq(tres, result):
		c.Violation(subject, repr+"-state-differs-from-simple", class, cs, clip(treegen.Show(normTree(result))), clip(treegen.Show(normTree(tres))))
	}
}

func hasFilter(p jpref.Path) bool {
	for _, f := range p {
		if f.Kind == "filter" {
			return true
		}
	}
	return false
}

// hasRootOperand: some filter of the path has an operand rooted at the document.
func hasRootOperand(p jpref.Path) bool {
	for _, f := range p {
		if f.Kind == "filter" && f.Filter != nil && strings.Contains(f.Filter.String(), "$") {
			return true
		}
	}
	return false
}

func keys(m map[string]bool) []string {
	ks := make([]string, 0, len(m))
	for k := range m {
		ks = append(ks, k)
	}
	sort.Strings(ks)
	return ks
}

func (ck *checker) setPost(op string, p jpref.Path, d0, d any, l0, out0 map[string]bool, val any, class string, cs map[string]any) {
	c := ck.c
	L1 := jpref.Eval(p, d, jpref.Res{Loc: []any{}, V: d})
	l1 := map[string]bool{}
	for _, l := range L1 {
		l1[locKey(l.Loc)] = true
	}
	hasFilterOrDescent := false
	for _, f := range p {
		if f.Kind == "filter" || f.Kind == "descent" {
			hasFilterOrDescent = true
		}
	}
	f0, f1 := map[string]string{}, map[string]string{}
	flatten(d0, nil, f0)
	flatten(d, nil, f1)
	valShown := treegen.Show(val)
	isVal := func(q string) bool {
		// the location holds the new value (a container value shows as marker + members)
		if _, c := val.(map[string]any); c {
			return f1[q] == "{}"
		}
		return f1[q] == valShown
	}
	// members the last fragment names under the parents selected BEFORE the call may be created even if the
	// parent is no longer selected afterwards (a filter that looked at the old value)
	creatable := map[string]bool{}
	if len(p) > 0 {
		// the trailing chain of naming fragments (child / index, possibly a final union of keys) hangs off
		// the parents selected by the prefix before it
		i := len(p) - 1
		for i > 0 && (p[i-1].Kind == "child" || p[i-1].Kind == "nth") {
			i--
		}
		first := p[i]
		for _, par := range jpref.Eval(p[:i], d0, jpref.Res{Loc: []any{}, V: d0}) {
			switch first.Kind {
			case "child":
				creatable[locKey(cat(par.Loc, first.Key))] = true
			case "nth":
				if first.N >= 0 {
					creatable[locKey(cat(par.Loc, first.N))] = true
				}
			case "union":
				for _, u := range first.Union {
					if k, ok := u.(string); ok {
						creatable[locKey(cat(par.Loc, k))] = true
					}
				}
			}
		}
	}
	created := false
	for q, v1 := range f1 {
		v0, had := f0[q]
		if had && v0 == v1 {
			continue
		}
		if under(q, l1) {
			continue
		}
		if above(q, l1) && (!had || strings.HasPrefix(v0, "[") || v0 == "{}") {
			created = true
			continue // created or grown on the way to a selected location
		}
		if !had && v1 == "null" {
			created = true
			continue // nil filler inside a created array
		}
		// under a location that was selected before the call (SetOne may set one of several; a location
		// selected before may stop being selected after - e.g. a filter on the old value)
		if under(q, l0) || under(q, creatable) {
			continue
		}
		c.Violation("jp.Expr."+op, "frame-changed", class, cs, fmt.Sprintf("no change at %s (not selected)", q), fmt.Sprintf("%s -> %s ; data after: %s", v0, v1, clip(treegen.Show(d))))
		return
	}
	if created {
		c.Cover("created-path")
	}
	for q := range f0 {
		if _, still := f1[q]; !still && !under(q, l1) && !under(q, l0) {
			c.Violation("jp.Expr."+op, "frame-removed", class, cs, fmt.Sprintf("%s stays", q), "gone ; data after: "+clip(treegen.Show(d)))
			return
		}
	}
	if op == "Set" {
		if !hasFilterOrDescent {
			for l := range l1 {
				if !isVal(l) {
					c.Violation("jp.Expr.Set", "selected-not-set", class, cs, fmt.Sprintf("%s = %s", l, valShown), fmt.Sprintf("%s ; data after: %s", f1[l], clip(treegen.Show(d))))
					return
				}
			}
			for l := range out0 {
				if !l1[l] {
					c.Violation("jp.Expr.Set", "lost-selection", class, cs, fmt.Sprintf("%s still selected and set", l), "data after: "+clip(treegen.Show(d)))
					return
				}
			}
		} else {
			for l := range out0 {
				// (a location above another selected one, or above a member the call creates, holds a
				// container and not the value when the inner location is written last)
				if _, still := f1[l]; still && !isVal(l) && !above(l, l0) && !above(l, creatable) {
					c.Violation("jp.Expr.Set", "selected-not-set", class, cs, fmt.Sprintf("%s = %s", l, valShown), fmt.Sprintf("%s ; data after: %s", f1[l], clip(treegen.Show(d))))
					return
				}
			}
		}
	} else {
		changed := 0
		for l := range l0 {
			if f0[l] != f1[l] || !subtreeEqual(f0, f1, l) {
				changed++
			}
		}
		for l := range l1 {
			if !l0[l] {
				if _, had := f0[l]; !had {
					changed++
				}
			}
		}
		if changed > 1 {
			// nested selections: changing an ancestor changes what is below it; count outermost changes only
			outer := 0
			ch := map[string]bool{}
			for l := range l0 {
				if f0[l] != f1[l] || !subtreeEqual(f0, f1, l) {
					ch[l] = true
				}
			}
			o, _ := outermost(ch)
			outer = len(o)
			if outer > 1 {
				c.Violation("jp.Expr.SetOne", "one-form", class, cs, "at most one location changed", fmt.Sprintf("%d locations changed %v ; data after: %s", outer, keys(o), clip(treegen.Show(d))))
			}
		}
	}
}

func subtreeEqual(f0, f1 map[string]string, l string) bool {
	for q, v := range f0 {
		if q == l || strings.HasPrefix(q, l+"/") {
			if f1[q] != v {
				return false
			}
		}
	}
	for q, v := range f1 {
		if q == l || strings.HasPrefix(q, l+"/") {
			if f0[q] != v {
				return false
			}
		}
	}
	return true
}

const omitted = 1 << 20

func run(c *mon.Ctx) {
	ck := &checker{c: c}
	// slice / nth / union lattice for Remove, Del, Modify
	idx := 0
	for L := 0; L <= 5; L++ {
		flat := make([]any, L)
		maps := make([]any, L)
		for i := 0; i < L; i++ {
			flat[i] = int64(100 + i)
			maps[i] = map[string]any{"k": int64(200 + i), "z": int64(300 + i)}
		}
		bounds := []int{omitted}
		for b := -L - 2; b <= L+2; b++ {
			bounds = append(bounds, b)
		}
		for _, s := range bounds {
			for _, e := range bounds {
				for _, st := range []int{omitted, -2, -1, 0, 1, 2, 3} {
					idx++
					if !c.Mine(idx) {
						continue
					}
					var sl []int
					switch {
					case s == omitted && e == omitted && st == omitted:
						sl = []int{}
					case e == omitted && st == omitted:
						sl = []int{s}
					case st == omitted:
						sl = []int{z(s), en(e)}
					default:
						sl = []int{z(s), en(e), st}
					}
					f := jpspec.Slice(sl...)
					c.Cover("lattice:remove-slice")
					ck.check("Remove", jpref.Path{jpspec.Root(), f}, flat, true, "")
					ck.check("RemoveOne", jpref.Path{jpspec.Root(), f}, flat, true, "")
					ck.check("Modify", jpref.Path{jpspec.Root(), f}, flat, true, "")
					ck.check("Del", jpref.Path{jpspec.Root(), f, jpspec.Child("k")}, maps, true, "")
					ck.check("Remove", jpref.Path{f, jpspec.Child("k")}, maps, true, "")
					ck.check("Set", jpref.Path{jpspec.Root(), f, jpspec.Child("k")}, maps, true, "")
					ck.check("Modify", jpref.Path{jpspec.Root(), f, jpspec.Child("z")}, maps, true, "")
				}
			}
		}
		for a := -L - 2; a <= L+2; a++ {
			idx++
			if !c.Mine(idx) {
				continue
			}
			for _, op := range []string{"Remove", "RemoveOne", "Del", "DelOne", "Modify", "Set"} {
				ck.check(op, jpref.Path{jpspec.Root(), jpspec.Nth(a)}, flat, true, "")
				for b := -L - 2; b <= L+2; b++ {
					ck.check(op, jpref.Path{jpspec.Root(), jpspec.Union(a, b)}, flat, true, "")
				}
			}
		}
	}
	// magnitudes at and near the int limits as slice bounds and steps, indexes and union members
	for _, L := range []int{0, 1, 3} {
		flat := make([]any, L)
		maps := make([]any, L)
		for i := 0; i < L; i++ {
			flat[i] = int64(100 + i)
			maps[i] = map[string]any{"k": int64(200 + i), "z": int64(300 + i)}
		}
		for _, sl := range jpspec.ExtremeSlices() {
			idx++
			if !c.Mine(idx) {
				continue
			}
			f := jpspec.Slice(sl...)
			c.Cover("lattice:extreme-magnitudes")
			ck.check("Remove", jpref.Path{jpspec.Root(), f}, flat, true, "")
			ck.check("Modify", jpref.Path{jpspec.Root(), f}, flat, true, "")
			ck.check("Del", jpref.Path{jpspec.Root(), f, jpspec.Child("k")}, maps, true, "")
			ck.check("Set", jpref.Path{jpspec.Root(), f, jpspec.Child("k")}, maps, true, "")
			ck.check("Modify", jpref.Path{jpspec.Root(), f, jpspec.Child("z")}, maps, true, "")
		}
		for _, a := range jpspec.ExtremeInts {
			idx++
			if !c.Mine(idx) {
				continue
			}
			c.Cover("lattice:extreme-magnitudes")
			for _, op := range []string{"Remove", "RemoveOne", "Del", "DelOne", "Modify", "Set"} {
				ck.check(op, jpref.Path{jpspec.Root(), jpspec.Nth(a)}, flat, true, "")
				ck.check(op, jpref.Path{jpspec.Root(), jpspec.Union(a, 0)}, flat, true, "")
			}
			// an index that has to be created below a member that does not exist yet (only magnitudes no
			// allocation can satisfy, and negative ones: anything between would just allocate that much)
			if a < 0 || a >= 1<<62 {
				ck.check("Set", jpref.Path{jpspec.Root(), jpspec.Nth(0), jpspec.Child("n"), jpspec.Nth(a)}, maps, true, "")
			}
		}
	}
	// maps reached by reflection (a named map type, a pointer to a map) as the parent of the last fragment:
	// storing nil keeps the member (with a nil value), other members stay, Get returns the nil afterwards
	if c.Mine(idx + 1) {
		ck.reflectedMaps()
	}
	idx++
	// a filter whose operand is rooted at the document and points into the very array being filtered:
	// every array over {1,2,3} of length 2-4 (and one of length 5), every position, every comparison
	for L := 2; L <= 5; L++ {
		total := 1
		for i := 0; i < L; i++ {
			total *= 3
		}
		for code := 0; code < total; code++ {
			idx++
			if !c.Mine(idx) || (L == 5 && code%7 != 0) {
				continue
			}
			mk := func() []any {
				a := make([]any, L)
				for i, cc := 0, code; i < L; i, cc = i+1, cc/3 {
					a[i] = int64(1 + cc%3)
				}
				return a
			}
			for k := 0; k < L; k++ {
				for _, cmp := range []string{"lt", "lte", "gt", "gte", "eq", "neq"} {
					c.Cover("lattice:filter-operand-inside-filtered-array")
					top := jpref.Path{jpspec.Root(), jpspec.Filter(jpspec.Bin(cmp, jpspec.P(jpspec.At()), jpspec.P(jpspec.Root(), jpspec.Nth(k))))}
					in := jpref.Path{jpspec.Root(), jpspec.Child("list"), jpspec.Filter(jpspec.Bin(cmp, jpspec.P(jpspec.At()), jpspec.P(jpspec.Root(), jpspec.Child("list"), jpspec.Nth(k-L))))}
					for _, op := range []string{"Remove", "RemoveOne", "Modify", "ModifyOne"} {
						if strings.HasPrefix(op, "Modify") && (cmp == "lte" || cmp == "gte" || cmp == "eq") {
							// the element the operand points at selects itself; once the modifier has replaced
							// it the later comparisons read the new value (evaluation and mutation interleave)
							continue
						}
						ck.check(op, top, mk(), true, "")
						ck.check(op, in, map[string]any{"k": int64(7), "list": mk()}, true, "")
					}
				}
			}
		}
	}
	// random
	r := c.Rand("mut")
	g := &jpspec.Gen{R: r, Keys: []string{"a", "b", "c", "d", "k"}}
	ops := []string{"Set", "SetOne", "Del", "DelOne", "Remove", "RemoveOne", "Modify", "ModifyOne"}
	n := c.Pick(2400000, 24000000) / c.Batches
	for i := 0; i < n; i++ {
		g.ResetLeaves()
		d0 := g.Tree(2 + r.Intn(2))
		op := ops[r.Intn(len(ops))]
		var p jpref.Path
		switch {
		case strings.HasPrefix(op, "Set") || strings.HasPrefix(op, "Del"):
			p = g.Path(1+r.Intn(3), jpspec.AllKinds, false)
			// Set/Del need a last fragment that names locations
			last := g.Frag([]string{"child", "nth", "wild", "union"})
			p = append(p[:len(p)-1], last)
		default:
			p = g.Path(1+r.Intn(4), jpspec.AllKinds, i%23 == 0)
		}
		modKind := ""
		if strings.HasPrefix(op, "Modify") && i%3 == 0 {
			hasDescent := false
			for _, f := range p {
				hasDescent = hasDescent || f.Kind == "descent"
			}
			if !hasDescent {
				modKind = "append"
			}
		}
		ck.check(op, p, d0, false, modKind)
	}
}

func z(s int) int {
	if s == omitted {
		return 0
	}
	return s
}

func en(e int) int {
	if e == omitted {
		return 1<<31 - 1
	}
	return e
}

type namedMap map[string]any

func (ck *checker) reflectedMaps() {
	c := ck.c
	mk := func(kind string) (any, func() map[string]any) {
		switch kind {
		case "named-map":
			m := namedMap{"k": int64(1), "z": int64(2)}
			return map[string]any{"p": m}, func() map[string]any { return m }
		case "pointer-to-map":
			m := map[string]any{"k": int64(1), "z": int64(2)}
			return map[string]any{"p": &m}, func() map[string]any { return m }
		default:
			m := namedMap{"k": int64(1), "z": int64(2)}
			return []any{m}, func() map[string]any { return m }
		}
	}
	for _, kind := range []string{"named-map", "pointer-to-map", "named-map-in-list"} {
		for _, op := range []string{"Set", "SetOne", "Modify", "ModifyOne"} {
			for _, val := range []any{nil, "S"} {
				data, inner := mk(kind)
				x := jp.R().C("p").C("k")
				if kind == "named-map-in-list" {
					x = jp.R().N(0).C("k")
				}
				cs := map[string]any{"op": op, "path": x.String(), "parent": kind, "value": fmt.Sprint(val)}
				c.Begin("jp mutation (reflected map)", cs)
				c.Cover("lattice:reflected-map-parent")
				var err error
				pn := mon.Guard(func() {
					switch op {
					case "Set":
						err = x.Set(data, val)
					case "SetOne":
						err = x.SetOne(data, val)
					case "Modify":
						_, err = x.Modify(data, func(any) (any, bool) { return val, true })
					default:
						_, err = x.ModifyOne(data, func(any) (any, bool) { return val, true })
					}
				})
				c.Eval(1)
				subject := "jp.Expr." + op + "(reflected map)"
				switch {
				case pn != nil:
					c.Violation(subject, "panic", kind+"/"+mon.FaultClass(pn.Msg), cs, "result or error", pn.String())
					continue
				case err != nil:
					c.Cover("reflected-map:error")
					continue
				}
				m := inner()
				got, has := m["k"]
				if !has || got != val || m["z"] != int64(2) || len(m) != 2 {
					c.Violation(subject, "state", kind, cs, fmt.Sprintf("k=%v z=2", val), fmt.Sprintf("%v", map[string]any(m)))
					continue
				}
				if g := x.Get(data); len(g) != 1 || g[0] != val {
					c.Violation(subject, "get-after-set", kind, cs, fmt.Sprint([]any{val}), fmt.Sprint(g))
				}
			}
		}
	}
}
