// Package c09: parse errors point at the first offending byte.
// Oracle: longest viable prefix from the reference recogniser R plus line /
// column arithmetic; every front-end and every chunking must report it.
package c09

import (
	"bytes"
	"fmt"
	"strings"

	"verif/gen/jsongen"
	"verif/mon"
	"verif/props/jsonfe"
	"verif/ref/jsonref"
)

func init() {
	mon.Register(&mon.Prop{
		ID:      "C09",
		Batches: func(tier string) int { return map[string]int{"quick": 16, "thorough": 64}[tier] },
		Run:     run,
		Rule: "cases: the inputs of C01's workload that R rejects and that do not start with a BOM; each is given to 10 front-ends and to one long-lived instance of each parser, validator and tokenizer that has seen every earlier input, the reader variants under chunk plans " +
			"(whole, 1-byte reads, fixed 2/3/7, every single split point for inputs up to 96 bytes, (n>0, EOF) on the last read), and the reported Line/Column is compared with the position computed from R's longest viable prefix. " +
			"non-trivial: rejected input whose viable prefix is at least one byte long, or that contains a newline before the offending byte; distinct: enumerated strings distinct by construction, the rest by digest",
		Assumptions: []string{
			"the offending byte is the first byte after R's longest viable prefix; an incomplete text is reported just past its last byte",
			"Line = 1 + number of '\\n' before the offending byte, Column = 1-based byte offset within that line",
		},
		Findings: map[string]func(v *mon.Violation) bool{
			"nonParseErrorBOM": func(v *mon.Violation) bool {
				b := caseBytes(v.Case)
				return v.Kind == "not-a-ParseError" && len(b) > 0 && b[0] == 0xEF && strings.HasPrefix(v.Observed, "expected BOM at 1:")
			},
		},
		Floors: func(tier string, cover map[string]int64, evals int64) []string {
			var out []string
			for _, k := range []string{"offset:first-byte", "offset:mid", "offset:eof", "offset:after-newline", "offset:beyond-4096", "plan:split", "plan:fixed1"} {
				if cover[k] == 0 {
					out = append(out, "coverage class never reached: "+k)
				}
			}
			return out
		},
		Exhaustive: func(tier string) []string {
			if tier == "thorough" {
				return []string{"rejected strings among all byte strings of length <= 3 over 256 byte values and length <= 5 over the 39-byte JSON alphabet, each with every single split point"}
			}
			return []string{"rejected strings among all byte strings of length <= 2 over 256 byte values and length <= 4 over the 39-byte JSON alphabet, each with every single split point"}
		},
	})
}

func caseBytes(cs any) []byte {
	switch t := cs.(type) {
	case mon.B:
		return t
	case []byte:
		return t
	case string:
		return mon.DecBytes(t)
	case map[string]any:
		if s, ok := t["input"].(string); ok {
			return mon.DecBytes(s)
		}
		if b, ok := t["input"].(mon.B); ok {
			return b
		}
	}
	return nil
}

var basePlans = []jsongen.Plan{jsongen.Whole, jsongen.Fixed(1), jsongen.Fixed(2), jsongen.Fixed(3), jsongen.Fixed(7),
	{Name: "fixed5+eofdata", Sizes: []int{5}, EOFWithData: true, ErrAt: -1}, {Name: "whole+eofdata", EOFWithData: true, ErrAt: -1}}

func run(c *mon.Ctx) {
	planCount := map[string]int64{}
	offCount := map[string]int64{}
	n := 0
	jsonfe.Workload(c, func(x []byte, src string) {
		if len(x) >= 3 && x[0] == 0xEF && x[1] == 0xBB && x[2] == 0xBF {
			return // starts with a BOM: outside the statement
		}
		v, k := jsonref.Check(x)
		if v != 0 {
			return
		}
		n++
		c.Begin("strict-frontends", x)
		line, col := jsonref.LineCol(x, k)
		switch {
		case k == 0:
			offCount["offset:first-byte"]++
		case k == len(x):
			offCount["offset:eof"]++
		default:
			offCount["offset:mid"]++
		}
		if line > 1 {
			offCount["offset:after-newline"]++
		}
		if k > 4096 {
			offCount["offset:beyond-4096"]++
		}
		if k >= 1 || line > 1 {
			if src == "enum256" || src == "enum39" {
				c.DistinctEnum(1)
			} else {
				c.Distinct(x)
			}
		}
		if c.WantSample() && len(x) > 3 && src != "enum256" {
			c.Sample(map[string]any{"input": mon.B(append([]byte{}, x...)), "source": src, "viable_prefix": k, "expected_line": line, "expected_column": col})
		}
		enum := src == "enum256" || src == "enum39"
		// long-lived instances that have seen all the earlier inputs (not for the bulk enumerations)
		if !enum || n%16 == 0 {
			for fi := range jsonfe.ReusedFEs {
				fe := &jsonfe.ReusedFEs[fi]
				pl := jsongen.Whole
				if fe.Reader && n%2 == 0 {
					pl = jsongen.Fixed(3)
				}
				planCount["frontend:reused-instance"]++
				check(c, fe, x, pl, k, line, col)
			}
		}
		for fi := range jsonfe.FEs {
			fe := &jsonfe.FEs[fi]
			if !fe.Reader || fe.Name == "oj.Load" {
				// oj.Load is Parser.ParseReader on a pooled instance: chunking is exercised on the latter
				check(c, fe, x, jsongen.Whole, k, line, col)
				continue
			}
			for pi, pl := range basePlans {
				if enum && pi >= 2 && pi <= 5 {
					continue // on strings of length <= 5 these coincide with single split points
				}
				if len(pl.Sizes) > 0 && pl.Sizes[0] >= len(x) && !pl.EOFWithData {
					continue
				}
				planCount["plan:"+strings.TrimRight(pl.Name, "0123456789")+fmt.Sprint(min(len(pl.Sizes), 1))]++
				check(c, fe, x, pl, k, line, col)
			}
			planCount["plan:fixed1"]++
			if len(x) <= 96 && (src != "mutant" && src != "text" || n%4 == 0) {
				for at := 1; at < len(x); at++ {
					planCount["plan:split"]++
					check(c, fe, x, jsongen.Split(at), k, line, col)
				}
			} else if len(x) > 4000 {
				// long inputs: split around the offending byte and around the refill boundary
				for _, at := range []int{k - 1, k, k + 1, 4095, 4096, 4097} {
					if at > 0 && at < len(x) {
						planCount["plan:split"]++
						check(c, fe, x, jsongen.Split(at), k, line, col)
					}
				}
			}
		}
	})
	for k, v := range planCount {
		c.CoverN(k, v)
	}
	for k, v := range offCount {
		c.CoverN(k, v)
	}
}

func min(a, b int) int {
	if a < b {
		return a
	}
	return b
}

func check(c *mon.Ctx, fe *jsonfe.FE, x []byte, pl jsongen.Plan, k, line, col int) {
	err, perr := jsonfe.Call(fe, x, pl)
	c.Eval(1)
	if perr != nil || err == nil {
		return // panics are C06's, acceptance is C01's
	}
	l, co, ok := jsonfe.Pos(err)
	if ok && l == line && co == col {
		return
	}
	where := "first-byte"
	switch {
	case k == len(x):
		where = "eof"
	case k > 0:
		where = "mid"
	}
	st, ctx := jsonref.StateAt(x, k)
	nl := ""
	if bytes.IndexByte(x[:k], '\n') >= 0 {
		nl = "/nl"
	}
	plan := strings.TrimRight(pl.Name, "0123456789")
	cs := map[string]any{"input": mon.B(append([]byte{}, x...)), "plan": pl.Name}
	if !ok {
		c.Violation(fe.Name, "not-a-ParseError", plan, cs, fmt.Sprintf("ParseError at %d:%d", line, col), err.Error())
		return
	}
	kind := "column"
	if l != line {
		kind = "line"
	}
	class := fmt.Sprintf("%s/%s/%s/%s%s/d%+d", plan, where, st, ctx, nl, clamp(co-col))
	c.Violation(fe.Name, kind, class, cs, fmt.Sprintf("%d:%d (offending offset %d of %d)", line, col, k, len(x)), fmt.Sprintf("%d:%d %s", l, co, err.Error()))
}

func clamp(d int) int {
	if d > 9 {
		return 9
	}
	if d < -9 {
		return -9
	}
	return d
}
