// Package c03: all parsing front-ends agree, however the input is chunked.
// Oracle: differential - every route/plan is compared with the []byte parse of
// its family (and with the reference decoder D for valid texts).
package c03

import (
	"encoding/json"
	"fmt"
	"math/rand"
	"regexp"
	"strings"

	"github.com/ohler55/ojg/gen"
	"github.com/ohler55/ojg/oj"
	"github.com/ohler55/ojg/sen"

	"verif/gen/jsongen"
	"verif/gen/sengen"
	"verif/gen/treegen"
	"verif/mon"
	"verif/props/decoders"
	"verif/ref/jsonref"
)

func init() {
	mon.Register(&mon.Prop{
		ID:      "C03",
		Batches: func(tier string) int { return map[string]int{"quick": 16, "thorough": 48}[tier] },
		Run:     run,
		Rule: "cases: generated valid JSON texts, their mutants, boundary numbers/escapes, documents with a token across the 4096/8192 refill boundary, generated SEN texts (bare tokens, optional commas, comments, single quotes, + concatenation, token functions) and their mutants, " +
			"and multi-document streams of 0-6 documents; every input is delivered as []byte and through readers under chunk plans (whole, 1-byte, fixed 2/3/7/4095/4096/4097, every single split point up to 200 bytes, random splits, (n>0,EOF) last read) to every route of its family " +
			"(oj.Parser, oj.Tokenizer+collector, oj.Tokenizer+alt.Builder, gen.Parser, oj.Validator, and for strict JSON the SEN parser; sen.Parser, sen.ParseReader, sen.Tokenizer) in single- and multi-document (callback, channel, and for Parser{Reuse:true} a channel that is read only after the call returned) mode; outcomes (error flag, exact trees, document sequences) must be identical. " +
			"also two strings per document built from escape pieces that carry state between \\u escapes (lone and paired surrogates behind plain characters), and top-level scalars directly followed by a comment. non-trivial: input of at least 2 bytes that is not rejected at its first byte; distinct by digest of (input, mode)",
		Assumptions: []string{
			"a top-level number or bare token directly followed by a comment that runs to the end of the input is F-C03-sentopcomment",
			"tree equality is exact including numeric representation (int64 vs float64 vs json.Number text)",
			"for inputs that are not valid strict JSON the SEN routes are compared only among themselves",
			"error positions/messages are not compared here (C09)",
		},
		Findings: map[string]func(v *mon.Violation) bool{
			"maxIntChunkedVsInline": func(v *mon.Violation) bool {
				return v.Kind == "value-differs" && maxIntDiff.MatchString(v.Observed)
			},
			"senMalformedBoundary": func(v *mon.Violation) bool {
				if !strings.HasPrefix(v.Entry, "sen.") || v.Kind != "error-differs" {
					return false
				}
				m, _ := v.Case.(map[string]any)
				if m == nil {
					return false
				}
				in, _ := m["input"].(mon.B)
				if r, _ := jsonref.Check(in); r == 1 {
					return false // never for strict JSON
				}
				return tokenThenComment.Match(in) || commaBeforeColon.Match(in) || numberThenBracket.Match(in)
			},
			// a top-level number or bare token directly followed by a comment that runs to the end of the
			// input: sen.Parser moves to the comment modes without completing the document and returns nil
			"senTopLevelValueThenComment": func(v *mon.Violation) bool {
				if !strings.HasPrefix(v.Entry, "sen.") || v.Kind != "value-differs" {
					return false
				}
				m, _ := v.Case.(map[string]any)
				if m == nil {
					return false
				}
				in, _ := m["input"].(mon.B)
				return topValueThenComment.Match(in) && strings.Contains(v.Expected+" "+v.Observed, "null")
			},
			"senTokenizerOnlyOneLeadingComment": func(v *mon.Violation) bool {
				if !strings.HasPrefix(v.Entry, "sen.Tokenizer") || v.Kind != "error-differs" {
					return false
				}
				m, _ := v.Case.(map[string]any)
				if m == nil {
					return false
				}
				in, _ := m["input"].(mon.B)
				// the text starts (after white space) with a // comment and the tokenizer reports what follows it as extra
				return strings.HasPrefix(strings.TrimLeft(string(in), " \t\r\n"), "//") && strings.Contains(v.Observed, "extra characters after close")
			},
			"senTokenizerFeatureGap": func(v *mon.Violation) bool {
				if !strings.HasPrefix(v.Entry, "sen.Tokenizer") {
					return false
				}
				m, _ := v.Case.(map[string]any)
				if m == nil {
					return false
				}
				in, _ := m["input"].(mon.B)
				// the text contains the marker of one of the three unimplemented features:
				// a '+' that is not an exponent sign, a block comment opener, a function call parenthesis
				return plusMarker.Match(in) || strings.Contains(string(in), "/*") || strings.Contains(string(in), "(")
			},
		},
		Floors: func(tier string, cover map[string]int64, evals int64) []string {
			var out []string
			for _, k := range []string{"mode:single/json", "mode:single/sen", "mode:multi/json", "mode:multi/sen", "plan:split", "plan:fixed1", "straddle:string", "straddle:number", "straddle:literal", "straddle:escape"} {
				if cover[k] == 0 {
					out = append(out, "coverage class never reached: "+k)
				}
			}
			return out
		},
		Exhaustive: func(tier string) []string {
			return []string{"every single split point of every input up to 200 bytes (so every token is split at every offset)"}
		},
	})
}

// diff like: $[0]: json.Number("9223372036854775807") vs int64(9223372036854775807)
// the literal's integer part is 9223372036854775800..807 (optionally followed by a fraction/exponent): big from
// the inline digit loop, int64/float64 from the byte-at-a-time path
var maxIntDiff = regexp.MustCompile(`: (json\.Number\("92233720368547758(0[0-7])([.eE][^"]*)?"\) vs (int64|float64)\([^)]*\)|(int64|float64)\([^)]*\) vs json\.Number\("92233720368547758(0[0-7])([.eE][^"]*)?"\))$`)

// malformed-SEN shapes whose handling depends on where a buffer ends (open finding F-C03-senmalformed)
var tokenThenComment = regexp.MustCompile("[^\\s\\[\\]{}:,\"'/]/[/*]")
var topValueThenComment = regexp.MustCompile("^\\s*[^\\s\\[\\]{}:,\"'/()]+/(/[^\n]*\n?\\s*|\\*[^*]*\\*/\\s*)$")
var commaBeforeColon = regexp.MustCompile("[\"'\\w]\\s*,\\s*:")
var numberThenBracket = regexp.MustCompile("(^|[\\s\\[{:,])-?[0-9][0-9.eE+-]*[\\[{]")

var plusMarker = regexp.MustCompile(`(^|[^eE])\+`)

type outcome struct {
	docs []any
	err  error
}

func (o outcome) String() string {
	var sb strings.Builder
	for i, d := range o.docs {
		if i > 0 {
			sb.WriteString(" | ")
		}
		sb.WriteString(show(d))
	}
	if o.err != nil {
		sb.WriteString(" ERR(" + o.err.Error() + ")")
	}
	s := sb.String()
	if len(s) > 500 {
		s = s[:500] + "…"
	}
	return s
}

func show(v any) string {
	switch t := v.(type) {
	case json.Number:
		return fmt.Sprintf("json.Number(%q)", string(t))
	case []any:
		parts := make([]string, len(t))
		for i, e := range t {
			parts[i] = show(e)
		}
		return "[" + strings.Join(parts, ",") + "]"
	case map[string]any:
		return treegenShowMap(t)
	}
	return treegen.Show(v)
}

func treegenShowMap(m map[string]any) string {
	keys := make([]string, 0, len(m))
	for k := range m {
		keys = append(keys, k)
	}
	sortStrings(keys)
	parts := make([]string, len(keys))
	for i, k := range keys {
		parts[i] = fmt.Sprintf("%q:%s", k, show(m[k]))
	}
	return "{" + strings.Join(parts, ",") + "}"
}

func sortStrings(a []string) {
	for i := 1; i < len(a); i++ {
		for j := i; j > 0 && a[j] < a[j-1]; j-- {
			a[j], a[j-1] = a[j-1], a[j]
		}
	}
}

// firstDiff describes the first difference between two trees ("" if equal).
func firstDiff(a, b any, path string) string {
	switch ta := a.(type) {
	case []any:
		tb, ok := b.([]any)
		if !ok {
			return fmt.Sprintf("%s: %s vs %s", path, typed(a), typed(b))
		}
		if len(ta) != len(tb) {
			return fmt.Sprintf("%s: %d elements vs %d elements", path, len(ta), len(tb))
		}
		for i := range ta {
			if d := firstDiff(ta[i], tb[i], fmt.Sprintf("%s[%d]", path, i)); d != "" {
				return d
			}
		}
		return ""
	case map[string]any:
		tb, ok := b.(map[string]any)
		if !ok {
			return fmt.Sprintf("%s: %s vs %s", path, typed(a), typed(b))
		}
		if len(ta) != len(tb) {
			return fmt.Sprintf("%s: %d members vs %d members", path, len(ta), len(tb))
		}
		keys := make([]string, 0, len(ta))
		for k := range ta {
			keys = append(keys, k)
		}
		sortStrings(keys)
		for _, k := range keys {
			w, has := tb[k]
			if !has {
				return fmt.Sprintf("%s: member %q vs missing", path, k)
			}
			if d := firstDiff(ta[k], w, path+"."+k); d != "" {
				return d
			}
		}
		return ""
	}
	if _, isC := b.([]any); isC {
		return fmt.Sprintf("%s: %s vs %s", path, typed(a), typed(b))
	}
	if _, isC := b.(map[string]any); isC {
		return fmt.Sprintf("%s: %s vs %s", path, typed(a), typed(b))
	}
	if fa, ok := a.(float64); ok {
		if fb, ok := b.(float64); ok && fa == fb {
			return ""
		}
	} else if a == b {
		return ""
	}
	return fmt.Sprintf("%s: %s vs %s", path, typed(a), typed(b))
}

func typed(v any) string {
	switch t := v.(type) {
	case nil:
		return "null"
	case json.Number:
		return fmt.Sprintf("json.Number(%q)", string(t))
	case string:
		return fmt.Sprintf("string(%q)", t)
	case []any:
		return fmt.Sprintf("array(%d)", len(t))
	case map[string]any:
		return fmt.Sprintf("object(%d)", len(t))
	}
	return fmt.Sprintf("%T(%v)", v, v)
}

type route struct {
	name   string
	reader bool
	run    func(x []byte, pl jsongen.Plan) outcome
}

func guard(f func() outcome) (o outcome) {
	defer func() {
		if r := recover(); r != nil {
			o = outcome{err: fmt.Errorf("PANIC: %v", r)}
		}
	}()
	return f()
}

func one(v any, err error) outcome {
	if err != nil {
		return outcome{err: err}
	}
	return outcome{docs: []any{v}}
}

func singleRoutes(family string) []route {
	var out []route
	for i := range decoders.All {
		d := &decoders.All[i]
		if d.Family != family {
			continue
		}
		out = append(out, route{d.Name, d.Reader, func(x []byte, pl jsongen.Plan) outcome {
			return guard(func() outcome { return one(d.Run(x, pl)) })
		}})
	}
	if family == "json" {
		out = append(out,
			route{"gen.Parser.Parse+Simplify", false, func(x []byte, _ jsongen.Plan) outcome {
				return guard(func() outcome {
					var p gen.Parser
					n, err := p.Parse(x)
					if err != nil {
						return outcome{err: err}
					}
					if n == nil {
						return outcome{docs: []any{nil}}
					}
					return outcome{docs: []any{bigAsNumber(n.Simplify())}}
				})
			}},
			route{"oj.Validator.Validate", false, func(x []byte, _ jsongen.Plan) outcome {
				v := oj.Validator{OnlyOne: true}
				return outcome{err: v.Validate(x)}
			}},
			route{"oj.Validator.ValidateReader", true, func(x []byte, pl jsongen.Plan) outcome {
				v := oj.Validator{OnlyOne: true}
				return outcome{err: v.ValidateReader(pl.Reader(x))}
			}},
		)
	}
	return out
}

// bigAsNumber is applied to Simplify output: gen.Big simplifies to a string by
// documentation of gen.Big, which cannot be told from a string here; the
// Simplify route is therefore compared on documents without big numbers only
// (see hasBig).
func bigAsNumber(v any) any { return v }

func hasBig(v any) bool {
	switch t := v.(type) {
	case json.Number:
		return true
	case []any:
		for _, e := range t {
			if hasBig(e) {
				return true
			}
		}
	case map[string]any:
		for _, e := range t {
			if hasBig(e) {
				return true
			}
		}
	}
	return false
}

// chanRoute delivers the documents through a channel. late: the channel is large and is drained only after
// the call has returned (what was delivered must still be what was parsed); otherwise a goroutine drains it
// while the parser runs.
func chanRoute(name string, reader bool, late bool, call func(x []byte, pl jsongen.Plan, ch chan any) error) route {
	return route{name, reader, func(x []byte, pl jsongen.Plan) outcome {
		return guard(func() outcome {
			var o outcome
			if late && len(x) < 8000 { // at most len(x)/2 documents: the channel can take them all
				ch := make(chan any, 4096)
				o.err = call(x, pl, ch)
				close(ch)
				for v := range ch {
					o.docs = append(o.docs, v)
				}
				return o
			}
			ch := make(chan any, 4)
			done := make(chan struct{})
			go func() {
				for v := range ch {
					o.docs = append(o.docs, v)
				}
				close(done)
			}()
			err := call(x, pl, ch)
			close(ch)
			<-done
			o.err = err
			return o
		})
	}}
}

func multiRoutes(family string) []route {
	if family == "sen" {
		return []route{
			chanRoute("sen.Parser.Parse(chan)", false, false, func(x []byte, _ jsongen.Plan, ch chan any) error {
				var p sen.Parser
				_, err := p.Parse(x, ch)
				return err
			}),
			chanRoute("sen.Parser.ParseReader(chan)", true, false, func(x []byte, pl jsongen.Plan, ch chan any) error {
				var p sen.Parser
				_, err := p.ParseReader(pl.Reader(x), ch)
				return err
			}),
			chanRoute("sen.Parser{Reuse}.Parse(chan read afterwards)", false, true, func(x []byte, _ jsongen.Plan, ch chan any) error {
				p := sen.Parser{Reuse: true}
				_, err := p.Parse(x, ch)
				return err
			}),
			chanRoute("sen.Parser{Reuse}.ParseReader(chan read afterwards)", true, true, func(x []byte, pl jsongen.Plan, ch chan any) error {
				p := sen.Parser{Reuse: true}
				_, err := p.ParseReader(pl.Reader(x), ch)
				return err
			}),
			{"sen.Parser.Parse(cb bool)", false, func(x []byte, _ jsongen.Plan) outcome {
				return guard(func() outcome {
					var o outcome
					var p sen.Parser
					_, o.err = p.Parse(x, func(v any) bool { o.docs = append(o.docs, v); return false })
					return o
				})
			}},
			{"sen.Parser.ParseReader(cb)", true, func(x []byte, pl jsongen.Plan) outcome {
				return guard(func() outcome {
					var o outcome
					var p sen.Parser
					_, o.err = p.ParseReader(pl.Reader(x), func(v any) bool { o.docs = append(o.docs, v); return false })
					return o
				})
			}},
			{"sen.Tokenizer.Parse+collector", false, func(x []byte, _ jsongen.Plan) outcome {
				return guard(func() outcome {
					c := &decoders.Collector{}
					t := sen.Tokenizer{}
					err := t.Parse(x, c)
					return outcome{docs: c.Docs, err: err}
				})
			}},
			{"sen.Tokenizer.Load+collector", true, func(x []byte, pl jsongen.Plan) outcome {
				return guard(func() outcome {
					c := &decoders.Collector{}
					t := sen.Tokenizer{}
					err := t.Load(pl.Reader(x), c)
					return outcome{docs: c.Docs, err: err}
				})
			}},
		}
	}
	return []route{
		chanRoute("oj.Parser{Reuse}.Parse(chan read afterwards)", false, true, func(x []byte, _ jsongen.Plan, ch chan any) error {
			p := oj.Parser{Reuse: true}
			_, err := p.Parse(x, ch)
			return err
		}),
		chanRoute("oj.Parser{Reuse}.ParseReader(chan read afterwards)", true, true, func(x []byte, pl jsongen.Plan, ch chan any) error {
			p := oj.Parser{Reuse: true}
			_, err := p.ParseReader(pl.Reader(x), ch)
			return err
		}),
		{"oj.Parser.Parse(cb bool)", false, func(x []byte, _ jsongen.Plan) outcome {
			return guard(func() outcome {
				var o outcome
				var p oj.Parser
				_, o.err = p.Parse(x, func(v any) bool { o.docs = append(o.docs, v); return false })
				return o
			})
		}},
		{"oj.Parse(cb)", false, func(x []byte, _ jsongen.Plan) outcome {
			return guard(func() outcome {
				var o outcome
				_, o.err = oj.Parse(x, func(v any) { o.docs = append(o.docs, v) })
				return o
			})
		}},
		{"oj.Parser.Parse(chan)", false, func(x []byte, _ jsongen.Plan) outcome {
			return guard(func() outcome {
				var o outcome
				var p oj.Parser
				ch := make(chan any, 4)
				done := make(chan struct{})
				go func() {
					for v := range ch {
						o.docs = append(o.docs, v)
					}
					close(done)
				}()
				_, err := p.Parse(x, ch)
				close(ch)
				<-done
				o.err = err
				return o
			})
		}},
		{"oj.Parser.ParseReader(cb bool)", true, func(x []byte, pl jsongen.Plan) outcome {
			return guard(func() outcome {
				var o outcome
				var p oj.Parser
				_, o.err = p.ParseReader(pl.Reader(x), func(v any) bool { o.docs = append(o.docs, v); return false })
				return o
			})
		}},
		{"oj.Parser.ParseReader(chan)", true, func(x []byte, pl jsongen.Plan) outcome {
			return guard(func() outcome {
				var o outcome
				var p oj.Parser
				ch := make(chan any, 4)
				done := make(chan struct{})
				go func() {
					for v := range ch {
						o.docs = append(o.docs, v)
					}
					close(done)
				}()
				_, err := p.ParseReader(pl.Reader(x), ch)
				close(ch)
				<-done
				o.err = err
				return o
			})
		}},
		{"oj.Tokenizer.Parse+collector", false, func(x []byte, _ jsongen.Plan) outcome {
			return guard(func() outcome {
				c := &decoders.Collector{}
				t := oj.Tokenizer{}
				err := t.Parse(x, c)
				return outcome{docs: c.Docs, err: err}
			})
		}},
		{"oj.Tokenizer.Load+collector", true, func(x []byte, pl jsongen.Plan) outcome {
			return guard(func() outcome {
				c := &decoders.Collector{}
				t := oj.Tokenizer{}
				err := t.Load(pl.Reader(x), c)
				return outcome{docs: c.Docs, err: err}
			})
		}},
		{"oj.Tokenizer.Parse+alt.Builder", false, func(x []byte, _ jsongen.Plan) outcome {
			return guard(func() outcome {
				h := &decoders.BuilderHandler{}
				t := oj.Tokenizer{}
				err := t.Parse(x, h)
				if err == nil {
					err = h.Err
				}
				return outcome{docs: h.Docs, err: err}
			})
		}},
		{"gen.Parser.Parse(cb)", false, func(x []byte, _ jsongen.Plan) outcome {
			return guard(func() outcome {
				var o outcome
				var p gen.Parser
				_, o.err = p.Parse(x, func(n gen.Node) bool { o.docs = append(o.docs, decoders.FromGen(n)); return false })
				return o
			})
		}},
		{"gen.Parser.ParseReader(cb)", true, func(x []byte, pl jsongen.Plan) outcome {
			return guard(func() outcome {
				var o outcome
				var p gen.Parser
				_, o.err = p.ParseReader(pl.Reader(x), func(n gen.Node) bool { o.docs = append(o.docs, decoders.FromGen(n)); return false })
				return o
			})
		}},
	}
}

type runner struct {
	c       *mon.Ctx
	cnt     map[string]int64
	routes  map[string][]route
	nInputs int
}

func (r *runner) plansFor(x []byte, full bool) []jsongen.Plan {
	pls := []jsongen.Plan{jsongen.Whole, jsongen.Fixed(1), jsongen.Fixed(2), jsongen.Fixed(3), jsongen.Fixed(7),
		{Name: "fixed5+eofdata", Sizes: []int{5}, EOFWithData: true, ErrAt: -1}, {Name: "whole+eofdata", EOFWithData: true, ErrAt: -1}}
	if len(x) > 4000 {
		pls = append(pls, jsongen.Fixed(4095), jsongen.Fixed(4096), jsongen.Fixed(4097), jsongen.Fixed(64))
		for _, at := range []int{4090, 4093, 4094, 4095, 4096, 4097, 4098, 4100, 8190, 8191, 8192, 8193} {
			if at < len(x) {
				pls = append(pls, jsongen.Split(at))
			}
		}
		return pls
	}
	if full && len(x) <= 200 {
		for at := 1; at < len(x); at++ {
			pls = append(pls, jsongen.Split(at))
		}
	} else {
		rr := r.c.Rand(fmt.Sprint("splits", r.nInputs))
		for i := 0; i < 6 && len(x) > 1; i++ {
			pls = append(pls, jsongen.Split(1+rr.Intn(len(x)-1)))
		}
	}
	// a random multi-split plan
	rr := r.c.Rand(fmt.Sprint("multi", r.nInputs))
	sizes := make([]int, 0, 8)
	for i := 0; i < 8; i++ {
		sizes = append(sizes, 1+rr.Intn(9))
	}
	pls = append(pls, jsongen.Plan{Name: "random", Sizes: sizes, ErrAt: -1})
	return pls
}

func planClass(pl jsongen.Plan) string {
	n := strings.TrimRight(pl.Name, "0123456789")
	if n == "fixed" && len(pl.Sizes) == 1 && pl.Sizes[0] == 1 {
		return "fixed1"
	}
	return strings.TrimSuffix(n, "@")
}

// straddle classifies which kind of token a split point falls into.
func (r *runner) straddle(x []byte, at int) {
	if at <= 0 || at >= len(x) {
		return
	}
	st, _ := jsonref.StateAt(x, at)
	switch st.String() {
	case "str":
		r.cnt["straddle:string"]++
	case "esc", "u0", "u1", "u2", "u3":
		r.cnt["straddle:escape"]++
	case "lit":
		r.cnt["straddle:literal"]++
	case "neg", "zero", "int", "dot", "frac", "e", "esign", "exp":
		r.cnt["straddle:number"]++
	}
}

// compare runs every route of a family/mode under every plan and compares
// with the family's []byte base route.
func (r *runner) compare(x []byte, family, mode string, cs map[string]any, full bool, ref *jsonref.Value) {
	c := r.c
	key := mode + "/" + family
	rs := r.routes[key]
	r.cnt["mode:"+key]++
	base := rs[0].run(x, jsongen.Whole)
	c.Eval(1)
	if base.err != nil && strings.HasPrefix(base.err.Error(), "PANIC") {
		c.Cover("panics-left-to-C06")
		return
	}
	if ref != nil && mode == "single" && base.err != nil {
		// the value itself is C02's business; an error on a valid text is reported here too
		c.Violation(rs[0].name, "error-on-valid-text", family, cs, clip(ref.String()), base.err.Error())
	}
	plans := r.plansFor(x, full)
	for ri := range rs {
		rt := &rs[ri]
		for pi, pl := range plans {
			if pi > 0 && !rt.reader {
				break
			}
			if ri == 0 && pi == 0 {
				continue
			}
			if len(pl.Sizes) > 0 && pl.Sizes[0] >= len(x) && !pl.EOFWithData {
				continue
			}
			got := rt.run(x, pl)
			c.Eval(1)
			pc := planClass(pl)
			r.cnt["plan:"+pc]++
			if pc == "split" && ri == 1 {
				r.straddle(x, pl.Sizes[0])
			}
			if got.err != nil && strings.HasPrefix(got.err.Error(), "PANIC") {
				c.Cover("panics-left-to-C06")
				continue
			}
			entry := rt.name
			cs2 := map[string]any{"plan": pl.Name, "mode": mode}
			for k, v := range cs {
				cs2[k] = v
			}
			if (got.err != nil) != (base.err != nil) {
				c.Violation(entry, "error-differs", family+"/"+mode+"/"+pc, cs2, rs[0].name+": "+base.String(), got.String())
				continue
			}
			if strings.Contains(rt.name, "Validator") {
				continue
			}
			if strings.Contains(rt.name, "Simplify") && len(base.docs) > 0 && hasBig(base.docs[0]) {
				continue
			}
			if len(got.docs) != len(base.docs) {
				c.Violation(entry, "document-count-differs", family+"/"+mode+"/"+pc, cs2, rs[0].name+": "+base.String(), got.String())
				continue
			}
			for i := range got.docs {
				if d := firstDiff(base.docs[i], got.docs[i], "$"); d != "" {
					c.Violation(entry, "value-differs", family+"/"+mode+"/"+pc, cs2, rs[0].name+": "+base.String(), fmt.Sprintf("document %d %s", i, d))
					break
				}
			}
		}
	}
}

func clip(s string) string {
	if len(s) > 300 {
		return s[:300] + "…"
	}
	return s
}

func run(c *mon.Ctx) {
	r := &runner{c: c, cnt: map[string]int64{}, routes: map[string][]route{
		"single/json": singleRoutes("json"), "single/sen": singleRoutes("sen"), "multi/json": multiRoutes("json"), "multi/sen": multiRoutes("sen"),
	}}
	defer func() {
		for k, v := range r.cnt {
			c.CoverN(k, v)
		}
	}()
	senSingle := singleRoutes("sen")
	input := func(x []byte, src string, feats []string, mutated bool) {
		r.nInputs++
		c.Begin("routes", x)
		cs := map[string]any{"input": mon.B(x), "source": src}
		if feats != nil {
			cs["sen_features"] = feats
			cs["mutated"] = mutated
		}
		v, k := jsonref.Check(x)
		if len(x) >= 2 && (k >= 1 || v != 0) {
			c.Distinct(x, "single")
		}
		if c.WantSample() && len(x) > 8 {
			c.Sample(map[string]any{"input": mon.B(x), "source": src, "strict_json": v == 1})
		}
		full := r.nInputs%3 == 0 || c.Thorough()
		var ref *jsonref.Value
		if v == 1 {
			ref = jsonref.Decode(x)
		}
		if feats == nil {
			r.compare(x, "json", "single", cs, full, ref)
		}
		// SEN family among themselves on every input
		r.compare(x, "sen", "single", cs, full && feats != nil, nil)
		if v == 1 && feats == nil {
			// strict JSON: the SEN parser must agree with the JSON family
			want := r.routes["single/json"][0].run(x, jsongen.Whole)
			got := senSingle[0].run(x, jsongen.Whole)
			c.Eval(2)
			if want.err == nil && (got.err == nil || !strings.HasPrefix(got.err.Error(), "PANIC")) {
				if got.err != nil {
					c.Violation("sen.Parser.Parse", "error-differs", "json-vs-sen", cs, "oj.Parser.Parse: "+want.String(), got.String())
				} else if d := firstDiff(want.docs[0], got.docs[0], "$"); d != "" {
					c.Violation("sen.Parser.Parse", "value-differs", "json-vs-sen", cs, "oj.Parser.Parse: "+want.String(), d)
				}
			}
		}
	}
	stream := func(x []byte, family string, feats []string) {
		r.nInputs++
		c.Begin("routes-multi", x)
		cs := map[string]any{"input": mon.B(x), "source": "stream"}
		if feats != nil {
			cs["sen_features"] = feats
			cs["mutated"] = false
		}
		c.Distinct(x, "multi")
		r.compare(x, family, "multi", cs, r.nInputs%2 == 0 || c.Thorough(), nil)
	}

	rnd := c.Rand("c03")
	styles := []jsongen.Style{
		{MaxDepth: 3, MaxWidth: 4, WS: 1, Escapes: 0.3, DupKeys: true, HiBytes: true, Surr: true, BigNums: true},
		{MaxDepth: 4, MaxWidth: 3, WS: 0, Escapes: 0.1, BigNums: true},
		{MaxDepth: 2, MaxWidth: 5, WS: 2, Escapes: 0.2, Surr: true},
	}
	nText := c.Pick(16000, 160000) / c.Batches
	var prev []byte
	var texts [][]byte
	for i := 0; i < nText; i++ {
		g := jsongen.New(rnd, styles[i%len(styles)])
		t := []byte(g.Text())
		texts = append(texts, t)
		input(t, "text", nil, false)
		input(jsongen.Mutate(rnd, t, prev), "mutant", nil, false)
		if i%4 == 0 {
			input(append([]byte{0xEF, 0xBB, 0xBF}, t...), "bom", nil, false)
		}
		prev = t
	}
	// boundary numbers and escapes in small documents
	nums := []string{"9223372036854775807", "9223372036854775808", "-9223372036854775808", "18446744073709551615", "18446744073709551616", "123456789012345678", "1234567890123456789", "12345678901234567890",
		"0.1234567890123456789", "0.123456789012345678", "1.0000000000000000001", "9.00000000000000000001", "1e400", "1e-400", "0.000000000000000001e-1", "1.7976931348623157e308", "5e-324", "0e1", "-0", "-0.0", "1E+2", "922337203685477580.7e1", "0.00000000000000000000", "100000000000000000000.5"}
	for i, n := range nums {
		if !c.Mine(i) {
			continue
		}
		for _, ctx := range []string{"%s", "[%s]", `{"a":%s,"b":[%s]}`, "[%s ,%s\n]"} {
			input([]byte(strings.ReplaceAll(ctx, "%s", n)), "number", nil, false)
		}
	}
	escs := []string{`é`, `😀`, `\ud800`, `\udc00\ud800`, `\"\\\/\b\f\n\r\t`, `é`, "\xff\xfe", `\u0000`, `￿`, strings.Repeat("x", 31) + `\n`, strings.Repeat("y", 63) + `A`}
	for i, e := range escs {
		if !c.Mine(i) {
			continue
		}
		input([]byte(`"`+e+`"`), "escape", nil, false)
		input([]byte(`{"`+e+`":["`+e+`","`+e+e+`"]}`), "escape", nil, false)
	}
	// strings built from escape pieces that carry state from one \u escape to the next (lone and paired
	// surrogates, plain characters before them so that the decoded offsets line up, other escapes), two
	// strings per document: what one string leaves pending must not reach the next
	pieces := []string{`\ud83d`, `\ude00`, `a`, `abc`, `\n`, "\u00e9", `\u0041`}
	var s12, s123 []string
	for _, a := range pieces {
		s12 = append(s12, a)
		s123 = append(s123, a)
		for _, b := range pieces {
			s12 = append(s12, a+b)
			s123 = append(s123, a+b)
			for _, d := range pieces {
				s123 = append(s123, a+b+d)
			}
		}
	}
	pi := 0
	for _, a := range s12 {
		for _, b := range s123 {
			pi++
			if !c.Mine(pi) || (!c.Thorough() && pi%5 != 0) {
				continue
			}
			r.cnt["family:escape-pieces"]++
			if pi%2 == 0 {
				input([]byte(`["`+a+`","`+b+`"]`), "escape-pieces", nil, false)
			} else {
				input([]byte(`{"`+a+`":"`+b+`"}`), "escape-pieces", nil, false)
			}
		}
	}
	// long documents with a token across the refill boundaries
	toks := []string{`"aé\n\"b😀"`, `-12.5e+3`, `123456789012345678901`, `true`, `false`, `null`, `{"k":[1,2]}`, `"` + strings.Repeat("x", 70) + `"`, `tru]`, `1.`, `"a`}
	li := 0
	for _, base := range []int{4096, 8192} {
		for _, tok := range toks {
			for d := -9; d <= 1; d += 2 {
				li++
				if !c.Mine(li) {
					continue
				}
				n := base + d - 1
				var sb strings.Builder
				sb.WriteByte('[')
				pad := []string{" ", "1,", "\n"}[li%3]
				for sb.Len()+len(pad) <= n {
					sb.WriteString(pad)
				}
				for sb.Len() < n {
					sb.WriteByte(' ')
				}
				sb.WriteString(tok)
				input([]byte(sb.String()+"]"), "long", nil, false)
				input([]byte(sb.String()+",2]\n"), "long", nil, false)
			}
		}
	}
	// SEN texts
	tc := &treegen.Cfg{MaxDepth: 3, MaxWidth: 4, Strings: func(r *rand.Rand) string {
		ws := []string{"abc", "x", "hello world", "a b", "true", "12", "k_1", "", "it's", `say "hi"`, "a+b", "tab\there", "é", "x/y", "a,b", "[z]", "long string with several words in it"}
		return ws[r.Intn(len(ws))]
	}}
	nSen := c.Pick(16000, 160000) / c.Batches
	for i := 0; i < nSen; i++ {
		tree := tc.Tree(rnd)
		sg := &sengen.G{R: rnd, Allow: sengen.Features{Bare: true, NoComma: true, LineComment: true, SingleQuote: true, BlockComment: i%3 == 0, Plus: i%3 == 1}}
		t := []byte(sg.Text(tree))
		input(t, "sen", featList(sg.F), false)
		if i%2 == 0 {
			input(jsongen.Mutate(rnd, t, prev), "senmutant", featList(sg.F), true)
		}
	}
	// top-level scalars directly followed by a comment (F-C03-sentopcomment), and the same inside containers
	// ... and documents whose first byte is 0xEF without being a BOM: a bare token that starts with a character
	// from U+F000..U+FFFF
	for i, t := range []string{"37//", "1.5// c\n", "37/*c*/", "-1//", "[37// c\n]", "{a:37// c\n}", "[37/*c*/ 2]",
		"\uff46oo", "\uff46oo\n", "\uf000x 1", "\ufffdab", "\uff46", "\uffe5:1", "\uff46oo [1]"} {
		if c.Mine(i) {
			input([]byte(t), "sen-fixed", []string{"linecomment"}, false)
		}
	}
	// multi-document streams
	seps := []string{"", " ", "\n", "  \n ", "\t", "\r\n"}
	jdocs := []string{`1`, `-2.5`, `"s"`, `true`, `null`, `[]`, `{}`, `[1,[2,{"a":null}],"x"]`, `{"a":{"b":[1,2,3]},"c":"d"}`, `"esc\nA"`, `123456789012345678901234567890`, `[1 ,2]`, `{"k" : 1}`, `false`, `0`, `1e5`}
	broken := []string{`[1,`, `{"a"`, `]`, `nul`, `"abc`, `1.`, `,`, `}`, `tru `}
	nStream := c.Pick(20000, 200000) / c.Batches
	for i := 0; i < nStream; i++ {
		var sb strings.Builder
		k := rnd.Intn(7)
		for j := 0; j < k; j++ {
			var d string
			switch rnd.Intn(4) {
			case 0:
				d = string(texts[rnd.Intn(len(texts))])
			default:
				d = jdocs[rnd.Intn(len(jdocs))]
			}
			sb.WriteString(d)
			sep := seps[rnd.Intn(len(seps))]
			if sep == "" && !selfDelimiting(d) {
				sep = " "
			}
			sb.WriteString(sep)
		}
		if rnd.Intn(5) == 0 {
			sb.WriteString(broken[rnd.Intn(len(broken))])
		}
		if rnd.Intn(6) == 0 {
			sb.WriteString(seps[1+rnd.Intn(len(seps)-1)])
		}
		stream([]byte(sb.String()), "json", nil)
		if i%3 == 0 {
			// the same stream read as SEN, and a SEN stream
			stream([]byte(sb.String()), "sen", []string{})
			var ss strings.Builder
			sg := &sengen.G{R: rnd, Allow: sengen.Features{Bare: true, NoComma: true, LineComment: true, SingleQuote: true}}
			var fs sengen.Features
			for j := rnd.Intn(5); j > 0; j-- {
				ss.WriteString(sg.Text(tc.Tree(rnd)))
				ss.WriteString(seps[1+rnd.Intn(len(seps)-1)])
				fs = merge(fs, sg.F)
			}
			stream([]byte(ss.String()), "sen", featList(fs))
		}
	}
}

func selfDelimiting(d string) bool {
	if d == "" {
		return true
	}
	switch d[len(d)-1] {
	case ']', '}', '"':
		return true
	}
	return false
}

func merge(a, b sengen.Features) sengen.Features {
	return sengen.Features{Bare: a.Bare || b.Bare, NoComma: a.NoComma || b.NoComma, LineComment: a.LineComment || b.LineComment, BlockComment: a.BlockComment || b.BlockComment,
		SingleQuote: a.SingleQuote || b.SingleQuote, Plus: a.Plus || b.Plus, Func: a.Func || b.Func}
}

func featList(f sengen.Features) []string {
	l := f.List()
	if l == nil {
		l = []string{}
	}
	return l
}
