// Package other holds types whose short names collide with types of package c16.
package other

// Rec has the same short name as c16.Rec and different fields.
type Rec struct {
	Name  string
	Count int
	Extra []string
}

// Pair has the same short name as c16.Pair, the same field names and other types.
type Pair struct {
	Left  string
	Right float64
}

// Box refers to this package's Rec.
type Box struct {
	Inner Rec
	List  []*Rec
}
