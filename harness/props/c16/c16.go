// Package c16: Decompose/Recompose and Marshal/Unmarshal are inverse on user
// types, and the outcome for one target type does not depend on what was
// recomposed before. Oracle: round-trip identity (nil == empty containers,
// numbers by value) and outcome equality across histories.
package c16

import (
	"encoding/json"
	"fmt"
	"math/rand"
	"reflect"
	"sort"
	"strings"

	"github.com/ohler55/ojg"
	"github.com/ohler55/ojg/alt"
	"github.com/ohler55/ojg/oj"
	"github.com/ohler55/ojg/sen"

	"verif/mon"
	"verif/props/c16/other"
)

func init() {
	mon.Register(&mon.Prop{
		ID:      "C16",
		Batches: func(tier string) int { return map[string]int{"quick": 16, "thorough": 48}[tier] },
		Run:     run,
		Rule: "cases: (type, value): named types (value and pointer embedding, nested named types, same short name in two packages) and random reflect.StructOf types (anonymous: all share the type name \"\") with scalar, named scalar, pointer, slice, array, map[string], interface (holding nil, int64, float64, string, bool, []any, map[string]any or a pointer to a registered struct or, for named targets, to a struct type the target mentions in its fields - FirstPtr and FirstEmb mention it only through their first field), []byte and nested struct fields, tags name/omitempty/string/-; values zero, full and random. " +
			"round trips: alt.Recompose(alt.Decompose(v, {CreateKey}), &T{}) on a fresh Recomposer and on one whose Leaf values are built by a registered compose function; oj.Unmarshal(oj.Marshal(v)); sen.Unmarshal(sen.Bytes(v)); the result must equal v (nil == empty slices/maps, numbers by value, fields tagged \"-\" zero). " +
			"histories: the same (type, data) is recomposed on a fresh Recomposer, on one Recomposer shared by every case of the process (types arrive in a seed-dependent order, different in every batch process), and on the process-wide alt.DefaultRecomposer; plus every permutation of collision sets of up to 4 types (same short name in two packages, several anonymous struct types, a named and an anonymous type with the same fields in another order) on a fresh Recomposer per permutation: the outcome (error flag and value) must be the one of the empty history. " +
			"the collision sets include two types that embed, by value, structs of another package whose short names collide with types of this package. named types include short all-capital field names with differing tags, two levels of embedded pointers, named bool and int64 scalars. non-trivial: a struct with at least two fields or one nested container; distinct by digest of (type, value)",
		Assumptions: []string{
			"interface-typed fields hold pointers to registered struct types (a create key is set) or JSON-like data; an integer inside an interface comes back as int64 (Recompose) or float64 (Unmarshal parses with ForceFloat) and is compared by value",
			"float32 fields hold values exactly representable in float32; time.Time, non-string map keys, pointers to pointers and key conflicts are not generated",
			"an error returned by a round trip is a violation (the property says a deeply equal value is reproduced)",
		},
		Findings: map[string]func(v *mon.Violation) bool{
			"bytesFieldRoundTrip": func(v *mon.Violation) bool {
				return strings.HasPrefix(v.Kind, "error-on-own-") && strings.HasPrefix(v.Class, "kind-mismatch") && strings.Contains(v.Observed, "[]uint8 from a []any, not a string")
			},
		},
		Floors: func(tier string, cover map[string]int64, evals int64) []string {
			var out []string
			for _, k := range []string{"route:Decompose+Recompose", "route:Marshal+Unmarshal", "route:sen.Bytes+Unmarshal", "history:fresh", "history:shared", "history:default", "collision:permutations", "type:named", "type:structof", "type:embedded-value", "type:embedded-pointer", "value:zero", "value:full", "value:rand"} {
				if cover[k] == 0 {
					out = append(out, "coverage class never reached: "+k)
				}
			}
			return out
		},
	})
}

// ---- types ----

type Count int
type Label string
type Ratio float64
type Flag bool
type Wide int64

type Leaf struct {
	LeafA int64   `json:"a"`
	LeafB float32 `json:"b,omitempty"`
	LeafC *Leaf   `json:"c,omitempty"`
}

type Base struct {
	BaseID   int
	BaseName string `json:"base_name,omitempty"`
	BasePtr  *float64
}

type Mid struct {
	Base
	MidFlag bool
}

type PBase struct {
	*Base
	PbNum uint16
}

// Rec collides by short name with other.Rec.
type Rec struct {
	RecID   int64
	RecTags map[string]string
}

// Pair collides by short name with other.Pair: same field names, other types.
type Pair struct {
	Left  int
	Right string
}

type Holder struct {
	HoLeaf  Leaf
	HoPtr   *Leaf
	HoList  []Leaf
	HoPList []*Leaf
	HoMap   map[string]*Leaf
	HoAny   any
	HoRec   Rec
	HoCount Count
	HoLabel Label
}

// EmbCount embeds a named non-struct type.
type EmbCount struct {
	Count
	EcName Label
}

type inner struct {
	InnerX int
	InnerY string `json:"inner_y"`
}

// Outer embeds an unexported struct type whose exported fields are promoted.
type Outer struct {
	inner
	OuterZ bool
}

// FirstPtr and FirstEmb mention a struct type only through their first field (a pointer, an embedded struct)
// and have interface-typed fields that may hold a value of that type.
type FirstPtr struct {
	FpBase *Base
	FpAny  any
	FpList []any
}

type FirstEmb struct {
	Mid
	FeAny any
	FeMap map[string]any
}

// Accent has a field whose first letter is an upper case non-ASCII letter.
type Accent struct {
	Été   int
	Plain string
}

// ShortTagged has short all-capital field names with tags that differ from the lower-cased names (the
// decomposer lower-cases names of up to three letters entirely when no tag option is set).
type ShortTagged struct {
	ID  int    `json:"_id"`
	URL string `json:"link"`
	TTL int    `json:"ttl_s,omitempty"`
	Ab  string
	Xyz []int `json:"points"`
}

// DeepEmb embeds a pointer to a struct that embeds a pointer to a struct: either pointer may be nil.
type DeepInner struct {
	DiNum  int
	DiName string
}
type DeepMid struct {
	*DeepInner
	DmFlag bool
}
type DeepEmb struct {
	*DeepMid
	DeCount int
}

var namedTypes = []reflect.Type{
	reflect.TypeOf(ShortTagged{}), reflect.TypeOf(DeepEmb{}),
	reflect.TypeOf(EmbCount{}), reflect.TypeOf(Outer{}), reflect.TypeOf(Accent{}), reflect.TypeOf(FirstPtr{}), reflect.TypeOf(FirstEmb{}),
	reflect.TypeOf(Leaf{}), reflect.TypeOf(Base{}), reflect.TypeOf(Mid{}), reflect.TypeOf(PBase{}), reflect.TypeOf(Rec{}), reflect.TypeOf(Pair{}), reflect.TypeOf(Holder{}),
	reflect.TypeOf(other.Rec{}), reflect.TypeOf(other.Pair{}), reflect.TypeOf(other.Box{}),
}

var embeddable = []reflect.Type{reflect.TypeOf(Base{}), reflect.TypeOf(Mid{}), reflect.TypeOf(Leaf{})}

var scalarTypes = []reflect.Type{
	reflect.TypeOf(int(0)), reflect.TypeOf(int8(0)), reflect.TypeOf(int16(0)), reflect.TypeOf(int32(0)), reflect.TypeOf(int64(0)),
	reflect.TypeOf(uint(0)), reflect.TypeOf(uint8(0)), reflect.TypeOf(uint16(0)), reflect.TypeOf(uint32(0)), reflect.TypeOf(uint64(0)),
	reflect.TypeOf(float32(0)), reflect.TypeOf(float64(0)), reflect.TypeOf(""), reflect.TypeOf(true),
	reflect.TypeOf(Count(0)), reflect.TypeOf(Label("")), reflect.TypeOf(Ratio(0)),
	reflect.TypeOf(Flag(false)), reflect.TypeOf(Wide(0)),
}

var anyType = reflect.TypeOf((*any)(nil)).Elem()
var bytesType = reflect.TypeOf([]byte(nil))

var fieldNames = []string{"Alpha", "Bravo", "Charlie", "Delta", "Echo", "Foxtrot", "Golf", "Hotel", "India", "Juliet", "URLs"}

// inAny are the struct types (unique short names) that may sit behind an interface field.
var inAny = map[reflect.Type]bool{reflect.TypeOf(Base{}): true, reflect.TypeOf(Mid{}): true, reflect.TypeOf(PBase{}): true, reflect.TypeOf(Accent{}): true, reflect.TypeOf(EmbCount{}): true}

// reachable lists the inAny types the fields of t mention, at any depth and through any container.
func reachable(t reflect.Type) []reflect.Type {
	seen := map[reflect.Type]bool{}
	var out []reflect.Type
	var walk func(t reflect.Type, top bool)
	walk = func(t reflect.Type, top bool) {
		if seen[t] {
			return
		}
		seen[t] = true
		switch t.Kind() {
		case reflect.Ptr, reflect.Slice, reflect.Array, reflect.Map:
			walk(t.Elem(), false)
		case reflect.Struct:
			if t.Name() == "" {
				return // an unnamed struct type cannot be registered by name: what it mentions stays unknown
			}
			if !top && inAny[t] {
				out = append(out, t)
			}
			for i := 0; i < t.NumField(); i++ {
				if f := t.Field(i); f.PkgPath == "" || f.Anonymous {
					walk(f.Type, false)
				}
			}
		}
	}
	if t.Name() == "" {
		// an unnamed target is read field by field in map order and learns the types of its fields as it goes:
		// which types are known when an interface member is reached is not defined
		return nil
	}
	walk(t, true)
	return out
}

type typeGen struct {
	reach []reflect.Type
	r *rand.Rand
	// allowBytes: []byte fields do not survive either round trip (open finding F-C16-bytes); they are kept
	// to one type in eight so that the failing round trip does not hide the other fields' behaviour
	allowBytes bool
}

func (g *typeGen) fieldType(depth int) reflect.Type {
	r := g.r
	k := r.Intn(13)
	if depth <= 0 {
		k = r.Intn(4)
	}
	switch {
	case k < 4:
		return scalarTypes[r.Intn(len(scalarTypes))]
	case k == 4:
		t := g.fieldType(depth - 1)
		if t.Kind() == reflect.Interface || t.Kind() == reflect.Ptr || t == bytesType {
			return t
		}
		return reflect.PointerTo(t)
	case k == 5:
		return reflect.SliceOf(g.fieldType(depth - 1))
	case k == 6:
		return reflect.MapOf(reflect.TypeOf(""), g.fieldType(depth-1))
	case k == 7:
		return anyType
	case k == 8:
		return reflect.ArrayOf(1+r.Intn(2), g.fieldType(depth-1))
	case k == 9:
		if !g.allowBytes {
			return scalarTypes[r.Intn(len(scalarTypes))]
		}
		return bytesType
	case k == 10:
		return namedTypes[r.Intn(len(namedTypes))]
	case k == 11:
		return reflect.PointerTo(namedTypes[r.Intn(len(namedTypes))])
	default:
		return g.structType(depth-1, false)
	}
}

func (g *typeGen) structType(depth int, embed bool) reflect.Type {
	r := g.r
	n := 1 + r.Intn(5)
	perm := r.Perm(len(fieldNames))
	var fs []reflect.StructField
	embAt := -1
	var embT reflect.Type
	if embed && r.Intn(3) == 0 {
		embAt = r.Intn(n)
		embT = embeddable[r.Intn(len(embeddable))]
	}
	for i := 0; i < n; i++ {
		if i == embAt {
			t := embT
			if r.Intn(3) == 0 {
				t = reflect.PointerTo(embT)
			}
			fs = append(fs, reflect.StructField{Name: embT.Name(), Type: t, Anonymous: true})
			continue
		}
		f := reflect.StructField{Name: fieldNames[perm[i]], Type: g.fieldType(depth)}
		switch r.Intn(9) {
		case 0:
			f.Tag = reflect.StructTag(fmt.Sprintf(`json:"t%d"`, i))
		case 1:
			f.Tag = reflect.StructTag(fmt.Sprintf(`json:"t%d,omitempty"`, i))
		case 2:
			f.Tag = `json:",omitempty"`
		case 3:
			f.Tag = `json:"-"`
		case 4:
			switch f.Type.Kind() {
			case reflect.Bool, reflect.Int, reflect.Int8, reflect.Int16, reflect.Int32, reflect.Int64, reflect.Uint, reflect.Uint8, reflect.Uint16, reflect.Uint32, reflect.Uint64, reflect.Float32, reflect.Float64:
				f.Tag = reflect.StructTag(fmt.Sprintf(`json:"t%d,string"`, i))
			}
		}
		fs = append(fs, f)
	}
	return reflect.StructOf(fs)
}

var f64vals = []float64{0, 1.5, -2.25, 3, 1e10, 0.5}
var strvals = []string{"", "a", "b c", "<x>", "ünï", "q\"t"}

func (g *typeGen) fill(v reflect.Value, depth int, mode string) {
	r := g.r
	if mode == "zero" {
		return
	}
	full := mode == "full"
	switch v.Kind() {
	case reflect.Int, reflect.Int8, reflect.Int16, reflect.Int32, reflect.Int64:
		switch {
		case r.Intn(4) == 0:
			// boundary values of the field's width (a value that only fits the full width shows a
			// read or conversion through a narrower type)
			bits := uint(v.Type().Bits())
			max := int64(1)<<(bits-1) - 1
			v.SetInt([]int64{max, -max - 1, max / 2, 127, 128, 255, 256, 32767, 32768, 65535, 65536, -129, -32769}[r.Intn(13)] % (max + 1))
			if full && v.Int() == 0 {
				v.SetInt(max)
			}
		case full:
			v.SetInt(int64(1 + r.Intn(5)))
		default:
			v.SetInt(int64(r.Intn(5) - 1))
		}
	case reflect.Uint, reflect.Uint8, reflect.Uint16, reflect.Uint32, reflect.Uint64:
		switch {
		case r.Intn(4) == 0:
			bits := uint(v.Type().Bits())
			max := uint64(1)<<(bits-1)*2 - 1
			if bits == 64 {
				max = 1<<63 - 1 // simple data has int64 only: larger values are not generated
			}
			v.SetUint([]uint64{max, max / 2, max/2 + 1, 255, 256, 257, 65535, 65536, 4294967295, 4294967296}[r.Intn(10)] % (max + 1))
			if full && v.Uint() == 0 {
				v.SetUint(max)
			}
		case full:
			v.SetUint(uint64(1 + r.Intn(4)))
		default:
			v.SetUint(uint64(r.Intn(4)))
		}
	case reflect.Float32, reflect.Float64:
		switch {
		case v.Kind() == reflect.Float64 && r.Intn(2) == 0:
			// values that need all 64 bits (a float64 written or read through a 32 bit path shows)
			v.SetFloat([]float64{48.858370123456, 0.1, 1.0 / 3, 123456789.123456789, -2.2250738585072014e-308, 1.7976931348623157e308, 1e-7 + 1e-20, 9007199254740993}[r.Intn(8)])
		case full:
			v.SetFloat(f64vals[1+r.Intn(len(f64vals)-1)])
		default:
			v.SetFloat(f64vals[r.Intn(len(f64vals))])
		}
	case reflect.String:
		if full {
			v.SetString(strvals[1+r.Intn(len(strvals)-1)])
		} else {
			v.SetString(strvals[r.Intn(len(strvals))])
		}
	case reflect.Bool:
		v.SetBool(full || r.Intn(2) == 0)
	case reflect.Ptr:
		if depth > 0 && (full || r.Intn(3) > 0) {
			v.Set(reflect.New(v.Type().Elem()))
			g.fill(v.Elem(), depth-1, mode)
		}
	case reflect.Slice:
		c := r.Intn(4)
		if full {
			c = 2
		}
		if v.Type() == bytesType {
			switch c {
			case 0:
			case 1:
				v.SetBytes([]byte{})
			default:
				v.SetBytes([]byte([]string{"hi", "a b", "xyz!"}[r.Intn(3)]))
			}
			return
		}
		switch c {
		case 0:
		case 1:
			v.Set(reflect.MakeSlice(v.Type(), 0, 0))
		default:
			n := 1 + r.Intn(2)
			v.Set(reflect.MakeSlice(v.Type(), n, n))
			for i := 0; i < n; i++ {
				g.fill(v.Index(i), depth-1, mode)
			}
		}
	case reflect.Array:
		for i := 0; i < v.Len(); i++ {
			g.fill(v.Index(i), depth-1, mode)
		}
	case reflect.Map:
		c := r.Intn(4)
		if full {
			c = 2
		}
		switch c {
		case 0:
		case 1:
			v.Set(reflect.MakeMap(v.Type()))
		default:
			v.Set(reflect.MakeMap(v.Type()))
			for i, n := 0, 1+r.Intn(2); i < n; i++ {
				e := reflect.New(v.Type().Elem()).Elem()
				g.fill(e, depth-1, mode)
				v.SetMapIndex(reflect.ValueOf(fmt.Sprintf("k%d", i)), e)
			}
		}
	case reflect.Interface:
		c := r.Intn(8)
		if full {
			c = 1 + r.Intn(7)
		}
		if c == 7 && (len(g.reach) == 0 || depth <= 0) {
			c = 6
		}
		switch c {
		case 0:
		case 7:
			// a pointer to a struct type the target type mentions somewhere in its fields: recomposing the
			// target makes those types known, so the create key finds them whatever was recomposed before
			t := g.reach[r.Intn(len(g.reach))]
			pv := reflect.New(t)
			g.fill(pv.Elem(), depth-1, mode)
			v.Set(pv)
		case 1:
			v.Set(reflect.ValueOf(int64(7)))
		case 2:
			v.Set(reflect.ValueOf("s"))
		case 3:
			v.Set(reflect.ValueOf([]any{int64(1), nil, "x"}))
		case 4:
			v.Set(reflect.ValueOf(1.5))
		case 5:
			l := &Leaf{LeafA: int64(r.Intn(3)), LeafB: 1.5}
			v.Set(reflect.ValueOf(l))
		default:
			v.Set(reflect.ValueOf(map[string]any{"m": true, "n": "x"}))
		}
	case reflect.Struct:
		for i := 0; i < v.NumField(); i++ {
			if v.Type().Field(i).PkgPath == "" {
				g.fill(v.Field(i), depth-1, mode)
			}
		}
		if o, ok := v.Addr().Interface().(*Outer); ok {
			// the promoted fields of the embedded struct of unexported type
			o.InnerX = 1 + r.Intn(4)
			o.InnerY = strvals[1+r.Intn(len(strvals)-1)]
		}
	}
}

// ---- comparison: canonical text of a Go value ----

// canon renders v so that two values are "deeply equal, nil and empty
// containers not distinguished, numbers inside interfaces by value" iff the
// texts are equal. Fields tagged json:"-" are rendered as skipped.
func canon(v reflect.Value, b *strings.Builder, depth int, inIface bool) {
	if depth > 60 {
		b.WriteString("<deep>")
		return
	}
	switch v.Kind() {
	case reflect.Invalid:
		b.WriteString("nil")
	case reflect.Ptr:
		if v.IsNil() {
			b.WriteString("nil")
			return
		}
		b.WriteString("&")
		canon(v.Elem(), b, depth+1, inIface)
	case reflect.Interface:
		if v.IsNil() {
			b.WriteString("nil")
			return
		}
		b.WriteString("i:")
		canon(v.Elem(), b, depth+1, true)
	case reflect.Bool:
		fmt.Fprint(b, v.Bool())
	case reflect.Int, reflect.Int8, reflect.Int16, reflect.Int32, reflect.Int64:
		if inIface {
			fmt.Fprintf(b, "%g", float64(v.Int()))
		} else {
			fmt.Fprintf(b, "%d", v.Int())
		}
	case reflect.Uint, reflect.Uint8, reflect.Uint16, reflect.Uint32, reflect.Uint64:
		if inIface {
			fmt.Fprintf(b, "%g", float64(v.Uint()))
		} else {
			fmt.Fprintf(b, "%d", v.Uint())
		}
	case reflect.Float32, reflect.Float64:
		fmt.Fprintf(b, "%g", v.Float())
	case reflect.String:
		fmt.Fprintf(b, "%q", v.String())
	case reflect.Slice, reflect.Array:
		if v.Kind() == reflect.Slice && v.Type().Elem().Kind() == reflect.Uint8 {
			fmt.Fprintf(b, "bytes(%q)", string(v.Bytes()))
			return
		}
		b.WriteString("[")
		for i := 0; i < v.Len(); i++ {
			if i > 0 {
				b.WriteString(" ")
			}
			canon(v.Index(i), b, depth+1, inIface)
		}
		b.WriteString("]")
	case reflect.Map:
		keys := v.MapKeys()
		sort.Slice(keys, func(i, j int) bool { return keys[i].String() < keys[j].String() })
		b.WriteString("{")
		for i, k := range keys {
			if i > 0 {
				b.WriteString(" ")
			}
			fmt.Fprintf(b, "%q:", k.String())
			canon(v.MapIndex(k), b, depth+1, inIface)
		}
		b.WriteString("}")
	case reflect.Struct:
		b.WriteString(v.Type().Name() + "{")
		for i := 0; i < v.NumField(); i++ {
			f := v.Type().Field(i)
			if f.PkgPath != "" && !f.Anonymous {
				continue
			}
			if tag := f.Tag.Get("json"); tag == "-" {
				continue // not part of the encoding: not expected to survive
			}
			b.WriteString(f.Name + ":")
			canon(v.Field(i), b, depth+1, inIface)
			b.WriteString(" ")
		}
		b.WriteString("}")
	default:
		fmt.Fprintf(b, "<%s>", v.Kind())
	}
}

func canonText(v any) string {
	var b strings.Builder
	canon(reflect.ValueOf(v), &b, 0, false)
	return b.String()
}

// beyondFloat: the value holds an integer whose magnitude exceeds 2^53.
func beyondFloat(v reflect.Value) bool {
	switch v.Kind() {
	case reflect.Ptr, reflect.Interface:
		return !v.IsNil() && beyondFloat(v.Elem())
	case reflect.Int, reflect.Int8, reflect.Int16, reflect.Int32, reflect.Int64:
		return v.Int() > 1<<53 || v.Int() < -(1<<53)
	case reflect.Uint, reflect.Uint8, reflect.Uint16, reflect.Uint32, reflect.Uint64:
		return v.Uint() > 1<<53
	case reflect.Slice, reflect.Array:
		for i := 0; i < v.Len(); i++ {
			if beyondFloat(v.Index(i)) {
				return true
			}
		}
	case reflect.Map:
		it := v.MapRange()
		for it.Next() {
			if beyondFloat(it.Value()) {
				return true
			}
		}
	case reflect.Struct:
		for i := 0; i < v.NumField(); i++ {
			if beyondFloat(v.Field(i)) {
				return true
			}
		}
	}
	return false
}

// leafFromMap builds a Leaf the way the reflective recomposer reads one (keys by tag, exact or lower-cased
// field name; numbers of any width).
func leafFromMap(m map[string]any) (any, error) {
	l := &Leaf{}
	get := func(keys ...string) (any, bool) {
		for _, k := range keys {
			if v, ok := m[k]; ok {
				return v, true
			}
		}
		return nil, false
	}
	num := func(v any) float64 {
		switch t := v.(type) {
		case int64:
			return float64(t)
		case int:
			return float64(t)
		case float64:
			return t
		case float32:
			return float64(t)
		case json.Number:
			f, _ := t.Float64()
			return f
		}
		return 0
	}
	if v, ok := get("a", "LeafA", "leafA", "leafa"); ok && v != nil {
		switch t := v.(type) {
		case int64:
			l.LeafA = t // exact (a float64 cannot carry every int64)
		case int:
			l.LeafA = int64(t)
		default:
			l.LeafA = int64(num(v))
		}
	}
	if v, ok := get("b", "LeafB", "leafB", "leafb"); ok && v != nil {
		l.LeafB = float32(num(v))
	}
	if v, ok := get("c", "LeafC", "leafC", "leafc"); ok && v != nil {
		if cm, isMap := v.(map[string]any); isMap {
			sub, _ := leafFromMap(cm)
			l.LeafC = sub.(*Leaf)
		}
	}
	return l, nil
}

// ---- routes ----

type outcome struct {
	err  string
	text string
	pn   *mon.Panic
}

func (o outcome) String() string {
	switch {
	case o.pn != nil:
		return "panic: " + o.pn.Msg
	case o.err != "":
		return "error: " + o.err
	}
	return o.text
}

func (o outcome) same(p outcome) bool {
	if (o.pn != nil) != (p.pn != nil) || (o.err != "") != (p.err != "") {
		return false
	}
	if o.err != "" || o.pn != nil {
		return true
	}
	return o.text == p.text
}

func recomposeOn(rec *alt.Recomposer, data any, st reflect.Type) (o outcome) {
	target := reflect.New(st)
	o.pn = mon.Guard(func() {
		var out any
		var err error
		if rec == nil {
			out, err = alt.Recompose(data, target.Interface())
		} else {
			out, err = rec.Recompose(data, target.Interface())
		}
		if err != nil {
			o.err = err.Error()
			return
		}
		o.text = canonText(out)
	})
	return
}

func dupData(v any) any {
	switch t := v.(type) {
	case []any:
		out := make([]any, len(t))
		for i, m := range t {
			out[i] = dupData(m)
		}
		return out
	case map[string]any:
		out := make(map[string]any, len(t))
		for k, m := range t {
			out[k] = dupData(m)
		}
		return out
	}
	return v
}

func faultClass(s string) string {
	switch {
	case strings.Contains(s, "Field index out of range"), strings.Contains(s, "index out of range"):
		return "field-index"
	case strings.Contains(s, "nil pointer"), strings.Contains(s, "indirection through nil"):
		return "nil-embedded"
	case strings.Contains(s, "NumField of non-struct"):
		return "numfield"
	case strings.Contains(s, "can only recompose"):
		return "kind-mismatch"
	case strings.Contains(s, "Convert"), strings.Contains(s, "convert"):
		return "convert"
	case strings.Contains(s, "reflect"):
		return "reflect"
	}
	return "other"
}

type checker struct {
	c      *mon.Ctx
	shared *alt.Recomposer
	optR   *rand.Rand
}

const createKey = "^"

func (ck *checker) one(st reflect.Type, pv reflect.Value, label string) {
	c := ck.c
	val := pv.Interface() // *T
	typeText := st.String()
	if len(typeText) > 900 {
		typeText = typeText[:900] + "..."
	}
	want := canonText(val)
	cs := map[string]any{"type": typeText, "value": clip(want), "kind": label}
	c.Begin("round trips", cs)

	// route 1: Decompose + Recompose on a fresh recomposer
	var data any
	dopt := ojg.Options{CreateKey: createKey}
	switch ck.optR.Intn(4) {
	case 1:
		dopt.UseTags, dopt.KeyExact = true, true
	case 2:
		dopt.UseTags = true
	case 3:
		dopt.KeyExact = true
	}
	cs["decompose_options"] = fmt.Sprintf("UseTags=%v KeyExact=%v", dopt.UseTags, dopt.KeyExact)
	if pn := mon.Guard(func() { data = alt.Decompose(val, &dopt) }); pn != nil {
		c.Violation("alt.Decompose", "panic", faultClass(pn.Msg), cs, "simple data", pn.String())
		return
	}
	fresh := func() *alt.Recomposer {
		r, _ := alt.NewRecomposer(createKey, map[any]alt.RecomposeFunc{&Leaf{}: nil})
		return r
	}
	c.Cover("route:Decompose+Recompose")
	c.Cover("history:fresh")
	o0 := recomposeOn(fresh(), dupData(data), st)
	c.Eval(1)
	cls := label
	switch {
	case o0.pn != nil:
		c.Violation("alt.Recomposer.Recompose", "panic", faultClass(o0.pn.Msg)+"/"+cls, cs, want, o0.pn.String())
	case o0.err != "":
		c.Violation("alt.Recomposer.Recompose", "error-on-own-decomposition", faultClass(o0.err)+"/"+cls, cs, want, o0.err+" :: data="+clip(fmt.Sprint(data)))
	case o0.text != want:
		c.Violation("alt.Recomposer.Recompose", "round-trip-differs", diffClass(want, o0.text)+"/"+cls, cs, clip(want), clip(o0.text))
	}
	// a recomposer whose Leaf values are built by a registered compose function instead of reflection: the
	// outcome must be the same (the function mirrors the reflective reading of Leaf)
	if strings.Contains(want, "Leaf{") && ck.optR.Intn(4) == 0 {
		c.Cover("history:compose-function")
		rf, _ := alt.NewRecomposer(createKey, map[any]alt.RecomposeFunc{&Leaf{}: leafFromMap})
		of := recomposeOn(rf, dupData(data), st)
		c.Eval(1)
		if !of.same(o0) {
			c.Violation("alt.Recomposer.Recompose", "compose-function-changes-outcome", faultClass(of.String())+"/"+cls, cs, "as by reflection: "+clip(o0.String()), clip(of.String()))
		}
	}
	// histories: shared recomposer of this process, and the default recomposer
	c.Cover("history:shared")
	os := recomposeOn(ck.shared, dupData(data), st)
	c.Eval(1)
	if !os.same(o0) {
		c.Violation("alt.Recomposer.Recompose", "outcome-depends-on-earlier-types", "shared/"+faultClass(os.String())+"/"+cls, cs, "as on a fresh Recomposer: "+clip(o0.String()), clip(os.String()))
	}
	// the default recomposer has no create key: interface fields holding structs cannot come back; compare
	// it with a fresh recomposer without create key
	c.Cover("history:default")
	data2 := alt.Decompose(val, &ojg.Options{})
	f2, _ := alt.NewRecomposer("", nil)
	o2 := recomposeOn(f2, dupData(data2), st)
	od := recomposeOn(nil, dupData(data2), st)
	c.Eval(2)
	if !od.same(o2) {
		c.Violation("alt.Recompose", "outcome-depends-on-earlier-types", "default/"+faultClass(od.String())+"/"+cls, cs, "as on a fresh Recomposer: "+clip(o2.String()), clip(od.String()))
	}

	// route 2: Marshal + Unmarshal (JSON), route 3: sen.Bytes + sen.Unmarshal
	hasIfaceStruct := strings.Contains(want, "i:&")
	if beyondFloat(pv) {
		// Unmarshal parses with ForceFloat (documented): an integer above 2^53 cannot come back
		// exactly through the text routes; the Decompose/Recompose route above still carries it
		c.Cover("skipped:text-route-integer-beyond-2^53")
		hasIfaceStruct = true
	}
	for _, rt := range []struct {
		name string
		enc  func() ([]byte, error)
		dec  func(b []byte, vp any) error
	}{
		{"oj.Marshal+oj.Unmarshal", func() ([]byte, error) { return oj.Marshal(val) }, func(b []byte, vp any) error { return oj.Unmarshal(b, vp) }},
		{"sen.Bytes+sen.Unmarshal", func() ([]byte, error) { return sen.Bytes(val, &ojg.GoOptions), nil }, func(b []byte, vp any) error { return sen.Unmarshal(b, vp) }},
	} {
		if hasIfaceStruct {
			break // without a create key an interface field cannot name its struct type
		}
		if strings.HasPrefix(rt.name, "oj.") {
			c.Cover("route:Marshal+Unmarshal")
		} else {
			c.Cover("route:sen.Bytes+Unmarshal")
		}
		var b []byte
		var err error
		if pn := mon.Guard(func() { b, err = rt.enc() }); pn != nil || err != nil {
			c.Violation(rt.name, "encode-fails", cls, cs, "text", fmt.Sprint(pn, err))
			continue
		}
		target := reflect.New(st)
		var o outcome
		o.pn = mon.Guard(func() {
			if err := rt.dec(b, target.Interface()); err != nil {
				o.err = err.Error()
				return
			}
			o.text = canonText(target.Interface())
		})
		c.Eval(1)
		cs2 := map[string]any{"type": typeText, "value": clip(want), "kind": label, "text": clip(string(b))}
		switch {
		case o.pn != nil:
			c.Violation(rt.name, "panic", faultClass(o.pn.Msg)+"/"+cls, cs2, want, o.pn.String())
		case o.err != "":
			c.Violation(rt.name, "error-on-own-encoding", faultClass(o.err)+"/"+cls, cs2, want, o.err)
		case o.text != want:
			c.Violation(rt.name, "round-trip-differs", diffClass(want, o.text)+"/"+cls, cs2, clip(want), clip(o.text))
		}
	}
	c.Distinct(typeText, want)
	if c.WantSample() {
		c.Sample(map[string]any{"type": typeText, "value": clip(want), "decomposed": clip(fmt.Sprint(data))})
	}
}

func clip(s string) string {
	if len(s) > 700 {
		return s[:700] + "..."
	}
	return s
}

// diffClass names the first token where two canonical texts differ.
func diffClass(a, b string) string {
	i := 0
	for i < len(a) && i < len(b) && a[i] == b[i] {
		i++
	}
	// walk back to the field name
	j := strings.LastIndexAny(a[:i], " {")
	tail := a[j+1:]
	if k := strings.IndexAny(tail, ":"); k > 0 && k < 24 {
		_ = tail[:k]
	}
	ka, kb := "end", "end"
	if i < len(a) {
		ka = tokenKind(a[i:])
	}
	if i < len(b) {
		kb = tokenKind(b[i:])
	}
	return ka + "->" + kb
}

func tokenKind(s string) string {
	switch {
	case strings.HasPrefix(s, "nil"):
		return "nil"
	case strings.HasPrefix(s, "&"):
		return "ptr"
	case strings.HasPrefix(s, "i:"):
		return "iface"
	case strings.HasPrefix(s, "bytes("):
		return "bytes"
	case strings.HasPrefix(s, "["):
		return "list"
	case strings.HasPrefix(s, "{"):
		return "map"
	case strings.HasPrefix(s, "\""):
		return "string"
	case strings.HasPrefix(s, "true"), strings.HasPrefix(s, "false"):
		return "bool"
	case len(s) > 0 && (s[0] == '-' || (s[0] >= '0' && s[0] <= '9')):
		return "number"
	case strings.HasPrefix(s, "]"), strings.HasPrefix(s, "}"), strings.HasPrefix(s, " "):
		return "shorter"
	}
	return "other"
}

// ---- collision sets ----

type anonA = struct {
	P int
	Q string
}
type anonB = struct {
	R string
	S []int
	T float64
}
type anonC = struct {
	Q string
	P int
}
type namedPQ struct {
	Q string
	P int
}
type WithAnonA struct {
	In  anonA
	Tag string
}
type WithAnonB struct {
	In  anonB
	Num int
}
type WithAnonC struct {
	In anonC
}
type WithNamedPQ struct {
	In namedPQ
}

// EmbOtherRec and EmbOtherPair embed, by value, structs of package other whose short names collide with
// c16.Rec and c16.Pair: the promoted fields must not depend on which "Rec" or "Pair" was seen first.
type EmbOtherRec struct {
	other.Rec
	Z int
}
type EmbOtherPair struct {
	W string
	other.Pair
}

type collisionCase struct {
	name string
	val  any // pointer to a populated value
}

// localOne and localTwo return values of two different function-local types that have the same name in
// the same package (as two test functions that each declare `type Local struct{...}` do).
func localOne() any {
	type Local struct {
		One  int
		Name string
	}
	return &Local{One: 1, Name: "one"}
}

func localTwo() any {
	type Local struct {
		Two   []string
		Ratio float64
	}
	return &Local{Two: []string{"t"}, Ratio: 0.5}
}

func collisionPool() []collisionCase {
	f := 2.5
	return []collisionCase{
		{"localOne.Local", localOne()},
		{"localTwo.Local", localTwo()},
		{"c16.Rec", &Rec{RecID: 7, RecTags: map[string]string{"a": "b"}}},
		{"other.Rec", &other.Rec{Name: "n", Count: 3, Extra: []string{"x", "y"}}},
		{"c16.Pair", &Pair{Left: 4, Right: "r"}},
		{"other.Pair", &other.Pair{Left: "l", Right: 1.5}},
		{"other.Box", &other.Box{Inner: other.Rec{Name: "in", Count: 1}, List: []*other.Rec{{Name: "e", Extra: []string{"z"}}}}},
		{"c16.Holder", &Holder{HoRec: Rec{RecID: 9, RecTags: map[string]string{"k": "v"}}, HoLeaf: Leaf{LeafA: 1}, HoCount: 2, HoLabel: "l"}},
		{"WithAnonA", &WithAnonA{In: anonA{P: 1, Q: "q"}, Tag: "t"}},
		{"WithAnonB", &WithAnonB{In: anonB{R: "r", S: []int{1, 2}, T: 0.5}, Num: 5}},
		{"WithAnonC", &WithAnonC{In: anonC{Q: "qq", P: 2}}},
		{"WithNamedPQ", &WithNamedPQ{In: namedPQ{Q: "nq", P: 3}}},
		{"anonA", &anonA{P: 11, Q: "aq"}},
		{"anonB", &anonB{R: "br", S: []int{3}, T: 1.5}},
		{"Mid", &Mid{Base: Base{BaseID: 1, BaseName: "b", BasePtr: &f}, MidFlag: true}},
		{"Base", &Base{BaseID: 2}},
		{"EmbOtherRec", &EmbOtherRec{Rec: other.Rec{Name: "emb", Count: 4, Extra: []string{"e"}}, Z: 6}},
		{"EmbOtherPair", &EmbOtherPair{W: "w", Pair: other.Pair{Left: "el", Right: 2.5}}},
	}
}

func permutations(n, k int, f func(idx []int)) {
	idx := make([]int, 0, k)
	used := make([]bool, n)
	var rec func()
	rec = func() {
		if len(idx) == k {
			f(idx)
			return
		}
		for i := 0; i < n; i++ {
			if !used[i] {
				used[i] = true
				idx = append(idx, i)
				rec()
				idx = idx[:len(idx)-1]
				used[i] = false
			}
		}
	}
	rec()
}

func (ck *checker) collisions() {
	c := ck.c
	pool := collisionPool()
	// empty-history outcomes
	base := make([]outcome, len(pool))
	datas := make([]any, len(pool))
	for i, cc := range pool {
		datas[i] = alt.Decompose(cc.val, &ojg.Options{})
		r, _ := alt.NewRecomposer("", nil)
		base[i] = recomposeOn(r, dupData(datas[i]), reflect.TypeOf(cc.val).Elem())
		want := canonText(cc.val)
		cs := map[string]any{"type": cc.name, "value": want}
		if base[i].pn != nil || base[i].err != "" || base[i].text != want {
			c.Violation("alt.Recomposer.Recompose", "round-trip-differs", "collision-pool/"+cc.name, cs, want, base[i].String())
		}
	}
	k := 3
	if c.Thorough() {
		k = 4
	}
	count := 0
	for size := 2; size <= k; size++ {
		permutations(len(pool), size, func(idx []int) {
			count++
			if !c.Mine(count) {
				return
			}
			c.Cover("collision:permutations")
			r, _ := alt.NewRecomposer("", nil)
			names := make([]string, len(idx))
			for j, i := range idx {
				names[j] = pool[i].name
			}
			c.Begin("collision permutation", names)
			for j, i := range idx {
				o := recomposeOn(r, dupData(datas[i]), reflect.TypeOf(pool[i].val).Elem())
				c.Eval(1)
				if !o.same(base[i]) {
					c.Violation("alt.Recomposer.Recompose", "outcome-depends-on-earlier-types", "permutation/"+pool[i].name+"/"+faultClass(o.String()),
						map[string]any{"history": strings.Join(names[:j], ", "), "type": pool[i].name, "value": canonText(pool[i].val)}, "as with an empty history: "+clip(base[i].String()), clip(o.String()))
				}
			}
		})
	}
	c.DistinctEnum(count / c.Batches)
}

func run(c *mon.Ctx) {
	ck := &checker{c: c, optR: c.Rand("c16-options")}
	ck.shared, _ = alt.NewRecomposer(createKey, map[any]alt.RecomposeFunc{&Leaf{}: nil})
	ck.collisions()
	r := c.Rand("c16")
	g := &typeGen{r: r}
	n := c.Pick(400000, 6000000) / c.Batches
	for i := 0; i < n; i++ {
		var st reflect.Type
		if i%4 == 0 {
			st = namedTypes[r.Intn(len(namedTypes))]
			c.Cover("type:named")
		} else {
			g.allowBytes = r.Intn(8) == 0
			st = g.structType(2, true)
			c.Cover("type:structof")
		}
		for fi := 0; fi < st.NumField(); fi++ {
			if f := st.Field(fi); f.Anonymous {
				if f.Type.Kind() == reflect.Ptr {
					c.Cover("type:embedded-pointer")
				} else {
					c.Cover("type:embedded-value")
				}
			}
		}
		for k := 0; k < 3; k++ {
			mode := []string{"rand", "full", "zero"}[(i+k)%3]
			c.Cover("value:" + mode)
			pv := reflect.New(st)
			g.reach = reachable(st)
			g.fill(pv.Elem(), 3, mode)
			ck.one(st, pv, mode)
		}
	}
}
