// Package props links every property monitor into the verif binary.
package props

import (
	_ "verif/props/c01"
	_ "verif/props/c02"
	_ "verif/props/c03"
	_ "verif/props/c04"
	_ "verif/props/c05"
	_ "verif/props/c06"
	_ "verif/props/c07"
	_ "verif/props/c08"
	_ "verif/props/c09"
	_ "verif/props/c10"
	_ "verif/props/c11"
	_ "verif/props/c12"
	_ "verif/props/c13"
	_ "verif/props/c14"
	_ "verif/props/c15"
	_ "verif/props/c16"
	_ "verif/props/c17"
	_ "verif/props/c18"
	_ "verif/props/c19"
	_ "verif/props/c20"
)
