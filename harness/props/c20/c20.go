// Package c20: assembly plans evaluate totally, deterministically and as
// documented. Oracle: fault monitor (escaped panics, recovered runtime
// faults), double execution, the reference semantics ref/asmref written from
// the function descriptions, print/rebuild equivalence (String, Simplify,
// JSON text) and the $.src frame.
package c20

import (
	"fmt"
	"math"
	"math/rand"
	"sort"
	"strconv"
	"strings"
	"time"

	"github.com/ohler55/ojg/asm"
	"github.com/ohler55/ojg/jp"
	"github.com/ohler55/ojg/oj"
	"github.com/ohler55/ojg/sen"

	"verif/mon"
	"verif/ref/asmref"
)

var names []string

func init() {
	for n := range asm.FnDocs() {
		names = append(names, n)
		asmref.Names[n] = true
	}
	sort.Strings(names)
	mon.Register(&mon.Prop{
		ID:      "C20",
		Batches: func(tier string) int { return map[string]int{"quick": 16, "thorough": 48}[tier] },
		Run:     run,
		Rule: "cases: (1) every defined function x arity 0-3 x argument kind {nil, bool, ints, floats, strings, arrays, maps, $-path hit/miss, @-path, nested call, quoted path, path into $.asm} on a fixed root; " +
			"(2) random typed plans (statements setting keys under $.asm from nested numeric/string/boolean/list expressions of depth <= 3, cond, each with inner plans (also bodies that keep a scratch member under @ for some elements only, and set targets built from the data with at/root), get/getall/set/setall/del/delall, wrong-kind and wrong-arity arguments) on random roots; " +
			"each plan is executed by asm.NewPlan(...).Execute, again on the same Plan value, and after rebuilding from Plan.String() (SEN text), Plan.Simplify() and from JSON text; checked: no escaped panic, no recovered Go runtime fault in the returned error, equal outcome (error flag and whole root) of all runs, outcome equal to the reference semantics where the descriptions define it, $.src unchanged when the plan contains no mutating function. " +
			"also (3) sort/reverse (documented to return a copy) for list lengths 0-4 followed by a write into every slot of the result, and (4) every function with integers at and near the int64 limits in every argument position (executed directly, repeatedly and through Simplify; the text routes would only show F-C02-maxint). non-trivial: a plan with at least one function call; distinct by plan and root text",
		Assumptions: []string{
			"the reference (ref/asmref) is written from asm.FnDocs(); where a description is silent (mixed-kind comparison, sum of numbers and strings, ties in sort, string of containers, cond tests that are not boolean, formats) the outcome is don't-care and only totality, determinism and rebuild equivalence are checked",
			"get/getall/set/setall/del/delall are defined by their descriptions as jp.First/Get/SetOne/Set/DelOne/Del; the reference calls those (C05/C13 pin them)",
			"time, zone and time? are checked for totality and determinism only; inspect (prints to stdout) is not executed",
			"paths with wildcards over maps are not generated (map iteration order is not defined by jp)",
			"an empty plan array gives no plan (NewPlan returns nil) and is not executed",
			"append has Go append semantics (the result may share its backing array with the first argument)",
		},
		Findings: map[string]func(v *mon.Violation) bool{
			"planStringSenUnreadable": func(v *mon.Violation) bool {
				return v.Entry == "asm.Plan.String" && (strings.HasPrefix(v.Class, "sen-bare-sign") || strings.HasPrefix(v.Class, "sen-bare-keyword"))
			},
			"planStringIntegralFloat": func(v *mon.Violation) bool {
				return v.Entry == "asm.Plan.String" && strings.HasPrefix(v.Class, "integral-float")
			},
		},
		Floors: func(tier string, cover map[string]int64, evals int64) []string {
			var out []string
			for _, n := range names {
				if n == "inspect" {
					continue
				}
				for a := 0; a <= 3; a++ {
					if cover[fmt.Sprintf("cell:%s/%d", n, a)] == 0 {
						out = append(out, fmt.Sprintf("function x arity cell never executed: %s/%d", n, a))
					}
				}
				if !asmref.Opaque[n] && cover["ref-defined:"+n] == 0 {
					out = append(out, "function never compared with the reference: "+n)
				}
			}
			for _, k := range []string{"outcome:result", "outcome:error", "rebuild:String", "rebuild:Simplify", "rebuild:json-text", "rerun:same-plan", "rerun:other-root", "frame:no-mutator", "random-plans", "ref:defined", "ref:undefined"} {
				if cover[k] == 0 {
					out = append(out, "coverage class never reached: "+k)
				}
			}
			return out
		},
		Exhaustive: func(tier string) []string {
			if tier == "thorough" {
				return []string{"every function x arity 0-3 x 24 argument kinds (full cube)"}
			}
			return []string{"every function x arity 0-2 x 24 argument kinds; arity 3 over the first 12 kinds"}
		},
	})
}

// ---- harness value utilities (depth guarded: plans can build cyclic data) ----

func dup(v any) any {
	switch t := v.(type) {
	case []any:
		out := make([]any, len(t))
		for i, m := range t {
			out[i] = dup(m)
		}
		return out
	case map[string]any:
		out := make(map[string]any, len(t))
		for k, m := range t {
			out[k] = dup(m)
		}
		return out
	}
	return v
}

func ser(v any) string {
	var b strings.Builder
	if !serTo(&b, v, 0) {
		return "<cyclic>"
	}
	return b.String()
}

func serTo(b *strings.Builder, v any, depth int) bool {
	if depth > 48 {
		return false
	}
	switch t := v.(type) {
	case nil:
		b.WriteString("null")
	case bool:
		fmt.Fprint(b, t)
	case int:
		fmt.Fprintf(b, "%d", t)
	case int64:
		fmt.Fprintf(b, "%d", t)
	case int32:
		fmt.Fprintf(b, "%d", t)
	case float32:
		return serTo(b, float64(t), depth)
	case float64:
		if t == 0 {
			t = 0 // the sign of a zero is not distinguished (0.0 + -0.0 is 0.0)
		}
		s := strconv.FormatFloat(t, 'g', -1, 64)
		if !strings.ContainsAny(s, ".eEIN") {
			s += ".0"
		}
		b.WriteString(s)
	case string:
		b.WriteString(strconv.Quote(t))
	case []any:
		b.WriteByte('[')
		for i, m := range t {
			if i > 0 {
				b.WriteByte(' ')
			}
			if !serTo(b, m, depth+1) {
				return false
			}
		}
		b.WriteByte(']')
	case map[string]any:
		keys := make([]string, 0, len(t))
		for k := range t {
			keys = append(keys, k)
		}
		sort.Strings(keys)
		b.WriteByte('{')
		for i, k := range keys {
			if i > 0 {
				b.WriteByte(' ')
			}
			b.WriteString(strconv.Quote(k))
			b.WriteByte(':')
			if !serTo(b, t[k], depth+1) {
				return false
			}
		}
		b.WriteByte('}')
	case jp.Expr:
		b.WriteString("path(" + t.String() + ")")
	case time.Time:
		b.WriteString("time(" + t.Format(time.RFC3339Nano) + ")")
	case *asm.Fn:
		b.WriteString("fn(" + t.Name + ")")
	default:
		fmt.Fprintf(b, "%T(%v)", v, v)
	}
	return true
}

// jsonText writes a plan as JSON text without using ojg (floats keep a
// fraction or exponent so that they are read back as floats).
func jsonText(v any) string {
	var b strings.Builder
	var w func(v any)
	w = func(v any) {
		switch t := v.(type) {
		case nil:
			b.WriteString("null")
		case bool:
			fmt.Fprint(&b, t)
		case int64:
			fmt.Fprintf(&b, "%d", t)
		case float64:
			s := strconv.FormatFloat(t, 'g', -1, 64)
			if !strings.ContainsAny(s, ".eE") {
				s += ".0"
			}
			b.WriteString(s)
		case string:
			b.WriteString(strconv.Quote(t))
		case []any:
			b.WriteByte('[')
			for i, m := range t {
				if i > 0 {
					b.WriteByte(',')
				}
				w(m)
			}
			b.WriteByte(']')
		case map[string]any:
			keys := make([]string, 0, len(t))
			for k := range t {
				keys = append(keys, k)
			}
			sort.Strings(keys)
			b.WriteByte('{')
			for i, k := range keys {
				if i > 0 {
					b.WriteByte(',')
				}
				b.WriteString(strconv.Quote(k))
				b.WriteByte(':')
				w(t[k])
			}
			b.WriteByte('}')
		}
	}
	w(v)
	return b.String()
}

var mutators = map[string]bool{"set": true, "setall": true, "del": true, "delall": true}

// mentions reports whether any string anywhere in the plan is in the set.
func mentions(v any, set map[string]bool) bool {
	switch t := v.(type) {
	case string:
		return set[t]
	case []any:
		for _, m := range t {
			if mentions(m, set) {
				return true
			}
		}
	case map[string]any:
		for _, m := range t {
			if mentions(m, set) {
				return true
			}
		}
	}
	return false
}

func walkStrings(v any, f func(s string)) {
	switch t := v.(type) {
	case string:
		f(t)
	case []any:
		for _, m := range t {
			walkStrings(m, f)
		}
	case map[string]any:
		for k, m := range t {
			f(k)
			walkStrings(m, f)
		}
	}
}

func walkFloats(v any, f func(x float64)) {
	switch t := v.(type) {
	case float64:
		f(t)
	case []any:
		for _, m := range t {
			walkFloats(m, f)
		}
	case map[string]any:
		for _, m := range t {
			walkFloats(m, f)
		}
	}
}

func countCalls(v any) int {
	n := 0
	if l, ok := v.([]any); ok {
		if len(l) > 0 {
			if s, _ := l[0].(string); asmref.Names[s] {
				n++
			}
		}
		for _, m := range l {
			n += countCalls(m)
		}
	}
	return n
}

// ---- one execution of the real code ----

type outcome struct {
	root string // whole root after the run
	src  string
	err  string
	pn   *mon.Panic
}

func (o outcome) flag() string {
	if o.pn != nil {
		return "panic"
	}
	if o.err != "" {
		return "error"
	}
	return "ok"
}

// same compares two outcomes: the error flag, and the resulting root when
// there was no error (the state after an error is unconstrained, but must be
// the same for the same plan: determinism covers it separately).
func same(a, b outcome, afterError bool) bool {
	if a.flag() != b.flag() {
		return false
	}
	if a.flag() == "ok" || afterError {
		return a.root == b.root
	}
	return true
}

func execute(p *asm.Plan, root map[string]any) (o outcome) {
	o.pn = mon.Guard(func() {
		if err := p.Execute(root); err != nil {
			o.err = err.Error()
			if o.err == "" {
				o.err = "<empty error text>"
			}
		}
	})
	o.root = ser(root)
	o.src = ser(root["src"])
	return
}

type checker struct {
	c *mon.Ctx
	// goInts: the roots handed to ojg hold Go int / int32 / float32 values where the reference's copy holds
	// int64 / float64 (a root built in Go rather than parsed): the functions accept every number width
	goInts bool
}

func (ck *checker) rootCopy(root map[string]any) map[string]any {
	r := dup(root).(map[string]any)
	if ck.goInts {
		narrowNumbers(r)
	}
	return r
}

func narrowNumbers(v any) any {
	switch t := v.(type) {
	case []any:
		for i := range t {
			t[i] = narrowNumbers(t[i])
		}
	case map[string]any:
		for k := range t {
			t[k] = narrowNumbers(t[k])
		}
	case int64:
		if t%2 == 0 {
			return int(t)
		}
		return int32(t)
	case float64:
		if f := float32(t); float64(f) == t && t != 0 {
			return f
		}
	}
	return v
}

func (ck *checker) one(plan []any, root, other map[string]any, origin string) {
	c := ck.c
	if len(plan) == 0 {
		return
	}
	planText := ser(plan)
	cs := map[string]any{"plan": planText, "root": clip(ser(root)), "origin": origin}
	ck.goInts = origin == "random" && len(planText)%4 == 0
	if ck.goInts {
		c.Cover("root:go-number-widths")
		cs["root_numbers"] = "Go int / int32 / float32"
	}
	c.Begin("asm.Plan.Execute", cs)
	srcBefore := ser(root["src"])

	// reference
	refRoot := dup(root).(map[string]any)
	var ref asmref.Outcome
	if pn := mon.Guard(func() { ref = asmref.Run(dup(plan).([]any), refRoot) }); pn != nil {
		// a jp function used by the reference panicked: that is jp's (C06/C13), not decidable here
		ref = asmref.Outcome{Undefined: "reference raised: " + pn.Msg}
	}
	refOut := outcome{root: ser(refRoot), src: ser(refRoot["src"]), err: ref.Err}

	// direct
	var p *asm.Plan
	if pn := mon.Guard(func() { p = asm.NewPlan(dup(plan).([]any)) }); pn != nil {
		c.Violation("asm.NewPlan", "panic", mon.FaultClass(pn.Msg), cs, "a plan", pn.String())
		return
	}
	if p == nil {
		return
	}
	r1 := ck.rootCopy(root)
	o1 := execute(p, r1)
	c.Eval(1)
	fnName := p.Name
	if o1.pn != nil {
		c.Violation("asm.Plan.Execute", "panic", fnName+"/"+mon.FaultClass(o1.pn.Msg), cs, "result or error", o1.pn.String())
		return
	}
	if o1.err != "" {
		c.Cover("outcome:error")
		if mon.IsRuntimeFaultMsg(o1.err) {
			c.Violation("asm.Plan.Execute", "recovered-runtime-fault", faultFn(plan)+"/"+mon.FaultClass(o1.err), cs, "a result or the function's own error", o1.err)
		}
	} else {
		c.Cover("outcome:result")
	}

	// reference comparison
	if ref.Undefined == "" {
		c.Cover("ref:defined")
		walkCalls(plan, func(n string) { c.Cover("ref-defined:" + n) })
		switch {
		case ref.Err != "" && o1.err == "":
			c.Violation("asm.Plan.Execute", "no-error-where-documented", faultFn(plan), cs, "error: "+ref.Err, "root="+clip(o1.root))
		case ref.Err == "" && o1.err != "":
			c.Violation("asm.Plan.Execute", "error-where-result-documented", faultFn(plan), cs, "root="+clip(refOut.root), "error: "+o1.err)
		case ref.Err == "" && o1.root != refOut.root:
			kind := "differs-from-documented"
			if o1.src != refOut.src {
				kind = "src-differs-from-documented"
			}
			c.Violation("asm.Plan.Execute", kind, faultFn(plan), cs, clip(refOut.root), clip(o1.root))
		}
	} else {
		c.Cover("ref:undefined")
	}

	// frame: without a mutating function anywhere in the plan, $.src is unchanged
	if !mentions(plan, mutators) {
		c.Cover("frame:no-mutator")
		if o1.src != srcBefore {
			c.Violation("asm.Plan.Execute", "src-changed-without-mutator", faultFn(plan), cs, clip(srcBefore), clip(o1.src))
		}
	}

	// the same Plan value again, and a fresh plan again
	o2 := execute(p, ck.rootCopy(root))
	c.Eval(1)
	c.Cover("rerun:same-plan")
	if !same(o1, o2, true) {
		c.Violation("asm.Plan.Execute", "second-run-of-the-same-plan-differs", faultFn(plan), cs, o1.flag()+" "+clip(o1.root), o2.flag()+" "+clip(o2.root))
	}
	// the same Plan value on another root must not change what the first run produced
	if other != nil {
		ro := dup(other).(map[string]any)
		_ = execute(p, ro)
		c.Eval(1)
		c.Cover("rerun:other-root")
		if now := ser(r1); now != o1.root {
			c.Violation("asm.Plan.Execute", "result-of-earlier-run-changed-by-later-run", faultFn(plan), map[string]any{"plan": planText, "root": cs["root"], "second_root": clip(ser(other)), "origin": origin}, clip(o1.root), clip(now))
		}
		// and the plan must still behave as at first
		o4 := execute(p, ck.rootCopy(root))
		c.Eval(1)
		if !same(o1, o4, true) {
			c.Violation("asm.Plan.Execute", "plan-behaves-differently-after-a-run-on-other-data", faultFn(plan), map[string]any{"plan": planText, "root": cs["root"], "second_root": clip(ser(other)), "origin": origin}, o1.flag()+" "+clip(o1.root), o4.flag()+" "+clip(o4.root))
		}
	}
	if p3 := asm.NewPlan(dup(plan).([]any)); p3 != nil {
		o3 := execute(p3, ck.rootCopy(root))
		c.Eval(1)
		if !same(o1, o3, true) {
			c.Violation("asm.Plan.Execute", "nondeterministic", faultFn(plan), cs, o1.flag()+" "+clip(o1.root), o3.flag()+" "+clip(o3.root))
		}
	}

	// rebuild from Simplify()
	var simple any
	if pn := mon.Guard(func() { simple = p.Simplify() }); pn != nil {
		c.Violation("asm.Plan.Simplify", "panic", mon.FaultClass(pn.Msg), cs, "simple data", pn.String())
	} else if sl, ok := simple.([]any); ok {
		var ps *asm.Plan
		if pn := mon.Guard(func() { ps = asm.NewPlan(dup(sl).([]any)) }); pn != nil || ps == nil {
			c.Violation("asm.Plan.Simplify", "rebuild-fails", faultFn(plan), cs, "a plan", fmt.Sprint(pn))
		} else {
			os := execute(ps, ck.rootCopy(root))
			c.Eval(1)
			c.Cover("rebuild:Simplify")
			if !same(o1, os, false) {
				c.Violation("asm.Plan.Simplify", "rebuilt-plan-behaves-differently", faultFn(plan), cs, o1.flag()+" "+clip(o1.root), os.flag()+" "+clip(os.root)+" simplified="+clip(ser(simple)))
			}
		}
	} else {
		c.Violation("asm.Plan.Simplify", "not-an-array", faultFn(plan), cs, "[]any", fmt.Sprintf("%T", simple))
	}

	if origin == "extremes" {
		// the integers 9223372036854775800..807 and the minimum int64 come back from the text parsers as
		// big numbers (F-C02-maxint, pinned by the repository's tests), so the text routes of these
		// plans would only show that finding again: direct execution, repetition and Simplify only
		return
	}
	// rebuild from String() (SEN text)
	var text string
	if pn := mon.Guard(func() { text = p.String() }); pn != nil {
		c.Violation("asm.Plan.String", "panic", mon.FaultClass(pn.Msg), cs, "text", pn.String())
	} else {
		cls := senClass(plan)
		cs2 := map[string]any{"plan": planText, "root": cs["root"], "origin": origin, "printed": text}
		var back any
		var perr error
		if pn := mon.Guard(func() { back, perr = sen.Parse([]byte(text)) }); pn != nil {
			perr = fmt.Errorf("panic: %s", pn.Msg)
		}
		bl, _ := back.([]any)
		switch {
		case perr != nil:
			c.Violation("asm.Plan.String", "printed-plan-does-not-parse", cls, cs2, "SEN text of the plan", perr.Error())
		case bl == nil:
			c.Violation("asm.Plan.String", "printed-plan-is-not-an-array", cls, cs2, "array", fmt.Sprintf("%T", back))
		default:
			var pt *asm.Plan
			if pn := mon.Guard(func() { pt = asm.NewPlan(bl) }); pn != nil || pt == nil {
				c.Violation("asm.Plan.String", "rebuild-fails", cls, cs2, "a plan", fmt.Sprint(pn))
			} else {
				ot := execute(pt, ck.rootCopy(root))
				c.Eval(1)
				c.Cover("rebuild:String")
				if !same(o1, ot, false) {
					// Confirm the cause before a known finding may claim it: the plan as SEN reads
					// the writer's text for sign-led strings, keywords and integral floats, built
					// directly, must behave exactly like the rebuilt plan; otherwise something else
					// is (also) wrong.
					if cls != "other/"+faultFn(plan) {
						confirmed := false
						if pa := asm.NewPlan(senView(dup(plan)).([]any)); pa != nil {
							oa := execute(pa, ck.rootCopy(root))
							confirmed = same(ot, oa, false) && ot.flag() == oa.flag()
						}
						if !confirmed {
							cls = "other/" + faultFn(plan)
						}
					}
					c.Violation("asm.Plan.String", "rebuilt-plan-behaves-differently", cls, cs2, o1.flag()+" "+clip(o1.root), ot.flag()+" "+clip(ot.root))
				}
			}
		}
	}

	// the plan arriving as JSON text
	jt := jsonText(plan)
	if v, err := oj.Parse([]byte(jt)); err == nil {
		if jl, ok := v.([]any); ok {
			if pj := asm.NewPlan(jl); pj != nil {
				oj1 := execute(pj, ck.rootCopy(root))
				c.Eval(1)
				c.Cover("rebuild:json-text")
				if !same(o1, oj1, false) {
					c.Violation("asm.NewPlan(oj.Parse)", "plan-from-json-text-behaves-differently", faultFn(plan), cs, o1.flag()+" "+clip(o1.root), oj1.flag()+" "+clip(oj1.root))
				}
			}
		}
	}
	if countCalls(plan) > 0 {
		c.Distinct(planText, cs["root"])
		if origin == "random" && c.WantSample() {
			c.Sample(map[string]any{"plan": planText, "root": cs["root"], "outcome": o1.flag(), "result": clip(o1.root), "reference_undefined": ref.Undefined, "reference_error": ref.Err})
		}
	}
}

func clip(s string) string {
	if len(s) > 600 {
		return s[:600] + "..."
	}
	return s
}

// faultFn names the functions in the plan (short, for de-duplication): the
// innermost-first list of distinct names, clipped.
func faultFn(plan []any) string {
	var ns []string
	seen := map[string]bool{}
	walkCalls(plan, func(n string) {
		if !seen[n] && n != "set" && n != "asm" {
			seen[n] = true
			ns = append(ns, n)
		}
	})
	if len(ns) == 0 {
		walkCalls(plan, func(n string) {
			if !seen[n] {
				seen[n] = true
				ns = append(ns, n)
			}
		})
	}
	if len(ns) > 1 {
		ns = ns[:1]
	}
	return strings.Join(ns, "+")
}

func walkCalls(v any, f func(name string)) {
	if l, ok := v.([]any); ok {
		if len(l) > 0 {
			if s, _ := l[0].(string); asmref.Names[s] {
				f(s)
			}
		}
		for _, m := range l {
			walkCalls(m, f)
		}
	}
}

var keywords = map[string]bool{"true": true, "false": true, "null": true}

// senClass classifies a plan by the features that make its SEN text
// unreadable or ambiguous for reasons that are the SEN writer's (C10), so
// that those known causes can be told apart from anything else.
func senClass(plan []any) string {
	sign, kw, ifloat := false, false, false
	walkStrings(plan, func(s string) {
		if len(s) > 0 && (s[0] == '+' || s[0] == '-') {
			sign = true
		}
		if keywords[s] {
			kw = true
		}
	})
	walkFloats(plan, func(x float64) {
		if x == float64(int64(x)) && x < 1e15 && x > -1e15 {
			ifloat = true
		}
	})
	switch {
	case sign:
		return "sen-bare-sign"
	case kw:
		return "sen-bare-keyword"
	case ifloat:
		return "integral-float"
	}
	return "other/" + faultFn(plan)
}

// senView is the plan as SEN reads back what the SEN writer prints for it: a string that the writer
// leaves bare and that reads as a number, boolean or null becomes that value, an integral float becomes an
// integer (the known causes of C10's open findings and of the integral-float finding).
func senView(v any) any {
	switch t := v.(type) {
	case string:
		if keywords[t] || (len(t) > 0 && (t[0] == '+' || t[0] == '-')) {
			if back, err := sen.Parse([]byte(sen.String(t))); err == nil {
				return back
			}
		}
	case float64:
		if t == float64(int64(t)) && t < 1e15 && t > -1e15 {
			return int64(t)
		}
	case []any:
		for i, m := range t {
			t[i] = senView(m)
		}
	case map[string]any:
		for k, m := range t {
			t[k] = senView(m)
		}
	}
	return v
}

// ---- workloads ----

func fixedRoot() map[string]any {
	return map[string]any{"src": map[string]any{
		"i": int64(3), "j": int64(-7), "f": 2.5, "s": "abc", "t": " Hello World ", "b": true, "n": nil,
		"a": []any{int64(3), int64(1), int64(2)}, "sa": []any{"b", "c", "a"}, "e": []any{}, "m": map[string]any{"k": "v"},
		"rows": []any{
			map[string]any{"id": int64(2), "name": "two", "w": 1.5},
			map[string]any{"id": int64(1), "name": "one", "w": 2.5},
			map[string]any{"id": int64(3), "name": "three", "w": 0.5},
		},
	}}
}

func otherRoot() map[string]any {
	return map[string]any{"src": map[string]any{
		"i": int64(5), "j": int64(2), "f": -0.5, "s": "xyz", "t": "other", "b": false, "n": nil,
		"a": []any{int64(9), int64(8)}, "sa": []any{"q"}, "e": []any{}, "m": map[string]any{"k": "w", "k2": int64(1)},
		"rows": []any{map[string]any{"id": int64(7), "name": "seven", "w": 7.5}},
	}}
}

var kinds = []any{
	nil, true, int64(2), int64(0), int64(-1), 1.5, "abc", "", []any{int64(1), "x"}, []any{}, map[string]any{"a": int64(1)}, "$.src.i",
	"$.src.s", "$.src.a", "$.src.m", "$.src.zz", "@.src.sa", []any{"sum", int64(1), int64(2)}, []any{"quote", "$.src.i"}, "$.asm.x", "$.src.f", "$.src.rows", int64(99), false,
}

var returnsAt = map[string]bool{"set": true, "setall": true, "del": true, "delall": true, "asm": true}

func (ck *checker) matrix() {
	c := ck.c
	idx := 0
	for _, name := range names {
		if name == "inspect" {
			continue
		}
		var argLists [][]any
		argLists = append(argLists, []any{})
		for _, a := range kinds {
			argLists = append(argLists, []any{a})
			for _, b := range kinds {
				argLists = append(argLists, []any{a, b})
			}
		}
		k3 := kinds[:12]
		if c.Thorough() {
			k3 = kinds
		}
		for _, a := range k3 {
			for _, b := range k3 {
				for _, d := range k3 {
					argLists = append(argLists, []any{a, b, d})
				}
			}
		}
		for _, args := range argLists {
			idx++
			if !c.Mine(idx) {
				continue
			}
			call := append([]any{name}, args...)
			var plan []any
			if returnsAt[name] {
				plan = []any{"asm", call}
			} else {
				plan = []any{"asm", []any{"set", "$.asm.r", call}}
			}
			c.Cover(fmt.Sprintf("cell:%s/%d", name, len(args)))
			ck.one(dup(plan).([]any), fixedRoot(), otherRoot(), "matrix")
			// as a top-level plan whose first element is the function name
			if idx%7 == 0 {
				ck.one(dup(call).([]any), fixedRoot(), nil, "matrix-top")
			}
		}
	}
}

// ---- random typed plans ----

type gen struct {
	r      *rand.Rand
	inEach bool
	// senHostile plans use the function aliases + and -, strings starting with a sign, the words
	// true/false/null as strings and integral floats: all are written by Plan.String() in a form SEN
	// reads back differently (known findings); they are kept to a small share of the plans so that
	// they cannot mask anything else
	senHostile bool
	keys       []string // keys already set under $.asm
}

func (g *gen) pick(xs ...any) any {
	for {
		x := xs[g.r.Intn(len(xs))]
		if !g.senHostile && !senSafe(x) {
			continue
		}
		return x
	}
}

func senSafe(x any) bool {
	switch t := x.(type) {
	case string:
		return !(len(t) > 0 && (t[0] == '+' || t[0] == '-')) && !keywords[t]
	case float64:
		return t != float64(int64(t))
	}
	return true
}

func (g *gen) flt(n, d int) any {
	f := float64(n) / float64(d)
	if !g.senHostile && f == float64(int64(f)) {
		f += 0.5
	}
	return f
}

func (g *gen) wrong() any {
	return g.pick(nil, true, "zz", int64(4), 0.5, []any{}, map[string]any{"q": int64(1)}, "$.src.none", []any{int64(1), int64(2)})
}

func (g *gen) srcPath(field string) string {
	if g.inEach && g.r.Intn(2) == 0 {
		return g.pick("@.src.id", "@.src.name", "@.src.w").(string)
	}
	return "$.src." + field
}

func (g *gen) num(d int) any {
	if g.r.Intn(25) == 0 {
		return g.wrong()
	}
	if d <= 0 || g.r.Intn(3) == 0 {
		switch g.r.Intn(8) {
		case 0:
			return int64(g.r.Intn(21) - 10)
		case 1:
			return g.flt(g.r.Intn(41)-20, 4)
		case 2:
			return g.srcPath("i")
		case 3:
			return g.srcPath("j")
		case 4:
			return g.srcPath("f")
		case 5:
			if g.inEach {
				return g.pick("@.src.id", "@.src.w")
			}
			return "$.src.rows[1].id"
		case 6:
			return g.flt(g.r.Intn(7)-3, 1)
		default:
			return int64(g.r.Intn(5))
		}
	}
	switch g.r.Intn(13) {
	case 0, 1:
		return g.nary(g.pick("sum", "+").(string), d, g.num)
	case 2:
		return g.nary(g.pick("dif", "-").(string), d, g.num)
	case 3:
		return g.nary(g.pick("product", "*").(string), d, g.num)
	case 4:
		return g.nary(g.pick("quotient", "/").(string), d, g.num)
	case 5:
		return []any{"mod", g.num(d - 1), g.num(d - 1)}
	case 6:
		return []any{"size", g.any(d - 1)}
	case 7:
		return []any{"int", g.pick(g.num(d-1), g.str(d-1), "12", "-4", "1.5", "x")}
	case 8:
		return []any{"float", g.pick(g.num(d-1), g.str(d-1), "12", "2.5e1", "x")}
	case 9:
		return []any{"nth", g.pick("$.src.a", g.list(d-1)), int64(g.r.Intn(7) - 3)}
	case 10:
		return []any{"get", g.pick("$.src.a[0]", "$.src.rows[0].id", "$.src.rows[-1].w", "@.src.i", "$.src.a[-1]")}
	case 11:
		return []any{"get", g.pick("@.id", "@[0]", "@.a[1]"), g.pick("$.src.rows[2]", "$.src.a", "$.src")}
	default:
		return []any{"cond", []any{g.boolean(d - 1), g.num(d - 1)}, []any{true, g.num(d - 1)}}
	}
}

func (g *gen) nary(name string, d int, f func(int) any) any {
	out := []any{name}
	for n := g.pick(1, 2, 2, 2, 3, 4, 0).(int); n > 0; n-- {
		out = append(out, f(d-1))
	}
	return out
}

var strConsts = []any{"abc", "", "Hello", "a,b,,c", "  pad  ", "x-y-x", "ünï", "A", "b c", "-4", "true", "+x"}

func (g *gen) str(d int) any {
	if g.r.Intn(25) == 0 {
		return g.wrong()
	}
	if d <= 0 || g.r.Intn(3) == 0 {
		switch g.r.Intn(5) {
		case 0:
			return g.srcPath("s")
		case 1:
			return g.srcPath("t")
		case 2:
			if g.inEach {
				return "@.src.name"
			}
			return "$.src.rows[0].name"
		default:
			return g.pick(strConsts...)
		}
	}
	switch g.r.Intn(12) {
	case 0:
		return g.nary(g.pick("sum", "+").(string), d, g.str)
	case 1:
		return []any{"join", g.pick("$.src.sa", g.strList(d-1)), g.pick(",", "", "--", g.str(d-1))}
	case 2:
		return []any{"join", g.pick("$.src.sa", g.strList(d-1))}
	case 3:
		return []any{"substr", g.str(d - 1), int64(g.r.Intn(13) - 6)}
	case 4:
		return []any{"substr", g.str(d - 1), int64(g.r.Intn(13) - 6), int64(g.r.Intn(8))}
	case 5:
		return []any{"replace", g.str(d - 1), g.pick("a", "b", "x", " ", "-", "").(string), g.pick("", "Z", "--").(string)}
	case 6:
		return []any{"trim", g.str(d - 1)}
	case 7:
		return []any{"trim", g.str(d - 1), g.pick(" ", "ax", "-").(string)}
	case 8:
		return []any{g.pick("toupper", "tolower", "title").(string), g.str(d - 1)}
	case 9:
		return []any{"string", g.pick(g.num(d-1), g.str(d-1), true)}
	case 10:
		return []any{"nth", "$.src.sa", int64(g.r.Intn(7) - 3)}
	default:
		return []any{"cond", []any{g.boolean(d - 1), g.str(d - 1)}, []any{g.boolean(d - 1), g.str(d - 1)}}
	}
}

func (g *gen) strList(d int) any {
	switch g.r.Intn(4) {
	case 0:
		return []any{"split", g.str(d), g.pick(",", " ", "-", "b").(string)}
	case 1:
		return []any{"list", g.str(d), g.str(d)}
	case 2:
		return []any{"reverse", "$.src.sa"}
	default:
		return "$.src.sa"
	}
}

func (g *gen) boolean(d int) any {
	if g.r.Intn(25) == 0 {
		return g.wrong()
	}
	if d <= 0 || g.r.Intn(4) == 0 {
		return g.pick(true, false, "$.src.b", nil, "$.src.n", true, false)
	}
	switch g.r.Intn(12) {
	case 0, 1:
		return g.naryN(g.pick("lt", "<", "lte", "<=", "gt", ">", "gte", ">=").(string), 2+g.r.Intn(2), d, g.num)
	case 2:
		return g.naryN(g.pick("lt", "<", "lte", "<=", "gt", ">", "gte", ">=").(string), 2+g.r.Intn(2), d, g.str)
	case 3:
		return g.naryN(g.pick("eq", "==", "equal", "neq", "!=").(string), 1+g.r.Intn(3), d, g.num)
	case 4:
		return g.naryN(g.pick("eq", "==", "equal", "neq", "!=").(string), 2, d, g.any)
	case 5:
		if g.r.Intn(2) == 0 {
			// equality over structured values: a small tree against a copy with one point changed
			// (a key renamed, a member nulled, dropped or added, a number's kind changed), as
			// literals, through eq/neq and through include
			x := g.tree(2)
			y := g.perturb(dup(x))
			if g.r.Intn(2) == 0 {
				x, y = y, x
			}
			switch g.r.Intn(3) {
			case 0:
				return []any{g.pick("eq", "==", "equal", "neq", "!=").(string), g.lit(x), g.lit(y)}
			case 1:
				return []any{"include", []any{"list", g.lit(y), int64(1), g.lit(dup(y))}, g.lit(x)}
			default:
				return []any{g.pick("eq", "neq").(string), g.lit(x), g.lit(dup(x)), g.lit(y)}
			}
		}
		x := g.any(d - 1)
		return []any{g.pick("eq", "neq").(string), x, dup(x)}
	case 6:
		return g.nary("and", d, g.boolean)
	case 7:
		return g.nary("or", d, g.boolean)
	case 8:
		return []any{"not", g.boolean(d - 1)}
	case 9:
		return []any{g.pick("array?", "bool?", "map?", "null?", "nil?", "num?", "string?", "time?").(string), g.any(d - 1)}
	case 10:
		return []any{"include", g.pick("$.src.a", "$.src.sa", g.list(d-1), g.str(d-1)), g.pick(g.num(d-1), g.str(d-1), "b", int64(1))}
	default:
		return []any{"include", []any{"list", []any{"list", int64(1)}, int64(2), "x"}, g.pick([]any{"list", int64(1)}, int64(2), "x", "y")}
	}
}

// tree builds a small JSON-like value with null members and nested containers.
func (g *gen) tree(d int) any {
	r := g.r
	if d <= 0 || r.Intn(3) == 0 {
		return g.pick(nil, nil, true, int64(r.Intn(3)), g.flt(r.Intn(5), 2), "s", "")
	}
	if r.Intn(2) == 0 {
		out := []any{}
		for n := r.Intn(3); n > 0; n-- {
			out = append(out, g.tree(d-1))
		}
		return out
	}
	out := map[string]any{}
	for n := r.Intn(4); n > 0; n-- {
		out[[]string{"id", "note", "memo", "x", "y"}[r.Intn(5)]] = g.tree(d - 1)
	}
	return out
}

// perturb changes one point of v (which it may modify).
func (g *gen) perturb(v any) any {
	r := g.r
	switch t := v.(type) {
	case map[string]any:
		keys := make([]string, 0, len(t))
		for k := range t {
			keys = append(keys, k)
		}
		sort.Strings(keys)
		if len(keys) == 0 {
			t["added"] = nil
			return t
		}
		k := keys[r.Intn(len(keys))]
		switch r.Intn(5) {
		case 0: // rename the key, keep the value
			t[k+"2"] = t[k]
			delete(t, k)
		case 1: // rename and null (same size, the renamed member is null on both sides or one)
			delete(t, k)
			t[k+"2"] = nil
		case 2:
			t[k] = nil
		case 3:
			delete(t, k)
		default:
			t[k] = g.perturb(t[k])
		}
		return t
	case []any:
		if len(t) == 0 {
			return append(t, nil)
		}
		i := r.Intn(len(t))
		switch r.Intn(3) {
		case 0:
			return append(t[:i:i], t[i+1:]...)
		case 1:
			t[i] = nil
		default:
			t[i] = g.perturb(t[i])
		}
		return t
	case int64:
		if r.Intn(2) == 0 {
			return g.flt(int(t)*2+1, 2)
		}
		return t + 1
	case nil:
		return g.pick(false, int64(0), "", []any{}, map[string]any{})
	case bool:
		return !t
	case string:
		return t + "x"
	case float64:
		return t + 1
	}
	return nil
}

// lit makes sure a literal array is not read as a function call (its first
// element is never a function name: the trees contain none).
func (g *gen) lit(v any) any { return v }

func (g *gen) naryN(name string, n, d int, f func(int) any) any {
	out := []any{name}
	for ; n > 0; n-- {
		out = append(out, f(d-1))
	}
	return out
}

func (g *gen) list(d int) any {
	if g.r.Intn(25) == 0 {
		return g.wrong()
	}
	if d <= 0 || g.r.Intn(3) == 0 {
		return g.pick("$.src.a", "$.src.sa", "$.src.e", "$.src.rows", []any{"list"}, []any{"list", int64(1), "x", nil})
	}
	switch g.r.Intn(11) {
	case 0:
		return g.nary("list", d, g.any)
	case 1:
		return []any{"reverse", g.list(d - 1)}
	case 2:
		return []any{"sort", "$.src.rows", g.pick("@.id", "@.name", "@.w", "@.none", "$.id").(string)}
	case 3:
		return []any{"sort", g.pick("$.src.a", "$.src.sa", g.list(d-1)), "@"}
	case 4:
		return g.strList(d - 1)
	case 5:
		return []any{"append", g.list(d - 1), g.any(d - 1)}
	case 6:
		return []any{"getall", g.pick("$.src.a[*]", "$.src.rows[*].id", "$.src.rows[?(@.id > 1)].name", "$.src.a[1:]", "$.src.rows[*].none", "@.src.sa[0,2]").(string)}
	case 7:
		// a wildcard over a map would give jp's (undefined) map order: the data is an array by construction
		return []any{"getall", g.pick("@[*]", "@[1:]", "@[?(@ > 1)]").(string), g.pick("$.src.a", "$.src.sa", []any{"reverse", "$.src.a"}, []any{"list", g.num(d - 1), g.num(d - 1)})}
	case 8:
		return g.each(d)
	case 9:
		return []any{"get", g.pick("$.src.rows", "$.src.sa", "$.asm."+g.key(), "$.src.a").(string)}
	default:
		return []any{"cond", []any{g.boolean(d - 1), g.list(d - 1)}, []any{true, g.list(d - 1)}}
	}
}

func (g *gen) each(d int) any {
	was := g.inEach
	g.inEach = true
	defer func() { g.inEach = was }()
	var fn any
	switch g.r.Intn(7) {
	case 6:
		// the member written is named by the element: the path is built anew for each element
		fn = []any{"set", []any{"at", "asm", g.pick("@.src.name", "@.src.name", "@.src.id", "@.src")}, g.pick("@.src.w", "@.src.id", g.any(d-1))}
	case 0:
		fn = []any{"set", "@.asm", g.num(d - 1)}
	case 1:
		fn = []any{"set", "@.asm", g.str(d - 1)}
	case 5:
		// a scratch member under @ that only some elements set and every element reads: each element gets
		// its own local data, so nothing may carry over from the element before (asm hands the return of
		// each statement to the next as @, hence the [true @] branch)
		test := g.pick([]any{"gt", "@.src.id", int64(1)}, []any{"eq", "@.src.id", int64(1)}, []any{"lt", "@.src.id", int64(2)},
			[]any{"eq", "@.src.name", "b"}, []any{"lt", "@.src", int64(2)}, g.boolean(d-1))
		val := g.pick("bulk", int64(7), "@.src.name", []any{"list", "@.src"})
		if g.r.Intn(2) == 0 {
			fn = []any{"asm", []any{"cond", []any{test, []any{"set", "@.tag", val}}, []any{true, "@"}}, []any{"set", "@.asm", "@.tag"}}
		} else {
			fn = []any{"asm", []any{"set", "@.asm", map[string]any{}}, []any{"cond", []any{test, []any{"set", "@.tag", val}}, []any{true, "@"}},
				[]any{"set", "@.asm.tag", "@.tag"}, []any{"set", "@.asm.id", g.pick("@.src.id", "@.src")}}
		}
	case 2:
		if g.r.Intn(2) == 0 {
			// a nested literal used as a template and written into below its first level
			fn = []any{"asm", []any{"set", "@.asm", map[string]any{"kind": "item", "meta": map[string]any{"seen": false}, "tags": []any{[]any{}}}},
				[]any{"set", "@.asm.meta.id", g.pick("@.src.id", "@.src.name", "@.src.w")}, []any{"set", "@.asm.tags[0]", g.pick("@.src.name", "@.src.id")}}
			break
		}
		fn = []any{"asm", []any{"set", "@.asm", map[string]any{}}, []any{"set", "@.asm.n", g.str(d - 1)}, []any{"set", "@.asm.v", g.num(d - 1)}}
	case 3:
		fn = []any{"set", "@.out", g.any(d - 1)}
		return []any{"each", "$.src.rows", fn, "out"}
	default:
		fn = []any{"set", "@.asm", g.boolean(d - 1)}
	}
	return []any{"each", g.pick("$.src.rows", "$.src.rows", "$.src.e", "$.src.a"), fn}
}

func (g *gen) any(d int) any {
	switch g.r.Intn(8) {
	case 0, 1:
		return g.num(d)
	case 2, 3:
		return g.str(d)
	case 4:
		return g.boolean(d)
	case 5:
		return g.list(d)
	case 6:
		return g.pick(nil, map[string]any{"k": int64(1)}, map[string]any{}, []any{int64(1), []any{"sum", int64(1)}}, "$.src.m", "$.src.rows[0]", []any{"quote", "@.x"}, []any{"quote", []any{"sum", int64(1)}}, "$.src.zz")
	default:
		if len(g.keys) > 0 {
			return "$.asm." + g.key()
		}
		return g.num(d)
	}
}

func (g *gen) key() string {
	if len(g.keys) == 0 {
		return "k0"
	}
	return g.keys[g.r.Intn(len(g.keys))]
}

func (g *gen) plan() []any {
	g.keys = nil
	g.senHostile = g.r.Intn(16) == 0
	plan := []any{}
	if g.r.Intn(4) != 0 {
		plan = append(plan, "asm")
	}
	for n := 1 + g.r.Intn(5); n > 0; n-- {
		d := 1 + g.r.Intn(3)
		switch g.r.Intn(14) {
		default:
			k := fmt.Sprintf("k%d", g.r.Intn(4))
			plan = append(plan, []any{"set", "$.asm." + k, g.any(d)})
			g.keys = append(g.keys, k)
		case 0:
			// structured output with deep targets (constants only below the first level)
			k := fmt.Sprintf("m%d", g.r.Intn(2))
			if g.r.Intn(2) == 0 {
				// nested literal template, values from the source (scalars by construction of the roots)
				plan = append(plan, []any{"set", "$.asm." + k, map[string]any{"x": map[string]any{"z": int64(1)}, "l": []any{map[string]any{}}}},
					[]any{"set", "$.asm." + k + ".x.y", g.pick("$.src.i", "$.src.s", "$.src.f")}, []any{"set", "$.asm." + k + ".l[0].v", g.pick("$.src.j", "$.src.t")})
			} else {
				plan = append(plan, []any{"set", "$.asm." + k, map[string]any{}}, []any{"set", "$.asm." + k + ".x.y", g.pick(int64(1), "s", nil, 1.5, []any{int64(1)})})
			}
			g.keys = append(g.keys, k)
		case 1:
			plan = append(plan, []any{"del", "$.asm." + g.key()})
		case 2:
			k := fmt.Sprintf("l%d", g.r.Intn(2))
			plan = append(plan, []any{"set", "$.asm." + k, []any{"list", int64(1), int64(2), int64(3)}}, []any{g.pick("setall", "delall", "set", "del").(string), g.pick("$.asm."+k+"[*]", "$.asm."+k+"[1:]", "$.asm."+k+"[?(@ > 1)]", "$.asm."+k+"[0]", "$.asm."+k+"[-1]").(string), int64(9)})
			if last := plan[len(plan)-1].([]any); last[0] == "del" || last[0] == "delall" {
				plan[len(plan)-1] = last[:2]
			}
			g.keys = append(g.keys, k)
		case 3:
			// the value of a statement becomes @ of the next
			plan = append(plan, g.pick("$.src.m", "$.src.rows[0]", []any{"list", int64(1), int64(2)}), []any{"set", "$.asm.at", g.pick("@.k", "@.id", "@[1]", "@.none")})
			// restore @ to the root for the statements that follow
			plan = append(plan, "$")
		case 4:
			if g.r.Intn(2) == 0 {
				// the target path is built from the data: it has to be built again on every evaluation
				plan = append(plan, []any{"set", []any{g.pick("root", "at").(string), "asm", g.pick("$.src.s", "$.src.t", "$.src.m.k", "@.src.s")}, g.any(d)})
				break
			}
			plan = append(plan, []any{"set", []any{g.pick("root", "at").(string), "asm", g.pick("p", "q", "p.r", "[0]", "a b").(string)}, g.any(d)})
		case 5:
			// wrong arity or an unknown function name (a literal array)
			plan = append(plan, []any{"set", "$.asm.w", []any{g.pick("nosuchfn", "not", "mod", "substr", "replace", "nth", "each", "get", "size").(string), g.any(1), g.any(1), g.any(1), g.any(1)}})
		case 6:
			plan = append(plan, []any{"set", "$.asm.c", []any{"cond", []any{g.boolean(d), g.any(d)}, g.pick([]any{g.boolean(d), g.any(d)}, []any{true}, "notalist", []any{true, int64(1), int64(2)})}})
		}
	}
	return plan
}

func (g *gen) root() map[string]any {
	r := g.r
	ints := func(n int) []any {
		out := make([]any, n)
		for i := range out {
			out[i] = int64(r.Intn(9) - 2)
		}
		return out
	}
	strs := func(n int) []any {
		out := make([]any, n)
		for i := range out {
			out[i] = strConsts[r.Intn(len(strConsts))]
		}
		return out
	}
	rows := []any{}
	for i, n := 0, r.Intn(5); i < n; i++ {
		row := map[string]any{"id": int64(r.Intn(6)), "name": strConsts[r.Intn(len(strConsts))], "w": float64(r.Intn(9)) / 2}
		if r.Intn(6) == 0 {
			delete(row, []string{"id", "name", "w"}[r.Intn(3)])
		}
		if r.Intn(8) == 0 {
			row["id"] = "mixed"
		}
		rows = append(rows, row)
	}
	src := map[string]any{
		"i": int64(r.Intn(13) - 3), "j": int64(r.Intn(7) - 3), "f": float64(r.Intn(17)-4) / 4, "s": strConsts[r.Intn(len(strConsts))], "t": strConsts[r.Intn(len(strConsts))],
		"b": r.Intn(2) == 0, "n": nil, "a": ints(r.Intn(5)), "sa": strs(r.Intn(5)), "e": []any{}, "m": map[string]any{"k": "v"}, "rows": rows,
	}
	if r.Intn(10) == 0 {
		delete(src, []string{"i", "s", "a", "rows", "b"}[r.Intn(5)])
	}
	return map[string]any{"src": src}
}

// copies: functions documented to return a copy (sort, reverse) or a new value built from their
// arguments; the result is stored under $.asm and then written into, slot by slot: $.src must stay as it
// was for every list length (the reference semantics copy).
func (ck *checker) copies() {
	c := ck.c
	idx := 1 << 20
	for _, fn := range []string{"sort", "reverse"} {
		for n := 0; n <= 4; n++ {
			for _, kind := range []string{"int", "string"} {
				list := make([]any, n)
				for i := range list {
					if kind == "int" {
						list[i] = int64((i*7 + 3) % 5)
					} else {
						list[i] = string(rune('e' - i))
					}
				}
				call := []any{fn, "$.src.l"}
				if fn == "sort" {
					call = append(call, "@")
				}
				for slot := -1; slot < n; slot++ {
					idx++
					if !c.Mine(idx) {
						continue
					}
					plan := []any{"asm", []any{"set", "$.asm.x", call}}
					if 0 <= slot {
						plan = append(plan, []any{"set", fmt.Sprintf("$.asm.x[%d]", slot), int64(99)})
					} else {
						plan = append(plan, []any{"set", "$.asm.y", []any{"append", "$.asm.x", int64(98)}})
					}
					c.Cover("copy-family:" + fn)
					root := map[string]any{"src": map[string]any{"l": dup(list)}}
					ck.one(dup(plan).([]any), root, nil, "copy-family")
				}
			}
		}
	}
}

// extremes: every function with integers at and near the int64 limits in every argument position, next
// to small companions of the kinds the functions take.
func (ck *checker) extremes() {
	c := ck.c
	ext := []any{int64(math.MaxInt64), int64(math.MinInt64), int64(math.MaxInt64 - 1), int64(1 << 62), int64(-(1 << 62))}
	small := []any{"abcdef", int64(1), int64(-2), 1.5, "$.src.a", "$.src.s"}
	idx := 1 << 22
	for _, name := range names {
		if name == "inspect" {
			continue
		}
		var argLists [][]any
		for _, e := range ext {
			argLists = append(argLists, []any{e})
			for _, b := range small {
				argLists = append(argLists, []any{e, b}, []any{b, e})
				for _, d := range small[:3] {
					argLists = append(argLists, []any{b, e, d}, []any{b, d, e}, []any{e, b, d})
				}
				argLists = append(argLists, []any{b, e, ext[0]}, []any{b, e, ext[1]})
			}
			for _, e2 := range ext[:3] {
				argLists = append(argLists, []any{e, e2})
			}
		}
		for _, args := range argLists {
			idx++
			if !c.Mine(idx) {
				continue
			}
			call := append([]any{name}, args...)
			var plan []any
			if returnsAt[name] {
				plan = []any{"asm", call}
			} else {
				plan = []any{"asm", []any{"set", "$.asm.r", call}}
			}
			c.Cover("extreme-magnitudes")
			ck.one(dup(plan).([]any), fixedRoot(), nil, "extremes")
		}
	}
}

func run(c *mon.Ctx) {
	ck := &checker{c: c}
	ck.matrix()
	ck.copies()
	ck.extremes()
	g := &gen{r: c.Rand("c20-plans")}
	n := c.Pick(320000, 4800000) / c.Batches
	for i := 0; i < n; i++ {
		c.Cover("random-plans")
		ck.one(g.plan(), g.root(), g.root(), "random")
	}
}
