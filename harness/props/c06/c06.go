// Package c06: no input makes a parser panic, return a recovered runtime
// fault, kill the process or fail to terminate.
// Oracle: the fault monitor (panic guard, recovered-fault classifier,
// in-process CPU watchdog, child-death attribution by the driver).
package c06

import (
	"bytes"
	"fmt"
	"math/rand"
	"strings"

	"github.com/ohler55/ojg/alt"
	"github.com/ohler55/ojg/asm"
	"github.com/ohler55/ojg/gen"
	"github.com/ohler55/ojg/jp"
	"github.com/ohler55/ojg/oj"
	"github.com/ohler55/ojg/sen"

	"verif/gen/jsongen"
	"verif/gen/treegen"
	"verif/mon"
	"verif/props/jsonfe"
)

const (
	quickBytes, quickJP, quickAsm, quickRec             = 16, 8, 4, 4
	thoroughBytes, thoroughJP, thoroughAsm, thoroughRec = 64, 32, 8, 8
)

func counts(tier string) (int, int, int, int) {
	if tier == "thorough" {
		return thoroughBytes, thoroughJP, thoroughAsm, thoroughRec
	}
	return quickBytes, quickJP, quickAsm, quickRec
}

func init() {
	mon.Register(&mon.Prop{
		ID: "C06",
		Batches: func(tier string) int {
			a, b, c, d := counts(tier)
			return a + b + c + d
		},
		Run: run,
		Rule: "cases: (bytes) C01's byte-string workload plus all strings up to length 3 (quick) / 4 (thorough) over a 59-byte SEN alphabet, handed to every byte-consuming entry point " +
			"(strict front-ends, multi-document callback/channel modes, Reuse, Must* forms, oj/sen Match, sen.Parse/ParseReader/Tokenize with and without token functions, oj/sen.Unmarshal); " +
			"(jp) every string up to length 3 / 4 over a 38-symbol JSONPath/script alphabet through jp.ParseString, NewScript, NewFilter, MustParseEquation plus mutants of valid expressions; " +
			"(asm) generated and mutated plan texts through sen.Parse -> asm.NewPlan -> Execute; (recompose) matching, mismatched and mutated data recomposed/unmarshalled into a catalogue of target types. " +
			"A violation is an escaped panic, a Must* panic that is not a plain error, an error result that is a recovered Go runtime fault, a dead child, or no progress for 20 CPU-seconds. " +
			"non-trivial: the input is non-empty and is not rejected at its first byte by the entry point's grammar (bytes: R-viable beyond byte 0 or SEN-accepted; jp/asm/recompose: every generated case); distinct by construction (enumeration) or by digest",
		Assumptions: []string{
			"a recovered runtime fault is recognised by its message prefix (runtime error: / interface conversion: / assignment to entry in nil map / reflect), DESIGN 4.5",
			"panics raised by package reflect while recomposing type-mismatched data into a target type are tolerated as that API's error reporting and only counted",
			"termination is restated as bounded CPU: no single call may consume 20 CPU-seconds (inputs are at most a few KiB; normal cost is microseconds)",
		},
		Findings: map[string]func(v *mon.Violation) bool{},
		Floors: func(tier string, cover map[string]int64, evals int64) []string {
			var out []string
			for _, k := range []string{"group:bytes", "group:jp", "group:asm", "group:recompose"} {
				if cover[k] == 0 {
					out = append(out, "group never ran: "+k)
				}
			}
			return out
		},
		Exhaustive: func(tier string) []string {
			if tier == "thorough" {
				return []string{"C01's enumerations per byte entry point", "all strings of length <= 4 over the 59-byte SEN alphabet", "all strings of length <= 4 over the 38-symbol JSONPath alphabet"}
			}
			return []string{"C01's enumerations per byte entry point", "all strings of length <= 3 over the 59-byte SEN alphabet", "all strings of length <= 3 over the 38-symbol JSONPath alphabet"}
		},
	})
}

func run(c *mon.Ctx) {
	nb, nj, na, _ := counts(c.Tier)
	switch {
	case c.Batch < nb:
		c.Cover("group:bytes")
		runBytes(c, c.Batch, nb)
	case c.Batch < nb+nj:
		c.Cover("group:jp")
		runJP(c, c.Batch-nb, nj)
	case c.Batch < nb+nj+na:
		c.Cover("group:asm")
		runAsm(c, c.Batch-nb-nj, na)
	default:
		c.Cover("group:recompose")
		runRecompose(c, c.Batch-nb-nj-na)
	}
}

// ---- classification ----

type epStats struct {
	calls, errs, panics, faults int64
}

type monitor struct {
	c     *mon.Ctx
	stats map[string]*epStats
}

func newMonitor(c *mon.Ctx) *monitor { return &monitor{c: c, stats: map[string]*epStats{}} }

func (m *monitor) flush() {
	for k, s := range m.stats {
		m.c.CoverN("calls:"+k, s.calls)
		m.c.CoverN("errors:"+k, s.errs)
		if s.panics > 0 {
			m.c.CoverN("panics:"+k, s.panics)
		}
		if s.faults > 0 {
			m.c.CoverN("recovered-faults:"+k, s.faults)
		}
	}
}

// call runs f (an entry point that reports through an error result) under the
// guard and classifies the outcome.
func (m *monitor) call(entry string, cs any, f func() error) {
	st := m.stats[entry]
	if st == nil {
		st = &epStats{}
		m.stats[entry] = st
	}
	st.calls++
	m.c.Eval(1)
	var err error
	p := mon.Guard(func() { err = f() })
	if p != nil {
		st.panics++
		m.c.Violation(entry, "escaped-panic", mon.FaultClass(p.Msg), cs, "error result or success", p.String()+"\n"+firstFrames(p.Stack))
		return
	}
	if err != nil {
		st.errs++
		if mon.IsRuntimeFaultMsg(err.Error()) {
			st.faults++
			m.c.Violation(entry, "recovered-runtime-fault", mon.FaultClass(err.Error()), cs, "malformed input reported as an ordinary error", err.Error())
		}
	}
}

// must runs a Must* entry point: a panic must carry a plain error.
func (m *monitor) must(entry string, cs any, f func()) {
	st := m.stats[entry]
	if st == nil {
		st = &epStats{}
		m.stats[entry] = st
	}
	st.calls++
	m.c.Eval(1)
	p := mon.Guard(f)
	if p == nil {
		return
	}
	st.errs++
	if !p.IsPlainError() {
		st.panics++
		m.c.Violation(entry, "must-panic-not-error", mon.FaultClass(p.Msg), cs, "panic carrying the parse error", p.String()+"\n"+firstFrames(p.Stack))
	}
}

func firstFrames(stack string) string {
	lines := strings.Split(stack, "\n")
	var out []string
	for i := 0; i+1 < len(lines); i++ {
		if strings.Contains(lines[i], "github.com/ohler55/ojg") {
			out = append(out, strings.TrimSpace(lines[i])+" "+strings.TrimSpace(lines[i+1]))
			if len(out) == 3 {
				break
			}
		}
	}
	return strings.Join(out, "\n")
}

// ---- bytes group ----

type zeroH struct{ oj.ZeroHandler }

var matchTargets = []jp.Expr{jp.R().D().C("a"), jp.R().W().N(0), jp.R().C("k").W()}

func drain(ch chan any, done chan struct{}) {
	for range ch {
	}
	close(done)
}

func runBytes(c *mon.Ctx, batch, batches int) {
	m := newMonitor(c)
	defer m.flush()
	// reuse C01's workload with this group's batch indices
	c2 := mon.NewCtx(c.Prop, c.Tier, c.Seed, batch, batches, "")
	senParser := func() *sen.Parser {
		p := &sen.Parser{}
		p.AddTokenFunc("f", func(args ...any) any { return len(args) })
		p.AddMongoFuncs()
		return p
	}
	nstate := 0
	visit := func(x []byte, src string, json bool) {
		c.Begin("byte-entry-points", x)
		cs := mon.B(x)
		if len(x) > 0 {
			if src == "enum256" || src == "enum39" || src == "enumsen" {
				c.DistinctEnum(1)
			} else {
				c.Distinct(x)
			}
		}
		if c.WantSample() && len(x) > 3 && src != "enum256" {
			c.Sample(map[string]any{"input": mon.B(append([]byte{}, x...)), "source": src})
		}
		// the length-4 enumeration over the JSON alphabet is the bulk of the inputs: it gets the
		// front-ends with code of their own, everything else gets every entry point
		nstate++
		bulk := !c.Thorough() && (src == "enum39" && len(x) >= 4 || src == "state" && nstate%4 != 0)
		if json {
			for fi := range jsonfe.FEs {
				fe := &jsonfe.FEs[fi]
				m.call(fe.Name, cs, func() error { return fe.Run(x, jsongen.Whole) })
			}
			m.call("oj.Parse(cb bool)", cs, func() error { _, e := oj.Parse(x, func(any) bool { return false }); return e })
			m.call("gen.Parser.Parse(cb)", cs, func() error { p := gen.Parser{}; _, e := p.Parse(x, func(gen.Node) bool { return false }); return e })
			m.call("oj.Validate", cs, func() error { return oj.Validate(x) })
			m.call("oj.Tokenize", cs, func() error { return oj.Tokenize(x, &zeroH{}) })
			m.call("sen.Parse", cs, func() error { _, e := sen.Parse(x); return e })
			m.call("sen.Tokenize", cs, func() error { return sen.Tokenize(x, &zeroH{}) })
			if bulk {
				return
			}
			m.call("oj.Parse(cb)", cs, func() error { _, e := oj.Parse(x, func(any) {}); return e })
			m.call("oj.Parser.Parse(Reuse)", cs, func() error { p := oj.Parser{Reuse: true}; _, e := p.Parse(x); return e })
			m.call("oj.ValidateReader(1)", cs, func() error { return oj.ValidateReader(jsongen.Fixed(1).Reader(x)) })
			m.call("oj.TokenizeLoad(1)", cs, func() error { return oj.TokenizeLoad(jsongen.Fixed(1).Reader(x), &zeroH{}) })
			m.call("oj.Load(1)", cs, func() error { _, e := oj.Load(jsongen.Fixed(1).Reader(x)); return e })
			m.call("gen.Parser.ParseReader(1)", cs, func() error { p := gen.Parser{}; _, e := p.ParseReader(jsongen.Fixed(1).Reader(x)); return e })
			m.call("oj.Match", cs, func() error { return oj.Match(x, func(jp.Expr, any) {}, matchTargets...) })
			m.call("oj.Unmarshal(any)", cs, func() error { var v any; return oj.Unmarshal(x, &v) })
			if len(x)%7 == 0 {
				m.call("oj.Parse(chan)", cs, func() error {
					ch := make(chan any, 8)
					done := make(chan struct{})
					go drain(ch, done)
					_, e := oj.Parse(x, ch)
					close(ch)
					<-done
					return e
				})
				m.must("oj.MustParse", cs, func() { oj.MustParse(x) })
				m.must("oj.MustLoad", cs, func() { oj.MustLoad(bytes.NewReader(x)) })
				m.call("oj.ParseString", cs, func() error { _, e := oj.ParseString(string(x)); return e })
				m.must("oj.MustParseString", cs, func() { oj.MustParseString(string(x)) })
				m.call("oj.ValidateString", cs, func() error { return oj.ValidateString(string(x)) })
				m.call("oj.TokenizeString", cs, func() error { return oj.TokenizeString(string(x), &zeroH{}) })
				m.call("oj.MatchString", cs, func() error { return oj.MatchString(string(x), func(jp.Expr, any) {}, matchTargets...) })
				m.call("oj.MatchLoad", cs, func() error { return oj.MatchLoad(bytes.NewReader(x), func(jp.Expr, any) {}, matchTargets...) })
			}
		}
		if !json {
			m.call("sen.Parse", cs, func() error { _, e := sen.Parse(x); return e })
			m.call("sen.Tokenize", cs, func() error { return sen.Tokenize(x, &zeroH{}) })
		}
		m.call("sen.Parser.Parse", cs, func() error { p := sen.Parser{}; _, e := p.Parse(x); return e })
		m.call("sen.Parser.Parse(tokenfuncs)", cs, func() error { _, e := senParser().Parse(x); return e })
		m.call("sen.Parse(cb)", cs, func() error { _, e := sen.Parse(x, func(any) bool { return false }); return e })
		m.call("sen.ParseReader(1)", cs, func() error { _, e := sen.ParseReader(jsongen.Fixed(1).Reader(x)); return e })
		m.call("sen.ParseReader", cs, func() error { _, e := sen.ParseReader(bytes.NewReader(x)); return e })
		m.call("sen.TokenizeLoad(1)", cs, func() error { return sen.TokenizeLoad(jsongen.Fixed(1).Reader(x), &zeroH{}) })
		m.call("sen.Match", cs, func() error { return sen.Match(x, func(jp.Expr, any) {}, matchTargets...) })
		m.call("sen.Unmarshal(any)", cs, func() error { var v any; return sen.Unmarshal(x, &v) })
		if len(x)%7 == 0 {
			m.must("sen.MustParse", cs, func() { sen.MustParse(x) })
			m.must("sen.MustParseReader", cs, func() { sen.MustParseReader(bytes.NewReader(x)) })
			m.must("sen.Parser.MustParse", cs, func() { p := sen.Parser{}; p.MustParse(x) })
			m.must("sen.Parser.MustParseReader", cs, func() { p := sen.Parser{}; p.MustParseReader(bytes.NewReader(x)) })
			m.call("sen.TokenizeString", cs, func() error { return sen.TokenizeString(string(x), &zeroH{}) })
			m.call("sen.MatchString", cs, func() error { return sen.MatchString(string(x), func(jp.Expr, any) {}, matchTargets...) })
			m.call("sen.MatchLoad", cs, func() error { return sen.MatchLoad(bytes.NewReader(x), func(jp.Expr, any) {}, matchTargets...) })
		}
	}
	jsonfe.Workload(c2, func(x []byte, src string) { visit(x, src, true) })
	// SEN alphabet enumeration (JSON entry points were enumerated over their own alphabet above)
	n := 3
	if c.Thorough() {
		n = 4
	}
	for l := 1; l <= n; l++ {
		jsongen.Enum(jsongen.ASen, l, c2.Mine, func(x []byte) { visit(x, "enumsen", false) })
	}
	// SEN-specific near-valid texts
	r := c.Rand("sen")
	seeds := []string{`{a:1 b:[true false null] c:"x" d:'y' e:f(1 2) // c` + "\n}", `[1 2 3 +4 -5 1.5e3 abc "a" + "b" 'c' + 'd']`, `{"a" : bad() , b : f( f(1) [2] {x:3} )}`, `/* c */ [a /* d */ b] // e`,
		`[f(] [f)] (1) f((1))`, `{a:+ b:- c:+ + d:"x"+}`, `ISODate("2021-06-28T10:11:12Z")`, `[0x10 1e 1e+ .5 -.5 +.5 1.e2]`}
	for i := 0; i < c.Pick(3000, 40000); i++ {
		s := []byte(seeds[r.Intn(len(seeds))])
		visit(jsongen.Mutate(r, s, []byte(seeds[r.Intn(len(seeds))])), "senmutant", false)
	}
	// SEN feature sequences: every sequence of up to five tokens over the features whose handling shares
	// parser state (string, concatenation, both comment forms, number, bare token, containers, key), bare
	// and inside an array
	toks := []string{`"a"`, `+`, "// c\n", `/* c */`, `1`, `[`, `]`, `x`, `{k:`, `}`}
	seqN := 0
	var seq func(prefix string, n int)
	seq = func(prefix string, n int) {
		if n > 0 {
			seqN++
			if c2.Mine(seqN) {
				c.Cover("sen:feature-sequences")
				visit([]byte(prefix), "senseq", false)
				visit([]byte("["+prefix+"]"), "senseq", false)
			}
		}
		if n == c.Pick(5, 6) {
			return
		}
		for _, t := range toks {
			seq(prefix+t+" ", n+1)
		}
	}
	seq("", 0)
	// the optional mongo token functions (Parser.AddMongoFuncs) and a user function: every function x every
	// kind and number of arguments, alone, in containers and nested
	k := 0
	args := []string{"", `"5"`, `5`, `-5`, `1.5`, `null`, `true`, `[1]`, `{a:1}`, `abc`, `"x" "y"`, `"2021-06-28T10:11:12Z"`, `"99999999999999999999"`, `99999999999999999999`, `""`, `f(1)`, `NumberInt(5)`, `5 6`}
	for _, fn := range []string{"ISODate", "ObjectId", "NumberInt", "NumberLong", "NumberDecimal", "f", "nosuch"} {
		for _, a := range args {
			for _, ctx := range []string{"%s", "[%s]", "{a:%s}", "[1 %s 2]", "f(%s)"} {
				k++
				if !c2.Mine(k) {
					continue
				}
				c.Cover("sen:token-function-calls")
				visit([]byte(fmt.Sprintf(ctx, fn+"("+a+")")), "senfunc", false)
			}
		}
	}
}

// ---- jp group ----

var jpAlpha = []string{"$", "@", ".", "*", "[", "]", "?", "(", ")", "'", "\"", "\\", ",", ":", "-", "0", "1", "a", "x", " ", "=", "!", "<", ">", "&", "|", "~", "/", "+", "e", "u", "n", "t", "N", "i", "h", "\xff", "\n"}

var jpSeeds = []string{
	`$.a.b[0][-1]['k'][*]..x[1,2,'a'][1:5:2][?(@.x == 1)]`, `@.a[?(@.b > 1.5 && @.c != 'x' || !(@.d in [1,2,'a']))]`, `$[?(@.a =~ /ab+c/i)]`, `$['é\t\'x'].b`, `$..[?(@.price < $.limit)].title`,
	`$[?length(@.a) == 3]`, `$[?count(@..a) >= 2]`, `$[?match(@.a, 'x.*')]`, `$[?search(@.b, "y")]`, `$[?(@.a has true)]`, `$[?(@.a exists false)]`, `$[?(@.x empty true)]`, `$.a[?(1 + 2 * 3 - 4 / 2 == @.v)]`,
	`$[?(@.a)][(x)]`, `$[(@.length-1)]`, `$.a[(1+1)].b[(2)]`, `$[(x)][(y)]`, `$[?(@.a == 1)].b[(c)].d[?(@.e)]`,
	`a.b.c`, `[0]`, `$..`, `$.*.*`, `$[::-1]`, `$[-3:-1]`, `$["a","b"]`, `$[?(@ == null)]`, `$[?@.a]`, `$.x[?(@.a == Nothing)]`,
}

var scriptSeeds = []string{`(@.a == 1)`, `(@.a < 1.5 && @.b >= 'x')`, `(!(@.a != null) || @.b in [1, 'a', true, null])`, `(@.s =~ /^a.*z$/)`, `(@.x has true && @.y exists false)`, `(length(@.a) > 2)`, `(@.a + 1 == 3 * @.b - 2)`,
	`((@.a == 1) && (@.b == 2 || @.c == 3))`, `(@ == 'x')`, `($.r.x == @.y)`, `(@.a empty false)`, `(@.a[?(@.b == 1)] exists true)`}

func runJP(c *mon.Ctx, batch, batches int) {
	m := newMonitor(c)
	defer m.flush()
	try := func(s string) {
		c.Begin("jp-text-entry-points", s)
		m.call("jp.ParseString", s, func() error { _, e := jp.ParseString(s); return e })
		m.call("jp.NewScript", s, func() error { _, e := jp.NewScript(s); return e })
		m.call("jp.NewScript(parens)", s, func() error { _, e := jp.NewScript("(" + s + ")"); return e })
		m.call("jp.ParseString(filter)", s, func() error { _, e := jp.ParseString("$[?" + s + "]"); return e })
		m.call("jp.NewFilter", s, func() error { _, e := jp.NewFilter("[?(" + s + ")]"); return e })
		m.must("jp.MustParseEquation", s, func() { jp.MustParseEquation(s) })
		m.must("jp.MustParseString", s, func() { jp.MustParseString(s) })
	}
	maxLen := c.Pick(3, 4)
	idx := 0
	var rec func(prefix string, n int)
	rec = func(prefix string, n int) {
		if n >= 2 || n == maxLen {
			// the batch owns a sub-tree below the 2-symbol prefixes; shorter strings belong to batch 0
		}
		if n == 2 {
			idx++
			if idx%batches != batch {
				return
			}
		}
		if n >= 2 || batch == 0 {
			try(prefix)
			c.DistinctEnum(1)
			if c.WantSample() && n == maxLen {
				c.Sample(map[string]any{"text": prefix, "group": "jp"})
			}
		}
		if n == maxLen {
			return
		}
		for _, a := range jpAlpha {
			rec(prefix+a, n+1)
		}
	}
	rec("", 0)
	r := c.Rand("jp")
	all := append(append([]string{}, jpSeeds...), scriptSeeds...)
	for i := 0; i < c.Pick(6000, 60000); i++ {
		s := all[r.Intn(len(all))]
		mut := string(jsongen.Mutate(r, []byte(s), []byte(all[r.Intn(len(all))])))
		try(mut)
		c.Distinct(mut)
		if i%50 == 0 {
			// truncations: every prefix of a valid expression
			for k := 0; k <= len(s); k++ {
				try(s[:k])
			}
		}
	}
}

// ---- asm group ----

var planSeeds = []string{
	`[[set $.asm.a [sum 1 2 $.src.i]] [set $.asm.b [cond [[lt $.src.i 5] low] [true high]]] [each $.src.a [set @.x [nth $.src.a 0]] $.asm.c]]`,
	`[asm [set $.asm [map [[quote a] 1] [[quote b] [quotient 7 2]]]] [set $.asm.s [join [list a b c] "-"]] [set $.asm.t [substr abcdef 1 3]] [del $.asm.s]]`,
	`[[set $.asm.x [mod 7 3]] [set $.asm.y [product 2 3.5]] [set $.asm.z [dif 9 1 2]] [set $.asm.q [split "a,b" ","]] [set $.asm.r [replace abc b x]] [set $.asm.u [toupper abc]]]`,
	`[[set $.asm.l [sort [list 3 1 2]]] [set $.asm.m [reverse [list 1 2]]] [set $.asm.n [size abc]] [set $.asm.o [and true [or false [not false]]]] [set $.asm.p [eq 1 1.0]] [set $.asm.q [string 12]] [set $.asm.r [int "5"]] [set $.asm.s [float 2]]]`,
	`[[set $.asm.a [get $.src.m.k]] [set $.asm.b [getall $.src.a[*]]] [setall $.asm.c[*] 0] [delall $.src.zz] [set $.asm.d [append [list] 1]] [set $.asm.e [include [list 1 2] 2]] [set $.asm.f [trim "  x "]] [set $.asm.g [title abc]] [set $.asm.h [at [quote $.x]]] [set $.asm.i [array? $.src.a]] [set $.asm.j [num? 1]] [set $.asm.k [null? $.src.n]]]`,
	`[[set $.asm.t [time "2021-06-28T10:11:12Z"]] [set $.asm.u [time 1624875072]] [set $.asm.v [string [time 0] "RFC3339"]] [set $.asm.w [zone [time 0] "UTC"]] [set $.asm.x [string? a]] [set $.asm.y [nth [list 1 2 3] -1]] [set $.asm.z [root [quote $.src]]]]`,
}

func srcRoot() map[string]any {
	return map[string]any{"src": map[string]any{"i": int64(3), "f": 2.5, "s": "abc", "a": []any{int64(3), int64(1), int64(2)}, "m": map[string]any{"k": "v"}, "n": nil, "b": true, "e": []any{}, "z": int64(0)}}
}

func runAsm(c *mon.Ctx, batch, batches int) {
	m := newMonitor(c)
	defer m.flush()
	r := c.Rand("asm")
	names := fnNames()
	kinds := []string{"null", "true", "2", "0", "-1", "1.5", "abc", `""`, "[1 x]", "[]", "{a:1}", "$.src.i", "$.src.s", "$.src.a", "$.src.m", "$.src.zz", "@.src", "[sum 1 2]", "[quote $.src.i]", "$.asm.x", "$.src.f", "$.src.e", "99", "0.0", "$.src.z", `"$"`, `"@"`, `"$.["`, "-9223372036854775808", "[list]", "[list 1 2 3]"}
	exec := func(text string) {
		c.Begin("asm-plan", text)
		c.Distinct(text)
		if c.WantSample() && len(text) > 20 {
			c.Sample(map[string]any{"plan": text, "group": "asm"})
		}
		var v any
		var err error
		if mon.Guard(func() { v, err = sen.Parse([]byte(text)) }) != nil || err != nil {
			return // not a plan; a panic here is reported by the bytes group
		}
		arr, ok := v.([]any)
		if !ok {
			return
		}
		var p *asm.Plan
		m.must("asm.NewPlan", text, func() { p = asm.NewPlan(arr) })
		if p == nil || p.Eval == nil {
			return
		}
		m.call("asm.Plan.Execute", text, func() error { return p.Execute(srcRoot()) })
		m.call("asm.Plan.Execute(empty root)", text, func() error { return p.Execute(map[string]any{}) })
	}
	// function x arity x argument kind sweep (this batch's share)
	idx := 0
	for _, name := range names {
		if name == "inspect" {
			continue // writes to stdout
		}
		for arity := 0; arity <= 3; arity++ {
			total := 1
			for i := 0; i < arity; i++ {
				total *= len(kinds)
			}
			limit := total
			if limit > 900 {
				limit = 900
			}
			for t := 0; t < limit; t++ {
				idx++
				if idx%batches != batch {
					continue
				}
				pick := t
				if limit < total {
					pick = r.Intn(total)
				}
				args := make([]string, arity)
				for i := range args {
					args[i] = kinds[pick%len(kinds)]
					pick /= len(kinds)
				}
				call := "[" + senName(name) + " " + strings.Join(args, " ") + "]"
				exec("[[set $.asm.r " + call + "]]")
				if t%5 == 0 {
					exec("[" + call + "]")
				}
			}
		}
	}
	for i := 0; i < c.Pick(4000, 40000); i++ {
		s := planSeeds[r.Intn(len(planSeeds))]
		exec(string(jsongen.Mutate(r, []byte(s), []byte(planSeeds[r.Intn(len(planSeeds))]))))
	}
	for _, s := range planSeeds {
		exec(s)
	}
}

func fnNames() []string {
	docs := asm.FnDocs()
	names := make([]string, 0, len(docs))
	for n := range docs {
		names = append(names, n)
	}
	sortStrings(names)
	return names
}

func sortStrings(a []string) {
	for i := 1; i < len(a); i++ {
		for j := i; j > 0 && a[j] < a[j-1]; j-- {
			a[j], a[j-1] = a[j-1], a[j]
		}
	}
}

func senName(n string) string {
	for _, ch := range n {
		if !(ch >= 'a' && ch <= 'z') && ch != '?' {
			return `"` + n + `"`
		}
	}
	return n
}

// ---- recompose group ----

type inner struct {
	A int
	B string
	C *float64
}

type Embedded struct {
	E1 int `json:"e1"`
	E2 []string
}

type outer struct {
	Embedded
	I   int
	I8  int8
	U   uint16
	F   float32
	S   string
	Bo  bool
	P   *inner
	In  inner
	Sl  []inner
	PS  []*inner
	M   map[string]int
	MI  map[string]inner
	Any any
	Arr [2]int
	By  []byte
	Tag string `json:"tagged,omitempty"`
	Sk  string `json:"-"`
	IF  fmt.Stringer
	MM  map[string]map[string][]int
	x   int
}

type strList []string
type intMap map[string]int64

func targets() map[string]func() any {
	return map[string]func() any{
		"outer":          func() any { return &outer{} },
		"inner":          func() any { return &inner{} },
		"[]outer":        func() any { return &[]outer{} },
		"[]*inner":       func() any { return &[]*inner{} },
		"map[string]any": func() any { return &map[string]any{} },
		"map[string]int": func() any { return &map[string]int{} },
		"[]int":          func() any { return &[]int{} },
		"[3]string":      func() any { return &[3]string{} },
		"int":            func() any { var i int; return &i },
		"string":         func() any { var s string; return &s },
		"any":            func() any { var a any; return &a },
		"strList":        func() any { return &strList{} },
		"intMap":         func() any { return &intMap{} },
		"*inner":         func() any { var p *inner; return &p },
		"struct{anon}":   func() any { return &struct{ A []struct{ B int } }{} },
		"nil":            func() any { return nil },
		"non-pointer":    func() any { return outer{} },
	}
}

func runRecompose(c *mon.Ctx, batch int) {
	m := newMonitor(c)
	defer m.flush()
	r := c.Rand("rec")
	f := 1.5
	good := []any{
		alt.Decompose(&outer{Embedded: Embedded{1, []string{"a"}}, I: 1, P: &inner{1, "x", &f}, Sl: []inner{{}}, PS: []*inner{nil, {}}, M: map[string]int{"a": 1}, MI: map[string]inner{"k": {}}, Any: []any{int64(1)}, By: []byte("xy"), MM: map[string]map[string][]int{"a": {"b": {1}}}}),
		alt.Decompose(&inner{A: 2, B: "b"}),
		[]any{map[string]any{"i": int64(1)}, map[string]any{"s": "x"}},
		map[string]any{"a": int64(1), "b": int64(2)},
		[]any{int64(1), int64(2), int64(3)},
		[]any{"a", "b", "c"},
		int64(5), "str", nil, true, 2.5,
	}
	tg := targets()
	names := make([]string, 0, len(tg))
	for n := range tg {
		names = append(names, n)
	}
	sortStrings(names)
	rec := alt.MustNewRecomposer("^", nil)
	n := c.Pick(6000, 60000)
	for i := 0; i < n; i++ {
		var data any
		switch r.Intn(3) {
		case 0:
			data = good[r.Intn(len(good))]
		case 1:
			data = mutateTree(r, dup(good[r.Intn(len(good))]), 0)
		default:
			data = randTree(r, 0)
		}
		name := names[r.Intn(len(names))]
		cs := map[string]any{"target": name, "data": show(data)}
		c.Begin("recompose", cs)
		c.Distinct(name, show(data))
		if c.WantSample() {
			c.Sample(cs)
		}
		tolerantCall(m, "alt.Recompose", cs, func() error { _, e := alt.Recompose(dup(data), tg[name]()); return e })
		tolerantCall(m, "alt.Recomposer.Recompose", cs, func() error { _, e := rec.Recompose(dup(data), tg[name]()); return e })
		text := []byte(oj.JSON(data))
		tolerantCall(m, "oj.Unmarshal", cs, func() error { return oj.Unmarshal(text, tg[name]()) })
		tolerantCall(m, "sen.Unmarshal", cs, func() error { return sen.Unmarshal(text, tg[name]()) })
		if i%4 == 0 {
			mt := jsongen.Mutate(r, text, text)
			cs2 := map[string]any{"target": name, "text": mon.B(mt)}
			tolerantCall(m, "oj.Unmarshal", cs2, func() error { return oj.Unmarshal(mt, tg[name]()) })
			tolerantCall(m, "sen.Unmarshal", cs2, func() error { return sen.Unmarshal(mt, tg[name]()) })
		}
	}
}

// tolerantCall is call with the documented tolerance for package-reflect
// panics surfaced as errors by Recompose on type-mismatched data.
func tolerantCall(m *monitor, entry string, cs any, f func() error) {
	st := m.stats[entry]
	if st == nil {
		st = &epStats{}
		m.stats[entry] = st
	}
	st.calls++
	m.c.Eval(1)
	var err error
	p := mon.Guard(func() { err = f() })
	if p != nil {
		st.panics++
		m.c.Violation(entry, "escaped-panic", mon.FaultClass(p.Msg), cs, "error result or success", p.String()+"\n"+firstFrames(p.Stack))
		return
	}
	if err != nil {
		st.errs++
		msg := err.Error()
		if strings.HasPrefix(msg, "reflect") {
			m.c.Cover("tolerated-reflect-panics:" + entry)
			return
		}
		if mon.IsRuntimeFaultMsg(msg) {
			st.faults++
			m.c.Violation(entry, "recovered-runtime-fault", mon.FaultClass(msg), cs, "mismatched data reported as an ordinary error", msg)
		}
	}
}

var recCfg = &treegen.Cfg{MaxDepth: 3, MaxWidth: 3, Keys: func(r *rand.Rand) string {
	ks := []string{"a", "b", "c", "i", "s", "p", "in", "sl", "ps", "m", "mi", "any", "arr", "by", "tagged", "e1", "e2", "f", "u", "i8", "bo", "if", "mm", "^", "type", "embedded", "x"}
	return ks[r.Intn(len(ks))]
}}

func dup(v any) any                             { return treegen.Dup(v) }
func show(v any) string                         { return treegen.Show(v) }
func randTree(r *rand.Rand, _ int) any          { return recCfg.Tree(r) }
func mutateTree(r *rand.Rand, v any, _ int) any { return treegen.Mutate(r, v, recCfg) }
