// Package c10: SEN writer and parser round-trip every value.
// Oracle: sen.Parse(write(v)) must equal v (strings stay strings, numbers keep
// their value, keys keep their spelling).
package c10

import (
	"bytes"
	"encoding/json"
	"fmt"
	"math/rand"
	"strconv"
	"strings"
	"unicode/utf8"

	"github.com/ohler55/ojg"
	"github.com/ohler55/ojg/pretty"
	"github.com/ohler55/ojg/sen"

	"verif/gen/jsongen"
	"verif/gen/treegen"
	"verif/mon"
	"verif/ref/jsonref"
)

func init() {
	mon.Register(&mon.Prop{
		ID:      "C10",
		Batches: func(tier string) int { return map[string]int{"quick": 16, "thorough": 48}[tier] },
		Run:     run,
		Rule: "cases: every string over all 256 byte values up to length 2 and over a 59-byte SEN alphabet up to length 3 (quick) / 4 (thorough), the reserved spellings (true/false/null and prefixes/case variants, number spellings, signs, comment markers, operators), " +
			"each as top-level value, array element between two others, object key and object value; int64 boundaries and finite float64; generated trees; written by sen.String, sen.Bytes, sen.Write, sen.Writer.SEN/MustSEN/Write, pretty.SEN, pretty.WriteSEN " +
			"under {Indent 0/2, Tab, Sort, HTMLUnsafe, WriteLimit small, pretty Width/MaxDepth/Align} and read back with sen.Parse and, every fourth text, through the pooled sen.ParseReader from a reader delivering 1, 3 or 7 bytes at a time (now and then right after a callback-mode call on the same pool). also table-like data whose columns hold cells of mixed kinds for the aligned pretty writer. non-trivial: every case with a non-empty string or a container; distinct: enumerated strings by construction, trees by digest",
		Assumptions: []string{
			"strings and keys with invalid UTF-8 come back with U+FFFD in place of each invalid byte (same rule as C04)",
			"a number keeps its value when the parsed number denotes the same decimal value (an int64 may come back as an equal json.Number; float64 by ==)",
		},
		Findings: map[string]func(v *mon.Violation) bool{
			"senBareSignString": func(v *mon.Violation) bool {
				return strCase(v, func(s string) bool { return s != "" && (s[0] == '+' || s[0] == '-') && bareSafe(s[1:]) })
			},
			"senBareKeywordString": func(v *mon.Violation) bool {
				return strCase(v, func(s string) bool { return s == "true" || s == "false" || s == "null" })
			},
		},
		Floors: func(tier string, cover map[string]int64, evals int64) []string {
			var out []string
			for _, k := range []string{"ctx:top", "ctx:element", "ctx:key", "ctx:value", "decision:bare", "decision:quoted", "writer:sen.String", "writer:sen.Bytes", "writer:sen.Write", "writer:pretty.SEN", "writer:pretty.WriteSEN", "src:tree"} {
				if cover[k] == 0 {
					out = append(out, "coverage class never reached: "+k)
				}
			}
			return out
		},
		Exhaustive: func(tier string) []string {
			if tier == "thorough" {
				return []string{"all strings of length <= 2 over 256 byte values and of length <= 4 over the 59-byte SEN alphabet, in 4 contexts"}
			}
			return []string{"all strings of length <= 2 over 256 byte values and of length <= 3 over the 59-byte SEN alphabet, in 4 contexts"}
		},
	})
}

// bareSafe: the rest of the string consists of plain token characters only
// (so the only reason it does not round-trip is the leading sign).
func bareSafe(s string) bool {
	for i := 0; i < len(s); i++ {
		c := s[i]
		if c <= ' ' || c == 0x7f || strings.IndexByte(`"'\[]{}:,()/&`+"`|", c) >= 0 {
			return false
		}
	}
	return utf8.ValidString(s) && !strings.Contains(s, "\u2028") && !strings.Contains(s, "\u2029")
}

// strCase applies pred to the single offending string of a string-context case.
func strCase(v *mon.Violation, pred func(string) bool) bool {
	m, _ := v.Case.(map[string]any)
	if m == nil {
		return false
	}
	b, ok := m["string"].(mon.B)
	if !ok {
		return false
	}
	return pred(string(b))
}

func fixStr(s string) string {
	if utf8.ValidString(s) {
		return s
	}
	var b strings.Builder
	for i := 0; i < len(s); {
		r, n := utf8.DecodeRuneInString(s[i:])
		if r == utf8.RuneError && n == 1 {
			b.WriteString("�")
		} else {
			b.WriteString(s[i : i+n])
		}
		i += n
	}
	return b.String()
}

// equal compares the parsed value with the written tree.
func equal(want, got any, path string) string {
	switch t := want.(type) {
	case nil:
		if got != nil {
			return fmt.Sprintf("%s: wrote null, read %s", path, typed(got))
		}
	case bool:
		if b, ok := got.(bool); !ok || b != t {
			return fmt.Sprintf("%s: wrote %v, read %s", path, t, typed(got))
		}
	case int64:
		switch g := got.(type) {
		case int64:
			if g != t {
				return fmt.Sprintf("%s: wrote %d, read %d", path, t, g)
			}
		case json.Number:
			a, ok := jsonref.ParseDec(string(g))
			b, _ := jsonref.ParseDec(strconv.FormatInt(t, 10))
			if !ok || !a.Equal(b) {
				return fmt.Sprintf("%s: wrote %d, read %s", path, t, typed(got))
			}
		default:
			return fmt.Sprintf("%s: wrote %d, read %s", path, t, typed(got))
		}
	case float64:
		switch g := got.(type) {
		case float64:
			if g != t {
				return fmt.Sprintf("%s: wrote float %s, read %s", path, strconv.FormatFloat(t, 'g', -1, 64), strconv.FormatFloat(g, 'g', -1, 64))
			}
		case int64:
			if float64(g) != t || t >= 1<<53 || t <= -(1<<53) {
				return fmt.Sprintf("%s: wrote float %s, read int64 %d", path, strconv.FormatFloat(t, 'g', -1, 64), g)
			}
		case json.Number:
			f, err := strconv.ParseFloat(string(g), 64)
			if err != nil || f != t {
				return fmt.Sprintf("%s: wrote float %s, read %s", path, strconv.FormatFloat(t, 'g', -1, 64), typed(got))
			}
		default:
			return fmt.Sprintf("%s: wrote float %s, read %s", path, strconv.FormatFloat(t, 'g', -1, 64), typed(got))
		}
	case string:
		if s, ok := got.(string); !ok || s != fixStr(t) {
			return fmt.Sprintf("%s: wrote string %q, read %s", path, t, typed(got))
		}
	case []any:
		g, ok := got.([]any)
		if !ok {
			return fmt.Sprintf("%s: wrote array(%d), read %s", path, len(t), typed(got))
		}
		if len(g) != len(t) {
			return fmt.Sprintf("%s: wrote %d elements, read %d", path, len(t), len(g))
		}
		for i := range t {
			if d := equal(t[i], g[i], fmt.Sprintf("%s[%d]", path, i)); d != "" {
				return d
			}
		}
	case map[string]any:
		g, ok := got.(map[string]any)
		if !ok {
			return fmt.Sprintf("%s: wrote object(%d), read %s", path, len(t), typed(got))
		}
		if len(g) != len(t) {
			return fmt.Sprintf("%s: wrote %d members, read %d (%q)", path, len(t), len(g), keysOf(g))
		}
		for k, e := range t {
			ge, has := g[fixStr(k)]
			if !has {
				return fmt.Sprintf("%s: key %q did not come back (read keys %q)", path, k, keysOf(g))
			}
			if d := equal(e, ge, path+"."+k); d != "" {
				return d
			}
		}
	}
	return ""
}

func keysOf(m map[string]any) []string {
	ks := make([]string, 0, len(m))
	for k := range m {
		ks = append(ks, k)
	}
	return ks
}

func typed(v any) string {
	switch t := v.(type) {
	case nil:
		return "null"
	case string:
		return fmt.Sprintf("string %q", t)
	case json.Number:
		return fmt.Sprintf("json.Number %q", string(t))
	case []any:
		return fmt.Sprintf("array(%d) %s", len(t), clip(treegen.Show(v)))
	case map[string]any:
		return fmt.Sprintf("object(%d) %s", len(t), clip(treegen.Show(v)))
	}
	return fmt.Sprintf("%T %v", v, v)
}

func clip(s string) string {
	if len(s) > 160 {
		return s[:160] + "…"
	}
	return s
}

type writer struct {
	name string
	f    func(v any, o *ojg.Options, salt int) ([]byte, error)
}

var widths = []int{1, 20, 40, 80, 200}
var depths = []int{1, 2, 3, 9}

var writers = []writer{
	{"sen.String", func(v any, o *ojg.Options, _ int) ([]byte, error) { return []byte(sen.String(v, o)), nil }},
	{"sen.Bytes", func(v any, o *ojg.Options, _ int) ([]byte, error) { return append([]byte{}, sen.Bytes(v, o)...), nil }},
	{"sen.Write", func(v any, o *ojg.Options, salt int) ([]byte, error) {
		o2 := *o
		o2.WriteLimit = []int{1, 2, 3, 5, 8, 17, 64, 1024}[salt%8]
		var b bytes.Buffer
		err := sen.Write(&b, v, &o2)
		return b.Bytes(), err
	}},
	{"sen.Writer.SEN", func(v any, o *ojg.Options, _ int) ([]byte, error) {
		w := sen.Writer{Options: *o}
		return []byte(w.SEN(v)), nil
	}},
	{"sen.Writer.MustSEN", func(v any, o *ojg.Options, _ int) ([]byte, error) {
		w := sen.Writer{Options: *o}
		return append([]byte{}, w.MustSEN(v)...), nil
	}},
	{"sen.Writer.Write", func(v any, o *ojg.Options, salt int) ([]byte, error) {
		o2 := *o
		o2.WriteLimit = []int{1, 2, 3, 5, 8, 17, 64, 1024}[(salt/3)%8]
		w := sen.Writer{Options: o2}
		var b bytes.Buffer
		err := w.Write(&b, v)
		return b.Bytes(), err
	}},
	{"sen.Writer.SEN(after Write)", func(v any, o *ojg.Options, _ int) ([]byte, error) {
		// the same Writer instance right after streaming: the in-memory text must be complete
		w := sen.Writer{Options: *o}
		var sink bytes.Buffer
		if err := w.Write(&sink, v); err != nil {
			return nil, err
		}
		return []byte(w.SEN(v)), nil
	}},
	{"sen.String(pooled, after sen.Write)", func(v any, o *ojg.Options, _ int) ([]byte, error) {
		var sink bytes.Buffer
		if err := sen.Write(&sink, v); err != nil {
			return nil, err
		}
		return []byte(sen.String(v)), nil
	}},
	{"pretty.SEN", func(v any, o *ojg.Options, salt int) ([]byte, error) {
		return []byte(pretty.SEN(v, o, float64(widths[salt%5])+float64(depths[(salt/5)%4])/10, (salt/3)%2 == 0)), nil
	}},
	{"pretty.WriteSEN", func(v any, o *ojg.Options, salt int) ([]byte, error) {
		var b bytes.Buffer
		err := pretty.WriteSEN(&b, v, o, float64(widths[salt%5])+float64(depths[(salt/5)%4])/10, (salt/3)%2 == 0)
		return b.Bytes(), err
	}},
}

type checker struct {
	c     *mon.Ctx
	salt  int
	nread int
}

func optsFor(mask int) *ojg.Options {
	o := &ojg.Options{Tab: mask&1 != 0, Sort: mask&2 != 0, HTMLUnsafe: mask&4 != 0, WriteLimit: 1024, InitSize: 256}
	if mask&8 != 0 {
		o.Indent = 2
	}
	return o
}

// roundTrip writes tree with writer wi under options mask and reads it back.
func (ck *checker) roundTrip(tree any, wi, mask int, cs map[string]any, class string) {
	c := ck.c
	ck.salt++
	w := &writers[wi]
	o := optsFor(mask)
	var text []byte
	var err error
	if p := mon.Guard(func() { text, err = w.f(tree, o, ck.salt) }); p != nil {
		c.Violation(w.name, "panic", mon.FaultClass(p.Msg), cs, "SEN text", p.String())
		return
	}
	c.Eval(1)
	c.Cover("writer:" + w.name)
	full := func() map[string]any {
		m := map[string]any{"text": mon.B(text), "options": fmt.Sprintf("Indent=%d Tab=%v Sort=%v HTMLUnsafe=%v", o.Indent, o.Tab, o.Sort, o.HTMLUnsafe)}
		for k, v := range cs {
			m[k] = v
		}
		return m
	}
	if err != nil {
		c.Violation(w.name, "write-error", class, full(), "SEN text", err.Error())
		return
	}
	var got any
	var perr error
	if p := mon.Guard(func() { var ps sen.Parser; got, perr = ps.Parse(text) }); p != nil {
		c.Violation(w.name, "parse-panic", class, full(), "sen.Parse reads the text back", p.String())
		return
	}
	if perr != nil {
		c.Violation(w.name, "not-parseable", class, full(), "sen.Parse accepts the written text", perr.Error()+" | text: "+clip(string(text)))
		return
	}
	if d := equal(tree, got, "$"); d != "" {
		c.Violation(w.name, "value-changed", class, full(), clip(treegen.Show(tree)), d+" | text: "+clip(string(text)))
		return
	}
	// the same text read back the way a file or a connection is read: through the package-level functions
	// (pooled parser) from a reader that delivers a few bytes at a time, now and then right after a call
	// in callback mode on the same pool
	ck.nread++
	if ck.nread%4 != 0 {
		return
	}
	c.Cover("readback:sen.ParseReader")
	pl := []jsongen.Plan{jsongen.Fixed(1), jsongen.Fixed(3), jsongen.Fixed(7), jsongen.Whole}[(ck.nread/4)%4]
	if p := mon.Guard(func() {
		if ck.nread%12 == 0 {
			_, _ = sen.Parse(text, func(any) bool { return false })
		}
		got, perr = sen.ParseReader(pl.Reader(text))
	}); p != nil {
		c.Violation(w.name, "parse-panic", class+"/reader", full(), "sen.ParseReader reads the text back", p.String())
		return
	}
	c.Eval(1)
	if perr != nil {
		c.Violation(w.name, "not-parseable", class+"/reader", full(), "sen.ParseReader ("+pl.Name+") accepts the written text", perr.Error()+" | text: "+clip(string(text)))
		return
	}
	if d := equal(tree, got, "$"); d != "" {
		c.Violation(w.name, "value-changed", class+"/reader", full(), clip(treegen.Show(tree)), "through sen.ParseReader ("+pl.Name+"): "+d+" | text: "+clip(string(text)))
	}
}

var reserved = []string{"true", "false", "null", "tru", "nul", "fals", "True", "TRUE", "Null", "nil", "t", "f", "n", "truee", "nulll", "0", "1", "-1", "+1", "1.5", "-1.5", "1e5", "1E5", "1e+5", "1e-5", "0x10", "00", "01", "1.", ".5", "-.5", "1e", "e5", "-", "+", "--", "+-", "-a", "+a", "-abc", "+abc", "- 1", "NaN", "Infinity", "-Infinity",
	"//", "/*", "*/", "// c", "/* c */", "a//b", "a/*b", "#", "a b", " a", "a ", "", " ", "a:b", "a,b", "[", "]", "{", "}", "(", ")", "f(x)", "f(", "a+b", "a + b", "\"", "'", "`", "|", "a|b", "a`b", "\\", "\\n", "\n", "\t", "\r", "\x00", "\x7f", "é", "日本", "😀", "\xff", "a\xffb",
	"9223372036854775807", "9223372036854775808", "-9223372036854775808", "12345678901234567890", "1.7976931348623157e308", "1e400", "0.1", "-0", "-0.0", "0e0", "$", "@", "$.a", "@.b", "*", "~", "^", "<", ">", "=", "!", "?", "%", "&", ";", "_", "a_b", "a-b", "a.b", "x[0]", "<html>", "&amp;"}

func run(c *mon.Ctx) {
	ck := &checker{c: c}
	all256 := make([]byte, 256)
	for i := range all256 {
		all256[i] = byte(i)
	}
	nstr := 0
	str := func(x []byte, enum bool) {
		s := string(x)
		nstr++
		c.Begin("sen-roundtrip-string", x)
		if len(s) > 0 {
			if enum {
				c.DistinctEnum(1)
			} else {
				c.Distinct(x)
			}
		}
		cs := map[string]any{"string": mon.B(append([]byte{}, x...))}
		// bare/quoted decision observed on the plain writer
		t := sen.String(s)
		if strings.HasPrefix(t, `"`) || strings.HasPrefix(t, `'`) {
			c.Cover("decision:quoted")
		} else {
			c.Cover("decision:bare")
		}
		if c.WantSample() && len(s) == 3 {
			c.Sample(map[string]any{"string": mon.B(append([]byte{}, x...)), "written_as": t})
		}
		wi := nstr % len(writers)
		mask := (nstr / 3) % 16
		class := strClass(s)
		c.Cover("ctx:top")
		ck.roundTrip(s, wi, mask, with(cs, "context", "top"), "top/"+class)
		c.Cover("ctx:element")
		ck.roundTrip([]any{int64(1), s, "z"}, (wi+1)%len(writers), mask, with(cs, "context", "element"), "element/"+class)
		c.Cover("ctx:key")
		ck.roundTrip(map[string]any{s: int64(1)}, (wi+2)%len(writers), mask, with(cs, "context", "key"), "key/"+class)
		c.Cover("ctx:value")
		ck.roundTrip(map[string]any{"k": s, "z": s}, (wi+3)%len(writers), mask, with(cs, "context", "value"), "value/"+class)
	}
	for n := 0; n <= 2; n++ {
		jsongen.Enum(all256, n, c.Mine, func(x []byte) { str(x, true) })
	}
	for n := 3; n <= c.Pick(3, 4); n++ {
		jsongen.Enum(jsongen.ASen, n, c.Mine, func(x []byte) { str(x, true) })
	}
	for i, s := range reserved {
		if !c.Mine(i) {
			continue
		}
		// every writer and option mask for the reserved spellings
		for wi := range writers {
			for mask := 0; mask < 16; mask += 3 {
				cs := map[string]any{"string": mon.B(s)}
				class := strClass(s)
				ck.roundTrip(s, wi, mask, with(cs, "context", "top"), "top/"+class)
				ck.roundTrip([]any{int64(1), s, "z", s}, wi, mask, with(cs, "context", "element"), "element/"+class)
				ck.roundTrip(map[string]any{s: s}, wi, mask, with(cs, "context", "key"), "key/"+class)
			}
		}
		c.Distinct(s)
	}
	// multi-byte strings by lead byte: every UTF-8 lead byte class, in particular 0xEF (the first byte of a
	// byte order mark), as the first character of strings of 1-3 characters, in the four contexts
	k := 0
	for _, first := range []rune{0x80, 0xe9, 0x7ff, 0x800, 0x20ac, 0xd7ff, 0xe000, 0xf000, 0xfeff, 0xff21, 0xff71, 0xfffd, 0xffff, 0x10000, 0x1f600, 0x10ffff} {
		for _, rest := range []string{"", "x", "ＢＣ", "éz", " y", "»¿"} {
			k++
			if !c.Mine(k) {
				continue
			}
			c.Cover("src:lead-byte-strings")
			str([]byte(string(first)+rest), false)
		}
	}
	// deep nesting: beyond the depth for which the writers have prepared indentation, with members too wide
	// to be written on one line
	for i, depth := range []int{60, 126, 127, 128, 129, 130, 200, 300} {
		if !c.Mine(i) {
			continue
		}
		for _, leafKind := range []string{"pair", "wide", "map"} {
			var v any
			switch leafKind {
			case "pair":
				v = []any{"x", int64(3)}
			case "wide":
				v = []any{strings.Repeat("long string ", 12), int64(3), "y", strings.Repeat("w", 90)}
			default:
				v = map[string]any{"a": "x", "b": int64(3), "c": strings.Repeat("long value ", 12)}
			}
			for d := 0; d < depth; d++ {
				if d%2 == 0 {
					v = []any{v}
				} else {
					v = map[string]any{"k": v}
				}
			}
			c.Cover("src:deep-nesting")
			for wi := range writers {
				for _, mask := range []int{0, 1, 5, 15} {
					ck.roundTrip(v, wi, mask, map[string]any{"tree": fmt.Sprintf("%s leaf under %d alternating containers", leafKind, depth)}, "deep/"+leafKind)
				}
			}
		}
	}
	// numbers
	r := c.Rand("c10")
	for i, n := range treegen.Ints {
		if c.Mine(i) {
			for wi := range writers {
				ck.roundTrip([]any{n, map[string]any{"n": n}}, wi, i%16, map[string]any{"number": fmt.Sprint(n)}, "int")
			}
		}
	}
	for i, f := range treegen.Floats {
		if c.Mine(i) {
			for wi := range writers {
				ck.roundTrip([]any{f, map[string]any{"f": f}}, wi, i%16, map[string]any{"number": strconv.FormatFloat(f, 'g', -1, 64)}, "float")
			}
		}
	}
	// trees
	n := c.Pick(320000, 2400000) / c.Batches
	for i := 0; i < n; i++ {
		// strings of the two pinned open findings (leading sign + token characters, bare keywords) are
		// exercised exhaustively in the four string contexts above; inside generated trees they are
		// avoided so that a tree failure is never attributable to them
		safe := func(r *rand.Rand) string {
			s := treegen.DefaultString(r)
			if s != "" && (s[0] == '+' || s[0] == '-') && bareSafe(s[1:]) || s == "true" || s == "false" || s == "null" {
				s = "s" + s
			}
			return s
		}
		cfg := &treegen.Cfg{MaxDepth: 1 + r.Intn(4), MaxWidth: 1 + r.Intn(5), Keys: safe, Strings: safe}
		if i%3 == 0 {
			cfg.Keys = nil
		}
		tree := cfg.Tree(r)
		if i%25 == 7 {
			// table-like data whose columns hold cells of mixed kinds (the aligned pretty writer)
			tree = cfg.Table(r)
		}
		if i%50 == 3 {
			// a text longer than the default WriteLimit
			big := make([]any, 150+r.Intn(100))
			for k := range big {
				big[k] = fmt.Sprintf("element %d", k)
			}
			tree = map[string]any{"big": big, "t": tree}
		}
		if collide(tree) {
			continue
		}
		c.Begin("sen-roundtrip-tree", treegen.Show(tree))
		c.Cover("src:tree")
		c.Distinct(treegen.Show(tree))
		ck.roundTrip(tree, i%len(writers), (i/8)%16, map[string]any{"tree": clip(treegen.Show(tree))}, "tree")
	}
}

func collide(v any) bool {
	switch t := v.(type) {
	case []any:
		for _, e := range t {
			if collide(e) {
				return true
			}
		}
	case map[string]any:
		seen := map[string]bool{}
		for k, e := range t {
			f := fixStr(k)
			if seen[f] || collide(e) {
				return true
			}
			seen[f] = true
		}
	}
	return false
}

func with(cs map[string]any, k string, v any) map[string]any {
	m := map[string]any{k: v}
	for a, b := range cs {
		m[a] = b
	}
	return m
}

// strClass: first-byte class and a coarse shape, for signatures.
func strClass(s string) string {
	if s == "" {
		return "empty"
	}
	first := jsonref.ByteClass(s[0])
	switch s {
	case "true", "false", "null":
		return "keyword"
	}
	if _, err := strconv.ParseFloat(s, 64); err == nil {
		return "numeric"
	}
	return "first:" + first
}
