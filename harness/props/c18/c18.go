// Package c18: generic and simple forms convert losslessly and copy deeply.
// Oracle: value equality on the harness value model plus the alias detector
// (pointer-identity walk and mutate-after-copy, in both directions).
package c18

import (
	"encoding/json"
	"fmt"
	"math/rand"
	"reflect"
	"regexp"
	"sort"
	"strings"
	"time"

	"github.com/ohler55/ojg"
	"github.com/ohler55/ojg/alt"
	"github.com/ohler55/ojg/gen"
	"github.com/ohler55/ojg/oj"
	"github.com/ohler55/ojg/pretty"
	"github.com/ohler55/ojg/sen"

	"verif/gen/jsongen"
	"verif/gen/treegen"
	"verif/mon"
)

func init() {
	mon.Register(&mon.Prop{
		ID:      "C18",
		Batches: func(tier string) int { return map[string]int{"quick": 16, "thorough": 48}[tier] },
		Run:     run,
		Rule: "cases: all trees with up to 4 nodes over the kind alphabet {nil, bool, int64, float64, string, time.Time, json.Number, []any, map[string]any} (every kind x container shape), generated trees with nested empty containers and nil members, and number/escape-heavy JSON texts; " +
			"Generify->Simplify, GenAlter->Alter, Dup, Decompose (null-keeping options), Node.Dup must preserve the value, also when the data sits in typed Go containers ([]map[string]any, [][]any, []int64, []string, map[string]T) reached by reflection; oj/sen/pretty writers must give identical text for a gen tree and its simple twin; gen.Parser output must equal Generify(oj.Parser output); " +
			"the copying operations must share no map or slice with their input (pointer walk) and mutating every container of either side must not change the other (mutate-after-copy, both directions). the writer twins cover colour, tab, omit options, narrow widths and alignment (21 writer/option pairs). non-trivial: a tree with at least one container; distinct: enumerated trees by construction, others by digest",
		Assumptions: []string{
			"sen's colour writer ends values it decomposes first with NoColor twice (F-C18-sencolor)",
			"the in-place variants Alter and GenAlter are documented to reuse their input and are exempt from the alias check",
			"time.Time is compared by instant under TimeFormat \"time\"; big numbers by text",
			"zero-capacity slices are exempt from the pointer walk (nothing can be written through them)",
		},
		Findings: map[string]func(v *mon.Violation) bool{
			// sen's colour writer ends the values it has to decompose first (json.Number among them) with
			// the NoColor sequence twice (pinned by sen/color_test.go); the gen.Big twin gets it once
			"senColorDoubleNoColor": func(v *mon.Violation) bool {
				if !strings.HasPrefix(v.Entry, "sen.String(color") || v.Kind != "gen-text-differs-from-simple-text" {
					return false
				}
				m, _ := v.Case.(map[string]any)
				eq, _ := m["equal_up_to_repeated_nocolor"].(bool)
				return eq
			},
		},
		Floors: func(tier string, cover map[string]int64, evals int64) []string {
			var out []string
			for _, k := range []string{"op:Generify+Simplify", "op:GenAlter+Alter", "op:alt.Alter", "op:typed-containers", "op:Dup", "op:Decompose", "op:Node.Dup", "op:writers", "op:gen.Parser-vs-Generify", "op:gen.ParseReader-refill-boundary", "alias:pointer-walk", "alias:mutate-copy", "alias:mutate-original", "kind:time", "kind:big", "enumerated-trees"} {
				if cover[k] == 0 {
					out = append(out, "coverage class never reached: "+k)
				}
			}
			return out
		},
		Exhaustive: func(tier string) []string {
			return []string{"all trees with at most 4 nodes over the 9-kind alphabet"}
		},
	})
}

var keep = &ojg.Options{TimeFormat: "time"}

var t0 = time.Date(2021, 6, 28, 10, 11, 12, 123456789, time.UTC)

// show renders a tree (simple or gen) in the value model.
func show(v any) string {
	var sb strings.Builder
	render(&sb, v, 0)
	return sb.String()
}

var bigRe = regexp.MustCompile(`N([-+0-9.eE]+)`)

// loose: json.Number is not one of ojg's documented simple types (nil, bool, int64, float64, string,
// time.Time, []any, map[string]any); the operations that produce simple data may hand it back as the
// string with the same digits (gen.Big.Simplify documents that). Generify must still give a gen.Big.
func loose(s string) string { return bigRe.ReplaceAllString(s, `"$1"`) }

func render(sb *strings.Builder, v any, depth int) {
	if depth > 60 {
		sb.WriteString("<deep>")
		return
	}
	switch t := v.(type) {
	case nil:
		sb.WriteString("null")
	case bool:
		fmt.Fprint(sb, t)
	case gen.Bool:
		fmt.Fprint(sb, bool(t))
	case int64:
		fmt.Fprintf(sb, "i%d", t)
	case gen.Int:
		fmt.Fprintf(sb, "i%d", int64(t))
	case float64:
		fmt.Fprintf(sb, "f%v", t)
	case gen.Float:
		fmt.Fprintf(sb, "f%v", float64(t))
	case string:
		fmt.Fprintf(sb, "%q", t)
	case gen.String:
		fmt.Fprintf(sb, "%q", string(t))
	case json.Number:
		fmt.Fprintf(sb, "N%s", string(t))
	case gen.Big:
		fmt.Fprintf(sb, "N%s", string(t))
	case time.Time:
		fmt.Fprintf(sb, "T%d", t.UnixNano())
	case gen.Time:
		fmt.Fprintf(sb, "T%d", time.Time(t).UnixNano())
	case []any:
		sb.WriteByte('[')
		for i, e := range t {
			if i > 0 {
				sb.WriteByte(',')
			}
			render(sb, e, depth+1)
		}
		sb.WriteByte(']')
	case gen.Array:
		sb.WriteByte('[')
		for i, e := range t {
			if i > 0 {
				sb.WriteByte(',')
			}
			render(sb, e, depth+1)
		}
		sb.WriteByte(']')
	case map[string]any:
		keys := make([]string, 0, len(t))
		for k := range t {
			keys = append(keys, k)
		}
		sort.Strings(keys)
		sb.WriteByte('{')
		for i, k := range keys {
			if i > 0 {
				sb.WriteByte(',')
			}
			fmt.Fprintf(sb, "%q:", k)
			render(sb, t[k], depth+1)
		}
		sb.WriteByte('}')
	case gen.Object:
		keys := make([]string, 0, len(t))
		for k := range t {
			keys = append(keys, k)
		}
		sort.Strings(keys)
		sb.WriteByte('{')
		for i, k := range keys {
			if i > 0 {
				sb.WriteByte(',')
			}
			fmt.Fprintf(sb, "%q:", k)
			render(sb, t[k], depth+1)
		}
		sb.WriteByte('}')
	default:
		fmt.Fprintf(sb, "<%T %v>", v, v)
	}
}

// ptrs collects the identity of every map and every slice with capacity.
func ptrs(v any, out map[uintptr]string, path string) {
	rv := reflect.ValueOf(v)
	switch rv.Kind() {
	case reflect.Map:
		out[rv.Pointer()] = path
		it := rv.MapRange()
		for it.Next() {
			ptrs(it.Value().Interface(), out, path+"."+it.Key().String())
		}
	case reflect.Slice:
		if rv.Cap() > 0 {
			out[rv.Pointer()] = path
		}
		for i := 0; i < rv.Len(); i++ {
			ptrs(rv.Index(i).Interface(), out, fmt.Sprintf("%s[%d]", path, i))
		}
	}
}

func shares(a, b any) string {
	pa, pb := map[uintptr]string{}, map[uintptr]string{}
	ptrs(a, pa, "$")
	ptrs(b, pb, "$")
	for p, w := range pa {
		if w2, ok := pb[p]; ok {
			return w + " is the same object as " + w2
		}
	}
	return ""
}

// scramble mutates every container of v in place (overwrites elements, adds
// and removes members).
func scramble(v any) {
	switch t := v.(type) {
	case []any:
		for i := range t {
			scramble(t[i])
			t[i] = "SCRAMBLED"
		}
	case map[string]any:
		for k, e := range t {
			scramble(e)
			t[k] = "SCRAMBLED"
		}
		t["__added"] = int64(1)
	case gen.Array:
		for i := range t {
			scramble(t[i])
			t[i] = gen.String("SCRAMBLED")
		}
	case gen.Object:
		for k, e := range t {
			scramble(e)
			t[k] = gen.String("SCRAMBLED")
		}
		t["__added"] = gen.Int(1)
	}
}

func dupAny(v any) any {
	switch t := v.(type) {
	case []any:
		a := make([]any, len(t), len(t)+1)
		for i, e := range t {
			a[i] = dupAny(e)
		}
		return a
	case map[string]any:
		m := make(map[string]any, len(t))
		for k, e := range t {
			m[k] = dupAny(e)
		}
		return m
	}
	return v
}

type checker struct{ c *mon.Ctx }

func clip(s string) string {
	if len(s) > 300 {
		return s[:300] + "…"
	}
	return s
}

// copyOp checks one copying operation: value preserved, no sharing, mutation
// independence in both directions. make must return a fresh copy each call.
func (ck *checker) copyOp(name string, v any, s0 string, apply func(in any) any, cs map[string]any) {
	c := ck.c
	c.Cover("op:" + name)
	in := dupAny(v)
	var out any
	if pn := mon.Guard(func() { out = apply(in) }); pn != nil {
		c.Violation("alt."+name, "panic", mon.FaultClass(pn.Msg), cs, "copy", pn.String())
		return
	}
	c.Eval(1)
	if got := show(out); got != s0 && (name == "Generify" || loose(got) != loose(s0)) {
		c.Violation("alt."+name, "value-changed", kindClass(s0, got), cs, clip(s0), clip(got))
		return
	}
	if got := show(in); got != s0 {
		c.Violation("alt."+name, "input-changed-by-copy", "", cs, clip(s0), clip(got))
		return
	}
	c.Cover("alias:pointer-walk")
	if sh := shares(in, out); sh != "" {
		c.Violation("alt."+name, "shares-mutable-state", "pointer", cs, "no map or slice in common", sh)
		return
	}
	// mutate the copy, the input must stay
	c.Cover("alias:mutate-copy")
	scramble(out)
	if got := show(in); got != s0 {
		c.Violation("alt."+name, "shares-mutable-state", "mutate-copy", cs, clip(s0), "after mutating the copy the input is "+clip(got))
		return
	}
	// mutate the input, a second copy must stay
	in2 := dupAny(v)
	var out2 any
	if pn := mon.Guard(func() { out2 = apply(in2) }); pn != nil {
		return
	}
	c.Cover("alias:mutate-original")
	scramble(in2)
	if got := show(out2); got != s0 && (name == "Generify" || loose(got) != loose(s0)) {
		c.Violation("alt."+name, "shares-mutable-state", "mutate-original", cs, clip(s0), "after mutating the input the copy is "+clip(got))
	}
}

func kindClass(want, got string) string {
	for _, k := range []string{"N", "T", "f", "i"} {
		if strings.Contains(want, k) && !strings.Contains(got, k) {
			return "lost:" + k
		}
	}
	return "other"
}

func (ck *checker) tree(v any, enum bool) {
	c := ck.c
	s0 := show(v)
	cs := map[string]any{"tree": clip(s0)}
	c.Begin("conversions", cs)
	if strings.ContainsAny(s0, "[{") {
		if enum {
			c.DistinctEnum(1)
		} else {
			c.Distinct(s0)
		}
	}
	if strings.Contains(s0, "T") {
		c.Cover("kind:time")
	}
	if strings.Contains(s0, "N") {
		c.Cover("kind:big")
	}
	if c.WantSample() && len(s0) > 20 {
		c.Sample(cs)
	}
	ck.copyOp("Dup", v, s0, func(in any) any { return alt.Dup(in, keep) }, cs)
	ck.copyOp("Decompose", v, s0, func(in any) any { return alt.Decompose(in, keep) }, cs)
	ck.copyOp("Generify+Simplify", v, s0, func(in any) any {
		g := alt.Generify(in, keep)
		if g == nil {
			return nil
		}
		return g.Simplify()
	}, cs)
	ck.copyOp("Generify", v, s0, func(in any) any {
		g := alt.Generify(in, keep)
		if g == nil { // a nil gen.Node in an any is not a nil any
			return nil
		}
		return g
	}, cs)
	// Node.Dup
	var g gen.Node
	if pn := mon.Guard(func() { g = alt.Generify(dupAny(v), keep) }); pn == nil && g != nil {
		c.Cover("op:Node.Dup")
		var g2 gen.Node
		if pn := mon.Guard(func() { g2 = g.Dup() }); pn != nil {
			c.Violation("gen.Node.Dup", "panic", mon.FaultClass(pn.Msg), cs, "copy", pn.String())
		} else {
			c.Eval(1)
			switch {
			case show(g2) != show(g):
				c.Violation("gen.Node.Dup", "value-changed", "", cs, clip(show(g)), clip(show(g2)))
			case shares(g, g2) != "":
				c.Violation("gen.Node.Dup", "shares-mutable-state", "pointer", cs, "no map or slice in common", shares(g, g2))
			default:
				sg := show(g)
				scramble(g2)
				if show(g) != sg {
					c.Violation("gen.Node.Dup", "shares-mutable-state", "mutate-copy", cs, clip(sg), clip(show(g)))
				}
			}
		}
		// writers: identical text for the gen tree and the simple twin
		c.Cover("op:writers")
		g = alt.Generify(dupAny(v), keep)
		o := &ojg.Options{Sort: true, TimeFormat: time.RFC3339Nano}
		for _, w := range []struct {
			name string
			f    func(x any) string
		}{
			{"oj.JSON", func(x any) string { return oj.JSON(x, o) }},
			{"oj.JSON(indent)", func(x any) string {
				return oj.JSON(x, &ojg.Options{Sort: true, Indent: 2, TimeFormat: time.RFC3339Nano})
			}},
			{"sen.String", func(x any) string { return sen.String(x, o) }},
			{"pretty.JSON", func(x any) string { return pretty.JSON(x, o) }},
			{"pretty.SEN", func(x any) string { return pretty.SEN(x, o, 20.2) }},
			// option combinations that have twin code paths for gen and simple trees (colour, tab, omit,
			// width and alignment of the pretty writer)
			{"oj.JSON(color)", func(x any) string { return oj.JSON(x, colorOpts(0)) }},
			{"oj.JSON(color,indent)", func(x any) string { return oj.JSON(x, colorOpts(2)) }},
			{"oj.JSON(tab)", func(x any) string {
				return oj.JSON(x, &ojg.Options{Sort: true, Tab: true, TimeFormat: time.RFC3339Nano})
			}},
			{"oj.JSON(omitnil)", func(x any) string {
				return oj.JSON(x, &ojg.Options{Sort: true, OmitNil: true, TimeFormat: time.RFC3339Nano})
			}},
			{"oj.JSON(omitempty,indent)", func(x any) string {
				return oj.JSON(x, &ojg.Options{Sort: true, OmitEmpty: true, Indent: 1, TimeFormat: time.RFC3339Nano})
			}},
			{"sen.String(indent)", func(x any) string {
				return sen.String(x, &ojg.Options{Sort: true, Indent: 2, TimeFormat: time.RFC3339Nano})
			}},
			{"sen.String(color)", func(x any) string { return sen.String(x, colorOpts(0)) }},
			{"sen.String(color,tab)", func(x any) string { o := colorOpts(0); o.Tab = true; return sen.String(x, o) }},
			{"sen.String(omitempty)", func(x any) string {
				return sen.String(x, &ojg.Options{Sort: true, OmitEmpty: true, TimeFormat: time.RFC3339Nano})
			}},
			{"pretty.JSON(color)", func(x any) string { return pretty.JSON(x, colorOpts(0), 30.2) }},
			{"pretty.JSON(align)", func(x any) string { return pretty.JSON(x, o, 40.3, true) }},
			{"pretty.JSON(narrow)", func(x any) string { return pretty.JSON(x, o, 12.1) }},
			{"pretty.SEN(color)", func(x any) string { return pretty.SEN(x, colorOpts(0), 24.2) }},
			{"pretty.SEN(align)", func(x any) string { return pretty.SEN(x, o, 40.3, true) }},
			{"pretty.SEN(color,align)", func(x any) string { return pretty.SEN(x, colorOpts(0), 36.2, true) }},
			{"pretty.JSON(omitnil)", func(x any) string {
				return pretty.JSON(x, &ojg.Options{Sort: true, OmitNil: true, TimeFormat: time.RFC3339Nano}, 28.2)
			}},
		} {
			var a, b string
			if pn := mon.Guard(func() { a, b = w.f(g), w.f(v) }); pn != nil {
				c.Violation(w.name, "panic", mon.FaultClass(pn.Msg), cs, "text", pn.String())
				continue
			}
			c.Eval(2)
			if a != b {
				cs2 := cs
				if strings.HasPrefix(w.name, "sen.String(color") {
					collapse := func(t string) string {
						for strings.Contains(t, "</></>") {
							t = strings.ReplaceAll(t, "</></>", "</>")
						}
						return t
					}
					cs2 = map[string]any{"equal_up_to_repeated_nocolor": collapse(a) == collapse(b)}
					for k, x := range cs {
						cs2[k] = x
					}
				}
				c.Violation(w.name, "gen-text-differs-from-simple-text", "", cs2, clip(b), clip(a))
			}
		}
	}
	// GenAlter -> Alter (in place, exempt from alias checks): value only
	c.Cover("op:GenAlter+Alter")
	var al any
	if pn := mon.Guard(func() {
		ga := alt.GenAlter(dupAny(v), keep)
		if ga != nil {
			al = ga.Alter()
		}
	}); pn != nil {
		c.Violation("alt.GenAlter+Alter", "panic", mon.FaultClass(pn.Msg), cs, "value", pn.String())
	} else {
		c.Eval(1)
		if got := show(al); loose(got) != loose(s0) {
			c.Violation("alt.GenAlter+Alter", "value-changed", kindClass(s0, got), cs, clip(s0), clip(got))
		}
	}
	ck.typedRoutes(v, s0, cs)
	// alt.Alter on simple data (in place, exempt from alias checks): the value is kept, also when the data
	// holds the narrower Go number types Alter exists to widen
	c.Cover("op:alt.Alter")
	var aa any
	if pn := mon.Guard(func() { aa = alt.Alter(dupAny(v), keep) }); pn != nil {
		c.Violation("alt.Alter", "panic", mon.FaultClass(pn.Msg), cs, "value", pn.String())
	} else {
		c.Eval(1)
		if got := show(aa); loose(got) != loose(s0) {
			c.Violation("alt.Alter", "value-changed", kindClass(s0, got), cs, clip(s0), clip(got))
		}
	}
	if pn := mon.Guard(func() { aa = alt.Alter(narrow(dupAny(v)), keep) }); pn != nil {
		c.Violation("alt.Alter(narrow numbers)", "panic", mon.FaultClass(pn.Msg), cs, "value", pn.String())
	} else {
		c.Eval(1)
		if got := show(aa); loose(got) != loose(s0) {
			c.Violation("alt.Alter(narrow numbers)", "value-changed", kindClass(s0, got), cs, clip(s0), clip(got))
		}
	}
}

// typedRoutes: the same conversions on the data held in typed Go containers ([]map[string]any, [][]any,
// []int64, []string, map[string]map[string]any, ...), the way Go programs commonly hold JSON-like data. The
// converters reach those through reflection; the value must come out the same as for the untyped twin.
func (ck *checker) typedRoutes(v any, s0 string, cs map[string]any) {
	c := ck.c
	changed := false
	tv := typed(dupAny(v), &changed)
	if !changed {
		return
	}
	c.Cover("op:typed-containers")
	for _, op := range []struct {
		name string
		f    func(in any) any
	}{
		{"Generify(typed containers)", func(in any) any {
			if g := alt.Generify(in, keep); g != nil {
				return g
			}
			return nil
		}},
		{"GenAlter+Alter(typed containers)", func(in any) any {
			if g := alt.GenAlter(in, keep); g != nil {
				return g.Alter()
			}
			return nil
		}},
		{"Decompose(typed containers)", func(in any) any { return alt.Decompose(in, keep) }},
		{"Alter(typed containers)", func(in any) any { return alt.Alter(in, keep) }},
	} {
		var out any
		in := tv
		if op.name != "Decompose(typed containers)" && op.name != "Generify(typed containers)" {
			in = typed(dupAny(v), &changed)
		}
		if pn := mon.Guard(func() { out = op.f(in) }); pn != nil {
			c.Violation("alt."+op.name, "panic", mon.FaultClass(pn.Msg), cs, "value", pn.String())
			continue
		}
		c.Eval(1)
		if got := show(out); got != s0 && (strings.HasPrefix(op.name, "Generify") || loose(got) != loose(s0)) {
			c.Violation("alt."+op.name, "value-changed", kindClass(s0, got), cs, clip(s0), clip(got))
		}
	}
}

// typed rebuilds v with homogeneous containers replaced by typed Go containers; *changed reports whether
// any was.
func typed(v any, changed *bool) any {
	switch t := v.(type) {
	case []any:
		for i := range t {
			t[i] = typed(t[i], changed)
		}
		if len(t) == 0 {
			return t
		}
		switch t[0].(type) {
		case map[string]any:
			if out, ok := sliceOf[map[string]any](t); ok {
				*changed = true
				return out
			}
		case []any:
			if out, ok := sliceOf[[]any](t); ok {
				*changed = true
				return out
			}
		case int64:
			if out, ok := sliceOf[int64](t); ok {
				*changed = true
				return out
			}
		case string:
			if out, ok := sliceOf[string](t); ok {
				*changed = true
				return out
			}
		case float64:
			if out, ok := sliceOf[float64](t); ok {
				*changed = true
				return out
			}
		case bool:
			if out, ok := sliceOf[bool](t); ok {
				*changed = true
				return out
			}
		}
	case map[string]any:
		var first any
		for k := range t {
			t[k] = typed(t[k], changed)
			first = t[k]
		}
		switch first.(type) {
		case map[string]any:
			if out, ok := mapOf[map[string]any](t); ok {
				*changed = true
				return out
			}
		case []any:
			if out, ok := mapOf[[]any](t); ok {
				*changed = true
				return out
			}
		case int64:
			if out, ok := mapOf[int64](t); ok {
				*changed = true
				return out
			}
		case string:
			if out, ok := mapOf[string](t); ok {
				*changed = true
				return out
			}
		}
	}
	return v
}

func sliceOf[T any](a []any) ([]T, bool) {
	out := make([]T, len(a))
	for i, e := range a {
		x, ok := e.(T)
		if !ok {
			return nil, false
		}
		out[i] = x
	}
	return out, true
}

func mapOf[T any](m map[string]any) (map[string]T, bool) {
	out := make(map[string]T, len(m))
	for k, e := range m {
		x, ok := e.(T)
		if !ok {
			return nil, false
		}
		out[k] = x
	}
	return out, true
}

// narrow replaces small int64 leaves by int / int32 / uint8 and floats that fit by float32 (values that are
// exactly representable), the types alt.Alter and alt.Decompose widen back.
func narrow(v any) any {
	switch t := v.(type) {
	case []any:
		for i := range t {
			t[i] = narrow(t[i])
		}
	case map[string]any:
		for k := range t {
			t[k] = narrow(t[k])
		}
	case int64:
		switch {
		case t >= 0 && t < 200 && t%3 == 0:
			return uint8(t)
		case t > -1000 && t < 1000 && t%3 == 1:
			return int32(t)
		case t > -1<<40 && t < 1<<40:
			return int(t)
		}
	case float64:
		if f := float32(t); float64(f) == t && t < 1e6 && t > -1e6 && t != 0 { // not -0: the widening drops the sign of a zero
			return f
		}
	}
	return v
}

var leafKinds = []any{nil, true, int64(7), 2.5, "s", t0, json.Number("123456789012345678901234567890")}

// enumerate all trees with exactly n nodes.
func enumerate(n int, f func(any)) {
	if n == 1 {
		for _, l := range leafKinds {
			f(l)
		}
		f([]any{})
		f(map[string]any{})
		return
	}
	// a container with children whose sizes sum to n-1
	var parts func(left int, cur []int, g func([]int))
	parts = func(left int, cur []int, g func([]int)) {
		if left == 0 {
			g(cur)
			return
		}
		for k := 1; k <= left; k++ {
			parts(left-k, append(append([]int{}, cur...), k), g)
		}
	}
	parts(n-1, nil, func(sizes []int) {
		var build func(i int, kids []any)
		build = func(i int, kids []any) {
			if i == len(sizes) {
				a := append([]any{}, kids...)
				f(a)
				m := map[string]any{}
				for j, k := range kids {
					m[string(rune('a'+j))] = k
				}
				f(m)
				return
			}
			enumerate(sizes[i], func(k any) { build(i+1, append(append([]any{}, kids...), k)) })
		}
		build(0, nil)
	})
}

func run(c *mon.Ctx) {
	ck := &checker{c: c}
	idx := 0
	for n := 1; n <= c.Pick(4, 5); n++ {
		enumerate(n, func(v any) {
			idx++
			if !c.Mine(idx) {
				return
			}
			c.Cover("enumerated-trees")
			ck.tree(v, true)
		})
	}
	r := c.Rand("c18")
	cfg := &treegen.Cfg{MaxDepth: 4, MaxWidth: 4}
	n := c.Pick(800000, 8000000) / c.Batches
	for i := 0; i < n; i++ {
		cfg.MaxDepth = 1 + r.Intn(5)
		v := cfg.Tree(r)
		if i%3 == 0 {
			v = sprinkle(r, v)
		}
		ck.tree(v, false)
	}
	// gen.Parser output vs Generify(oj.Parser output)
	g := jsongen.New(r, jsongen.Style{MaxDepth: 3, MaxWidth: 4, WS: 1, Escapes: 0.2, DupKeys: true, Surr: true, BigNums: true})
	texts := []string{`[1,2.5,"a",null,true,{"a":[]}]`, `[123456789012345678901234567890, 1e400, 0.1e-400, 1.0, -0.0, 2.000, 1e0]`, `{"a":{"b":[1,{"c":null}]}}`, `9223372036854775807`, `[9223372036854775808,-9223372036854775808,0.30000000000000004]`}
	for i := 0; i < c.Pick(40000, 400000)/c.Batches; i++ {
		texts = append(texts, g.Text())
	}
	for _, src := range texts {
		c.Begin("gen.Parser vs Generify", src)
		c.Cover("op:gen.Parser-vs-Generify")
		var gp gen.Parser
		var op oj.Parser
		n1, e1 := gp.Parse([]byte(src))
		v, e2 := op.Parse([]byte(src))
		c.Eval(2)
		if (e1 != nil) != (e2 != nil) {
			continue // C03
		}
		if e1 != nil {
			continue
		}
		var g2 gen.Node
		if pn := mon.Guard(func() { g2 = alt.Generify(v, keep) }); pn != nil {
			c.Violation("alt.Generify", "panic", mon.FaultClass(pn.Msg), map[string]any{"text": mon.B(src)}, "node", pn.String())
			continue
		}
		if a, b := show(n1), show(g2); a != b {
			c.Violation("gen.Parser", "differs-from-Generify(oj.Parser)", kindClass(a, b), map[string]any{"text": mon.B(src)}, clip(b), clip(a))
		}
		c.Distinct(src)
	}
	// read-buffer boundaries of gen.Parser.ParseReader: a string (key or value, plain or escaped, after an
	// escaped string or not) whose opening quote, body or closing quote lands on each offset around the
	// 4096-byte refill points
	bi := 0
	for _, first := range []string{`"plain"`, `"esc\tape"`, `"\u00e9x"`} {
		for _, target := range []string{`"target"`, `"t\n2"`, `{"key":1}`, `{"k\\y":"v"}`, `12345.5e2`, `true`} {
			for _, refill := range []int{4096, 8192} {
				for d := -12; d <= 3; d++ {
					bi++
					if !c.Mine(bi) {
						continue
					}
					head := "[" + first + ","
					pad := refill + d - len(head)
					doc := head + strings.Repeat(" ", pad) + target + "," + first + "," + target + "]"
					c.Begin("gen.Parser.ParseReader vs Generify", doc)
					c.Cover("op:gen.ParseReader-refill-boundary")
					var gp gen.Parser
					var op oj.Parser
					var n1 gen.Node
					var v any
					var e1, e2 error
					if pn := mon.Guard(func() {
						n1, e1 = gp.ParseReader(strings.NewReader(doc))
						v, e2 = op.Parse([]byte(doc))
					}); pn != nil {
						c.Violation("gen.Parser.ParseReader", "panic", "refill-boundary/"+mon.FaultClass(pn.Msg), map[string]any{"text": mon.B(doc)}, "a node", pn.String())
						continue
					}
					c.Eval(2)
					if e1 != nil || e2 != nil {
						c.Violation("gen.Parser.ParseReader", "error-on-valid-document", "refill-boundary", map[string]any{"text": mon.B(doc)}, "no error", fmt.Sprint(e1, e2))
						continue
					}
					g2 := alt.Generify(v, keep)
					if a, b := show(n1), show(g2); a != b {
						c.Violation("gen.Parser.ParseReader", "differs-from-Generify(oj.Parser)", "refill-boundary", map[string]any{"text": mon.B(doc)}, clip(b), clip(a))
					}
					c.Distinct(doc)
				}
			}
		}
	}
}

// sprinkle adds time and big-number leaves and nested empties.
func sprinkle(r *rand.Rand, v any) any {
	switch t := v.(type) {
	case []any:
		for i := range t {
			t[i] = sprinkle(r, t[i])
		}
		if r.Intn(3) == 0 {
			t = append(t, []any{[]any{}, map[string]any{}}, nil)
		}
		return t
	case map[string]any:
		for k := range t {
			t[k] = sprinkle(r, t[k])
		}
		if r.Intn(3) == 0 {
			t["when"] = t0.Add(time.Duration(r.Intn(1e9)))
			t["big"] = json.Number("9876543210987654321098765432.5e10")
			t["nil"] = nil
		}
		return t
	}
	switch r.Intn(6) {
	case 0:
		return t0.Add(time.Duration(r.Int63n(1e15)))
	case 1:
		return json.Number("123456789012345678901234567890")
	}
	return v
}

// colorOpts are sorted options with visible colour markers.
func colorOpts(indent int) *ojg.Options {
	return &ojg.Options{Sort: true, Indent: indent, TimeFormat: time.RFC3339Nano, Color: true,
		SyntaxColor: "<s>", KeyColor: "<k>", NullColor: "<n>", BoolColor: "<b>", NumberColor: "<d>", StringColor: "<q>", TimeColor: "<t>", NoColor: "</>"}
}
