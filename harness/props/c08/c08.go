// Package c08: concurrent use of package-level APIs and shared paths is safe.
// Oracle: the Go race detector (race build, reports parsed from its log files
// by the driver), a sequentially computed table of expected results for every
// call, and returned-buffer stability (digest at return, yield, digest again).
package c08

import (
	"bytes"
	"fmt"
	"hash/fnv"
	"os"
	"reflect"
	"runtime"
	"sort"
	"strings"
	"sync"
	"sync/atomic"
	"time"
	"unsafe"

	"github.com/ohler55/ojg"
	"github.com/ohler55/ojg/alt"
	"github.com/ohler55/ojg/gen"
	"github.com/ohler55/ojg/jp"
	"github.com/ohler55/ojg/oj"
	"github.com/ohler55/ojg/pretty"
	"github.com/ohler55/ojg/sen"

	"verif/gen/treegen"
	"verif/mon"
)

func init() {
	mon.Register(&mon.Prop{
		ID:          "C08",
		Batches:     func(tier string) int { return map[string]int{"quick": 6, "thorough": 16}[tier] },
		Race:        true,
		RaceBatches: func(tier string) int { return map[string]int{"quick": 6, "thorough": 30}[tier] },
		Run:         run,
		Parallel:    4,
		WallLimit:   func(tier string) int { return 1500 },
		Rule: "cases: N in {4,16,64} goroutines (more goroutines than Ps, so pool slots and struct-info caches are shared) each running a seeded sequence of calls drawn from the package-level parse/validate/tokenize/write/marshal/pretty functions of oj and sen, " +
			"alt.Decompose/Generify/Dup, shared jp.Expr/Filter/Script values doing Get/First/Has/Locate/Walk/Set/Del/Modify/Remove on goroutine-private data, struct encoding of reflect.StructOf types first seen during the run, and Recompose/Unmarshal into types registered in a warm-up phase. " +
			"The same workload runs (a) under the race detector (race children; every report with an ojg frame is a violation, de-duplicated by the pair of innermost ojg frames) and (b) at full speed; in both, every call's result is compared with a table computed sequentially beforehand and every returned buffer is digested at return and again after yielding. " +
			"buffers returned to a caller are kept and re-inspected after later calls of the same goroutine and at the end of the run; one Marshal op produces outputs beyond the pooled writers' initial capacity. non-trivial: every (goroutine, call) execution that ran concurrently with at least one other goroutine; distinct: (operation, input index) pairs and observed pool hand-off fingerprints are counted",
		Assumptions: []string{
			"the race build is made with -gcflags=all=-d=checkptr=0 (checkptr aborts on ojg's struct-field pointer arithmetic for every struct and would mask everything else)",
			"types are registered with the recomposer in a warm-up phase, as the statement says; configuration functions (RegisterUnaryFunction, asm.Define, option variables) are not run concurrently",
			"a race report without any ojg frame would be a harness defect and makes the run inconclusive",
		},
		Findings: map[string]func(v *mon.Violation) bool{},
		Floors: func(tier string, cover map[string]int64, evals int64) []string {
			var out []string
			if cover["cross-goroutine-pool-reuse"] < 100 {
				out = append(out, fmt.Sprintf("only %d pooled instances were seen by more than one goroutine (floor 100)", cover["cross-goroutine-pool-reuse"]))
			}
			for _, k := range []string{"race-children-completed", "struct-types-first-seen-concurrently", "op:sen.Bytes", "op:oj.Marshal", "op:jp.shared", "op:recompose"} {
				if cover[k] == 0 {
					out = append(out, "coverage class never reached: "+k)
				}
			}
			if cover["race-report-without-ojg-frame"] > 0 {
				out = append(out, "race report without an ojg frame (harness race)")
			}
			return out
		},
	})
}

type S1 struct {
	A int
	B string `json:"b,omitempty"`
	C []int
	D map[string]*S2
	E any
}
type S2 struct {
	X float64
	Y *S1
}

// Types reachable only through a field of a registered type: registering T3 beforehand must make all of
// them usable concurrently (the statement: "a recomposer whose types were registered beforehand").
type T3 struct {
	M  map[string]T4
	L  []T5
	P  *T6
	A  [2]T7
	MP map[string]*T8
	LL [][]T9
}
type T4 struct{ V int }
type T5 struct{ V int }
type T6 struct{ V int }
type T7 struct{ V int }
type T8 struct{ V int }
type T9 struct{ V int }

var bigList []any

type op struct {
	name string
	// f runs the call on input index i; data is private to the calling goroutine
	f func(w *worker, i int) string
}

type worker struct {
	g    int
	c    *mon.Ctx
	bufs int64
	kept []keptBuf // buffers returned by earlier calls of this goroutine, re-inspected after later calls
}

type keptBuf struct {
	name string
	b    []byte
	d    uint64
	cp   string
	i    int
}

// recheck inspects the buffers returned earlier: nobody else's call (and no later call of this goroutine)
// may have written into them.
func (w *worker) recheck() {
	for k := range w.kept {
		kb := &w.kept[k]
		if kb.b != nil && digest(kb.b) != kb.d {
			w.c.Violation(kb.name, "returned-buffer-changed-by-a-later-call", "", map[string]any{"input": kb.i, "goroutine": w.g}, clipS(kb.cp), clipS(string(kb.b)))
			kb.b = nil
		}
	}
}

func clipS(s string) string {
	if len(s) > 300 {
		return s[:300] + "..."
	}
	return s
}

type sink struct{ n int }

func (s *sink) Null()         { s.n++ }
func (s *sink) Bool(bool)     { s.n++ }
func (s *sink) Int(int64)     { s.n++ }
func (s *sink) Float(float64) { s.n++ }
func (s *sink) Number(string) { s.n++ }
func (s *sink) String(string) { s.n++ }
func (s *sink) ObjectStart()  { s.n++ }
func (s *sink) ObjectEnd()    { s.n++ }
func (s *sink) Key(string)    { s.n++ }
func (s *sink) ArrayStart()   { s.n++ }
func (s *sink) ArrayEnd()     { s.n++ }

const nInputs = 48

var (
	srcs     [nInputs]string
	sorted   = &ojg.Options{Sort: true}
	sortedW  = &ojg.Options{Sort: true, WriteLimit: 16}
	indent   = &ojg.Options{Sort: true, Indent: 2, OmitNil: true}
	x1       = jp.MustParseString("$.a[?(@.x > 1)].y")
	x2       = jp.MustParseString("$..y")
	x3       = jp.MustParseString("$.a[*].x")
	x4       = jp.MustParseString("$.a[1:3].y")
	x5       = jp.R().C("a").N(-1).C("y")
	x6       = jp.MustParseString("$.a[?(@.y =~ /b/ || length(@.y) > 1)].x")
	xdel     = jp.MustParseString("$.a[1]")
	script   = jp.MustNewScript("(@.x == 2 || @.y =~ /b/)")
	filter   = jp.MustNewFilter("[?(@.x >= 2 && @.x != 3)]")
	rec      *alt.Recomposer
	structs  []reflect.Type
	structs2 []reflect.Type
)

func init() {
	for i := range srcs {
		srcs[i] = fmt.Sprintf(`{"a":[{"x":%d,"y":"a%d"},{"x":2,"y":"b"},{"x":3,"y":[1,2,{"y":%d}]}],"g":[%d,null,true,1.5,"<s>\n"],"s":"%s"}`, i, i, i, i, strings.Repeat("é", i%7))
	}
}

func showS(v any) string { return treegen.Show(simple(v)) }

// simple normalises ints for display
func simple(v any) any {
	switch t := v.(type) {
	case int:
		return int64(t)
	case []any:
		out := make([]any, len(t))
		for i, e := range t {
			out[i] = simple(e)
		}
		return out
	case map[string]any:
		out := make(map[string]any, len(t))
		for k, e := range t {
			out[k] = simple(e)
		}
		return out
	case gen.Node:
		return simple(t.Simplify())
	}
	return v
}

func digest(b []byte) uint64 {
	h := fnv.New64a()
	h.Write(b)
	return h.Sum64()
}

// stable checks that a returned buffer is not written by anybody else.
func (w *worker) stable(name string, b []byte, i int) {
	d := digest(b)
	cp := string(b)
	for k := 0; k < 3; k++ {
		runtime.Gosched()
	}
	atomic.AddInt64(&w.bufs, 1)
	if digest(b) != d {
		w.c.Violation(name, "returned-buffer-changed", "", map[string]any{"input": i, "goroutine": w.g}, cp, string(b))
		return
	}
	// keep it: a pooled writer that handed out its own buffer overwrites it in a LATER call
	w.recheck()
	if len(w.kept) < 8 {
		w.kept = append(w.kept, keptBuf{name, b, d, cp, i})
	} else {
		w.kept[int(atomic.LoadInt64(&w.bufs))%8] = keptBuf{name, b, d, cp, i}
	}
}

func parsed(i int) any {
	v, err := oj.ParseString(srcs[i])
	if err != nil {
		return "ERR " + err.Error()
	}
	return v
}

func ops() []op {
	return []op{
		{"oj.Parse", func(w *worker, i int) string { v, err := oj.Parse([]byte(srcs[i])); return fmt.Sprint(showS(v), err) }},
		{"oj.ParseString", func(w *worker, i int) string { v, err := oj.ParseString(srcs[i]); return fmt.Sprint(showS(v), err) }},
		{"oj.Load", func(w *worker, i int) string {
			v, err := oj.Load(strings.NewReader(srcs[i]))
			return fmt.Sprint(showS(v), err)
		}},
		{"oj.Parse(bad)", func(w *worker, i int) string {
			v, err := oj.Parse([]byte(srcs[i][:len(srcs[i])/2]))
			return fmt.Sprint(showS(v), err)
		}},
		{"oj.Validate", func(w *worker, i int) string { return fmt.Sprint(oj.Validate([]byte(srcs[i]))) }},
		{"oj.Tokenize", func(w *worker, i int) string {
			s := &sink{}
			err := oj.Tokenize([]byte(srcs[i]), s)
			return fmt.Sprint(s.n, err)
		}},
		{"oj.Match", func(w *worker, i int) string {
			var got []string
			err := oj.Match([]byte(srcs[i]), func(p jp.Expr, d any) { got = append(got, p.String()+"="+showS(d)) }, x3)
			return fmt.Sprint(got, err)
		}},
		{"sen.Parse", func(w *worker, i int) string { v, err := sen.Parse([]byte(srcs[i])); return fmt.Sprint(showS(v), err) }},
		{"sen.ParseReader", func(w *worker, i int) string {
			v, err := sen.ParseReader(strings.NewReader(srcs[i]))
			return fmt.Sprint(showS(v), err)
		}},
		{"oj.JSON", func(w *worker, i int) string { return fmt.Sprint(len(oj.JSON(parsed(i)))) }},
		{"oj.JSON(big,pooled)", func(w *worker, i int) string {
			// longer than WriteLimit: a pooled writer that still holds somebody's io.Writer would flush into it
			return oj.JSON(bigList[:300+i])
		}},
		{"sen.String(big,pooled)", func(w *worker, i int) string { return sen.String(bigList[:300+i]) }},
		{"oj.Write(big,pooled)", func(w *worker, i int) string {
			var buf bytes.Buffer
			err := oj.Write(&buf, bigList[:300+i])
			return fmt.Sprint(buf.String(), err)
		}},
		{"alt.Recompose(reachable types)", func(w *worker, i int) string {
			var t T3
			e := map[string]any{"v": int64(i)}
			_, err := alt.Recompose(map[string]any{"m": map[string]any{"k": e}, "l": []any{e}, "p": e, "a": []any{e, e}, "mp": map[string]any{"k": e}, "ll": []any{[]any{e}}}, &t)
			pv := -1
			if t.P != nil {
				pv = t.P.V
			}
			return fmt.Sprint(t.M["k"].V, len(t.L), pv, t.A[1].V, len(t.MP), len(t.LL), err)
		}},
		{"Recomposer.Recompose(reachable types)", func(w *worker, i int) string {
			var t T3
			e := map[string]any{"v": int64(i)}
			_, err := rec.Recompose(map[string]any{"m": map[string]any{"k": e}, "l": []any{e}, "mp": map[string]any{"k": e}}, &t)
			return fmt.Sprint(t.M["k"].V, len(t.L), len(t.MP), err)
		}},
		{"oj.JSON(opts)", func(w *worker, i int) string { return oj.JSON(parsed(i), sorted) }},
		{"oj.JSON(indent)", func(w *worker, i int) string { return oj.JSON(parsed(i), indent) }},
		{"oj.Marshal", func(w *worker, i int) string {
			b, err := oj.Marshal(parsed(i))
			w.stable("oj.Marshal", b, i)
			w.c.Cover("op:oj.Marshal")
			return fmt.Sprint(len(b), err)
		}},
		{"oj.Marshal(large)", func(w *worker, i int) string {
			// an output beyond the initial capacity of the pooled writers (1024): the writer's buffer has
			// been re-allocated by the time it is copied out
			b, err := oj.Marshal([]any{strings.Repeat("m", 1100+i*17), int64(i), []any{"x", nil, 1.5, int64(-i)}})
			w.stable("oj.Marshal(large)", b, i)
			return fmt.Sprint(len(b), digest(b), err)
		}},
		{"oj.Marshal(opts)", func(w *worker, i int) string {
			b, err := oj.Marshal(parsed(i), sorted)
			w.stable("oj.Marshal(opts)", b, i)
			return fmt.Sprint(string(b), err)
		}},
		{"oj.Write", func(w *worker, i int) string {
			var buf bytes.Buffer
			err := oj.Write(&buf, parsed(i), sortedW)
			return fmt.Sprint(buf.String(), err)
		}},
		{"oj.Write(pooled)", func(w *worker, i int) string {
			var buf bytes.Buffer
			err := oj.Write(&buf, []any{int64(i), "x", nil})
			return fmt.Sprint(buf.String(), err)
		}},
		{"sen.String", func(w *worker, i int) string { return sen.String(parsed(i), sorted) }},
		{"sen.String(pooled)", func(w *worker, i int) string {
			return sen.String([]any{int64(i), "a b", map[string]any{"k": int64(i)}})
		}},
		{"sen.Bytes", func(w *worker, i int) string {
			b := sen.Bytes([]any{int64(i), "a b", map[string]any{"k": int64(i)}, strings.Repeat("z", i)})
			w.stable("sen.Bytes", b, i)
			w.c.Cover("op:sen.Bytes")
			return string(b)
		}},
		{"sen.Bytes(opts)", func(w *worker, i int) string {
			b := sen.Bytes(parsed(i), sorted)
			w.stable("sen.Bytes(opts)", b, i)
			return string(b)
		}},
		{"sen.Write", func(w *worker, i int) string {
			var buf bytes.Buffer
			err := sen.Write(&buf, []any{int64(i), "q"})
			return fmt.Sprint(buf.String(), err)
		}},
		{"pretty.JSON", func(w *worker, i int) string { return pretty.JSON(parsed(i), sorted, 40.2) }},
		{"pretty.SEN", func(w *worker, i int) string { return pretty.SEN(parsed(i), sorted, true) }},
		{"alt.Decompose", func(w *worker, i int) string {
			d := alt.Decompose(&S1{A: i, C: []int{1, 2}, D: map[string]*S2{"k": {X: 1.5}}, E: []any{i}})
			return showS(d)
		}},
		{"alt.Generify+Dup", func(w *worker, i int) string {
			v := parsed(i)
			g := alt.Generify(v)
			d := alt.Dup(v)
			return showS(g) + showS(d)
		}},
		{"jp.Get(shared)", func(w *worker, i int) string {
			v := parsed(i)
			w.c.Cover("op:jp.shared")
			return fmt.Sprint(showS(x1.Get(v)), showS(x2.Get(v)), showS(x4.Get(v)), showS(x5.Get(v)), showS(x6.Get(v)))
		}},
		{"jp.Has/First/Locate/Walk(shared)", func(w *worker, i int) string {
			v := parsed(i)
			var walked []string
			x2.Walk(v, func(path jp.Expr, nodes []any) { walked = append(walked, path.String()) })
			return fmt.Sprint(x3.Has(v), showS(x3.First(v)), x2.Locate(v, 0), x1.Locate(v, 1), walked)
		}},
		{"jp.Script.Match(shared)", func(w *worker, i int) string {
			return fmt.Sprint(script.Match(map[string]any{"x": int64(i % 4), "y": "b"}), script.Match(map[string]any{"x": int64(i), "y": "c"}), showS(jp.Expr{jp.Root(0x24), filter}.Get([]any{map[string]any{"x": int64(i % 5)}})))
		}},
		{"jp.Set/Del/Modify/Remove(shared)", func(w *worker, i int) string {
			v := parsed(i)
			e1 := x3.Set(v, int64(i+100))
			e2 := xdel.Del(v)
			_, e3 := x1.Remove(v)
			v2, e4 := x5.Modify(v, func(e any) (any, bool) { return "m", true })
			return fmt.Sprint(showS(v2), e1, e2, e3, e4)
		}},
		{"alt.Recompose", func(w *worker, i int) string {
			var s S1
			_, err := alt.Recompose(map[string]any{"a": int64(i), "c": []any{int64(1), int64(2)}, "d": map[string]any{"k": map[string]any{"x": 2.5}}}, &s)
			w.c.Cover("op:recompose")
			return fmt.Sprint(s.A, s.C, len(s.D), err)
		}},
		{"Recomposer.Recompose", func(w *worker, i int) string {
			var s S2
			_, err := rec.Recompose(map[string]any{"x": 1.5, "y": map[string]any{"a": int64(i)}}, &s)
			a := -1
			if s.Y != nil {
				a = s.Y.A
			}
			return fmt.Sprint(s.X, a, err)
		}},
		{"oj.Unmarshal", func(w *worker, i int) string {
			var u S1
			err := oj.Unmarshal([]byte(fmt.Sprintf(`{"a":%d,"b":"x","c":[1,2,3]}`, i)), &u)
			return fmt.Sprint(u.A, u.B, u.C, err)
		}},
		{"sen.Unmarshal", func(w *worker, i int) string {
			var u S2
			err := sen.Unmarshal([]byte(fmt.Sprintf(`{x:%d.5 y:{a:1 b:q}}`, i)), &u)
			return fmt.Sprint(u.X, u.Y != nil, err)
		}},
		{"struct(encoders)", func(w *worker, i int) string {
			v := &S1{A: i, B: "b", C: []int{i}, D: map[string]*S2{"k": {X: 1, Y: &S1{A: 2}}}}
			return oj.JSON(v, sorted) + sen.String(v, sorted) + pretty.JSON(v, sorted)
		}},
		{"oj.Parse(NumConvString)", func(w *worker, i int) string {
			// an option of one call must not stay with the pooled parser
			v, err := oj.Parse([]byte(srcs[i]), ojg.NumConvString)
			return fmt.Sprint(showS(v), err)
		}},
		{"oj.Load(big number)", func(w *worker, i int) string {
			v, err := oj.Load(strings.NewReader(fmt.Sprintf(`{"id":123456789012345678901234567890,"n":%d,"f":1e400}`, i)))
			return fmt.Sprintf("%T %v %v", v.(map[string]any)["id"], showS(v), err)
		}},
		{"sen.Parse(pending +)", func(w *worker, i int) string {
			// rejected while a string concatenation is pending: the pooled parser goes back with that state
			_, err := sen.Parse([]byte([]string{`["abc" + 1]`, `{msg: "total: " + count}`, `["abc" +`}[i%3]))
			return fmt.Sprint(err != nil)
		}},
		{"sen.ParseReader(strings)", func(w *worker, i int) string {
			v, err := sen.ParseReader(strings.NewReader(fmt.Sprintf(`[a "b%d" "c"]`, i)))
			return fmt.Sprint(showS(v), err)
		}},
		{"struct(new type, indented)", func(w *worker, i int) string {
			// as below, but the first use of the type happens in the indenting encoders
			st := structs2[(i*7+w.g)%len(structs2)]
			sv := reflect.New(st).Elem()
			sv.Field(0).SetInt(int64(i))
			sv.Field(1).SetString("s")
			w.c.Cover("struct-types-first-seen-concurrently-indented")
			a := oj.JSON(sv.Interface(), indent)
			b := sen.String(sv.Addr().Interface(), indent)
			m, _ := oj.Marshal(sv.Addr().Interface(), 2)
			p := pretty.JSON(sv.Interface(), indent)
			return a + b + string(m) + p
		}},
		{"struct(new type)", func(w *worker, i int) string {
			// struct types first seen during the run: the struct-info caches are written while read
			st := structs[(i*7+w.g)%len(structs)]
			sv := reflect.New(st).Elem()
			sv.Field(0).SetInt(int64(i))
			sv.Field(1).SetString("s")
			w.c.Cover("struct-types-first-seen-concurrently")
			a := oj.JSON(sv.Interface(), sorted)
			b := sen.String(sv.Addr().Interface(), sorted)
			m, _ := oj.Marshal(sv.Addr().Interface())
			d := alt.Decompose(sv.Interface())
			return a + b + fmt.Sprint(len(m)) + showS(d)
		}},
	}
}

type poolSeen struct {
	mu sync.Mutex
	m  map[uintptr]int // pool item -> first goroutine (or -1 once seen by several)
	x  int64
}

func (p *poolSeen) note(item any, g int) {
	ptr := (*[2]uintptr)(unsafe.Pointer(&item))[1]
	p.mu.Lock()
	first, ok := p.m[ptr]
	switch {
	case !ok:
		p.m[ptr] = g
	case first >= 0 && first != g:
		p.m[ptr] = -1
		p.x++
	}
	p.mu.Unlock()
}

func run(c *mon.Ctx) {
	race := os.Getenv("VERIF_RACE") == "1"
	// warm-up: registration happens before the concurrent phase
	var s1 S1
	_, _ = alt.Recompose(map[string]any{"a": int64(1)}, &s1)
	rec = alt.MustNewRecomposer("^", map[any]alt.RecomposeFunc{})
	var s2 S2
	_, _ = rec.Recompose(map[string]any{"x": 1.0, "y": map[string]any{"a": int64(1)}}, &s2)
	_, _ = alt.Recompose(map[string]any{"x": 1.0}, &s2)
	// T3 is registered beforehand (with empty data, so nothing below it is recomposed yet)
	var t3 T3
	_, _ = alt.Recompose(map[string]any{}, &t3)
	_, _ = rec.Recompose(map[string]any{}, &t3)
	bigList = make([]any, 400)
	for k := range bigList {
		bigList[k] = int64(1000000 + k)
	}
	structs = nil
	for k := 0; k < 400; k++ {
		structs = append(structs, reflect.StructOf([]reflect.StructField{
			{Name: fmt.Sprintf("F%d_%d", c.Batch, k), Type: reflect.TypeOf(0)},
			{Name: fmt.Sprintf("G%d", k%50), Type: reflect.TypeOf(""), Tag: reflect.StructTag(fmt.Sprintf(`json:"g%d,omitempty"`, k%3))},
			{Name: "P", Type: reflect.TypeOf((*S2)(nil))},
		}))
	}
	structs2 = nil
	for k := 0; k < 400; k++ {
		structs2 = append(structs2, reflect.StructOf([]reflect.StructField{
			{Name: fmt.Sprintf("H%d_%d", c.Batch, k), Type: reflect.TypeOf(0)},
			{Name: fmt.Sprintf("K%d", k%50), Type: reflect.TypeOf(""), Tag: reflect.StructTag(fmt.Sprintf(`json:"k%d,omitempty"`, k%3))},
			{Name: "P", Type: reflect.TypeOf((*S2)(nil))},
			{Name: "L", Type: reflect.TypeOf([]T4(nil))},
		}))
	}
	all := ops()
	// sequential baseline (struct(new type) uses types that are NOT touched here: its baseline is computed per type lazily after the run)
	base := make([][]string, len(all))
	for oi := range all {
		base[oi] = make([]string, nInputs)
	}
	if !race || true {
		for oi, o := range all {
			if strings.HasPrefix(o.name, "struct(new type") || strings.Contains(o.name, "reachable types") {
				continue // these are first used during the concurrent phase; compared afterwards
			}
			w0 := &worker{g: 0, c: c}
			for i := 0; i < nInputs; i++ {
				base[oi][i] = o.f(w0, i)
			}
		}
		// a second sequential pass in the opposite order: "what it returns when run alone" must not
		// depend on which call ran before
		for oi := len(all) - 1; oi >= 0; oi-- {
			o := all[oi]
			if strings.HasPrefix(o.name, "struct(new type") || strings.Contains(o.name, "reachable types") {
				continue
			}
			w0 := &worker{g: 0, c: c}
			for i := nInputs - 1; i >= 0; i-- {
				if r := o.f(w0, i); r != base[oi][i] {
					c.Violation(o.name, "sequential-result-depends-on-history", "", map[string]any{"input": i}, clip(base[oi][i]), clip(r))
				}
			}
		}
	}
	ojP, ojW, ojM := oj.VerifPools()
	senP, senW := sen.VerifPools()
	pools := []*sync.Pool{ojP, ojW, ojM, senP, senW}
	seen := &poolSeen{m: map[uintptr]int{}}
	gs := []int{4, 16, 64}[c.Batch%3]
	calls := c.Pick(4000, 12000)
	if race {
		calls = c.Pick(1200, 3000)
	}
	var wg sync.WaitGroup
	var done int64
	var fp uint64 // fingerprint of the global completion order (a proxy for the interleaving)
	var fpMu sync.Mutex
	type lateCheck struct {
		g, oi, i int
		res      string
	}
	var late []lateCheck
	var lateMu sync.Mutex
	start := time.Now()
	for g := 0; g < gs; g++ {
		wg.Add(1)
		go func(g int) {
			defer wg.Done()
			w := &worker{g: g + 1, c: c}
			r := c.Rand(fmt.Sprint("g", g))
			for k := 0; k < calls; k++ {
				oi := r.Intn(len(all))
				i := r.Intn(nInputs)
				o := all[oi]
				var res string
				if p := mon.Guard(func() { res = o.f(w, i) }); p != nil {
					c.Violation(o.name, "panic-under-concurrency", mon.FaultClass(p.Msg), map[string]any{"input": i, "goroutine": g}, "result", p.String())
					continue
				}
				c.Eval(1)
				if strings.HasPrefix(o.name, "struct(new type") || strings.Contains(o.name, "reachable types") {
					lateMu.Lock()
					late = append(late, lateCheck{w.g, oi, i, res})
					lateMu.Unlock()
				} else if res != base[oi][i] {
					c.Violation(o.name, "differs-from-sequential", "", map[string]any{"input": i, "goroutine": g, "goroutines": gs}, clip(base[oi][i]), clip(res))
				}
				if k%8 == 0 {
					p := pools[k/8%len(pools)]
					it := p.Get()
					seen.note(it, g)
					p.Put(it)
				}
				n := atomic.AddInt64(&done, 1)
				if n%64 == 0 {
					fpMu.Lock()
					fp = fp*1099511628211 ^ uint64(g*131+oi)
					fpMu.Unlock()
				}
			}
			w.recheck()
			c.CoverN("returned-buffers-checked", atomic.LoadInt64(&w.bufs))
		}(g)
	}
	wg.Wait()
	// struct(new type): all goroutines must have produced what a sequential call produces now
	sort.Slice(late, func(a, b int) bool { return late[a].i < late[b].i })
	for _, l := range late {
		w0 := &worker{g: l.g, c: c}
		if want := all[l.oi].f(w0, l.i); want != l.res {
			c.Violation(all[l.oi].name, "differs-from-sequential", "", map[string]any{"input": l.i, "goroutine": l.g}, clip(want), clip(l.res))
		}
	}
	c.DistinctEnum(len(all) * nInputs)
	c.Distinct("interleaving", fp)
	c.CoverN("cross-goroutine-pool-reuse", seen.x)
	c.CoverN(fmt.Sprintf("goroutines:%d", gs), 1)
	c.CoverN("calls", int64(gs*calls))
	if race {
		c.Cover("race-children-completed")
	} else {
		c.Cover("fullspeed-children-completed")
	}
	c.Max("concurrent-phase-seconds", time.Since(start).Seconds())
	c.Sample(map[string]any{"goroutines": gs, "calls_per_goroutine": calls, "race_build": race, "operations": len(all), "interleaving_fingerprint": fmt.Sprintf("%016x", fp), "pool_items_seen_by_several_goroutines": seen.x})
}

func clip(s string) string {
	if len(s) > 400 {
		return s[:400] + "…"
	}
	return s
}
