package c15

import (
	"fmt"
	"math/rand"
	"reflect"
)

// Named types used as embedded and as ordinary field types. Their field names
// are unique across the pool so that flattened embedding never produces a key
// conflict (ojg does not claim encoding/json's conflict rules).

type EmbA struct {
	EaInt int
	EaStr string `json:"ea_str,omitempty"`
	EaPtr *float64
}

type EmbB struct {
	EbList []int
	EbMap  map[string]string
	EbAny  any `json:"eb_any"`
}

// EmbC embeds a value in a value.
type EmbC struct {
	EmbA
	EcFlag bool
}

// EmbD embeds a pointer.
type EmbD struct {
	*EmbB
	EdNum uint16 `json:",omitempty"`
}

type EmbE struct {
	EeBytes []byte
	EeArr   [2]int8
	EeSkip  int `json:"-"`
}

// EmbF has an omitempty field after and before plain ones (the position of
// the tag must not matter).
type EmbF struct {
	EfFirst  int
	EfMiddle string `json:",omitempty"`
	EfLast   uint32
}

// Deep embeds a struct that embeds a pointer that embeds a value.
type Deep struct {
	EmbD
	DpName string `json:"dp_name"`
}

type Leaf struct {
	LeafA int64   `json:"a"`
	LeafB float32 `json:"b,omitempty"`
	LeafC *Leaf   `json:"c,omitempty"`
}

type Holder struct {
	HoLeaf  Leaf
	HoPtr   *Leaf
	HoList  []Leaf
	HoPList []*Leaf
	HoMap   map[string]*Leaf
	HoAny   any
}

// Count and Label are named non-struct types; EmbInt embeds one.
type Count int
type Label string
type Flag bool
type Ratio float64
type Small uint8

type EmbInt struct {
	Count
	EiName Label
}

type inner struct {
	InnerX int
	InnerY string `json:"in_y"`
}

// Outer embeds an unexported struct type whose exported fields are promoted.
type Outer struct {
	inner
	OuterZ bool
}

// Accent has a field whose first letter is an upper case non-ASCII letter.
type Accent struct {
	Été   int
	Plain string
}

var extraNamed = []reflect.Type{reflect.TypeOf(EmbInt{}), reflect.TypeOf(Outer{}), reflect.TypeOf(Accent{})}

// Types that implement the encoding hooks (value and pointer receivers).
type JM struct{ V int }

func (j JM) MarshalJSON() ([]byte, error) { return []byte(fmt.Sprintf(`{"jm":%d}`, j.V)), nil }

type TM struct{ V int }

func (t TM) MarshalText() ([]byte, error) { return []byte(fmt.Sprintf("tm-%d", t.V)), nil }

type SM struct{ V int }

func (s SM) Simplify() any { return map[string]any{"sm": int64(s.V)} }

type PJM struct{ V int }

func (j *PJM) MarshalJSON() ([]byte, error) { return []byte(fmt.Sprintf(`{"pjm":%d}`, j.V)), nil }

type HookHolder struct {
	HookJ  JM
	HookT  TM
	HookS  SM
	HookPJ PJM
	HookPP *PJM
	HookOJ JM `json:"oj,omitempty"`
	HookPT *TM
	HookI  any
	HookN  int
}

var embeddable = []reflect.Type{
	reflect.TypeOf(EmbA{}), reflect.TypeOf(EmbB{}), reflect.TypeOf(EmbC{}), reflect.TypeOf(EmbD{}), reflect.TypeOf(EmbE{}), reflect.TypeOf(EmbF{}), reflect.TypeOf(Deep{}),
}

var namedTypes = []reflect.Type{
	reflect.TypeOf(EmbA{}), reflect.TypeOf(EmbB{}), reflect.TypeOf(EmbC{}), reflect.TypeOf(EmbD{}), reflect.TypeOf(EmbE{}), reflect.TypeOf(EmbF{}), reflect.TypeOf(Deep{}),
	reflect.TypeOf(Leaf{}), reflect.TypeOf(Holder{}),
}

var scalarTypes = []reflect.Type{
	reflect.TypeOf(int(0)), reflect.TypeOf(int8(0)), reflect.TypeOf(int16(0)), reflect.TypeOf(int32(0)), reflect.TypeOf(int64(0)),
	reflect.TypeOf(uint(0)), reflect.TypeOf(uint8(0)), reflect.TypeOf(uint16(0)), reflect.TypeOf(uint32(0)), reflect.TypeOf(uint64(0)),
	reflect.TypeOf(float32(0)), reflect.TypeOf(float64(0)), reflect.TypeOf(""), reflect.TypeOf(true),
	// named scalar types
	reflect.TypeOf(Count(0)), reflect.TypeOf(Label("")), reflect.TypeOf(Flag(false)), reflect.TypeOf(Ratio(0)),
}

var anyType = reflect.TypeOf((*any)(nil)).Elem()
var bytesType = reflect.TypeOf([]byte(nil))

// field names: longer than three letters (ojg lower-cases shorter names
// entirely, which the documentation does not spell out), plus two short ones
// whose tail is lower case already so that both readings agree.
var fieldNames = []string{"Alpha", "Bravo", "Charlie", "Delta", "Echo", "Foxtrot", "Golf", "Hotel", "India", "Juliet", "Ab", "Xyz", "URLs", "URL", "ID", "TTl"}

type typeGen struct {
	r *rand.Rand
}

func (g *typeGen) fieldType(depth int) reflect.Type {
	r := g.r
	k := r.Intn(13)
	if depth <= 0 {
		k = r.Intn(4)
	}
	switch {
	case k < 4:
		return scalarTypes[r.Intn(len(scalarTypes))]
	case k == 4:
		t := g.fieldType(depth - 1)
		if t.Kind() == reflect.Interface || t == bytesType {
			return t // a pointer to an interface or to a []byte is not a shape real code uses
		}
		return reflect.PointerTo(t)
	case k == 5:
		return reflect.SliceOf(g.fieldType(depth - 1))
	case k == 6:
		return reflect.MapOf(reflect.TypeOf(""), g.fieldType(depth-1))
	case k == 7:
		return anyType
	case k == 8:
		return reflect.ArrayOf(1+r.Intn(2), g.fieldType(depth-1))
	case k == 9:
		return bytesType
	case k == 10:
		return namedTypes[r.Intn(len(namedTypes))]
	case k == 11:
		return reflect.PointerTo(namedTypes[r.Intn(len(namedTypes))])
	default:
		return g.structType(depth-1, false)
	}
}

// structType builds an anonymous struct type; embed allows anonymous
// (embedded) fields of the named pool.
func (g *typeGen) structType(depth int, embed bool) reflect.Type {
	r := g.r
	n := 1 + r.Intn(5)
	perm := r.Perm(len(fieldNames))
	var fs []reflect.StructField
	embAt := -1
	var embT reflect.Type
	if embed && r.Intn(2) == 0 {
		embAt = r.Intn(n)
		embT = embeddable[r.Intn(len(embeddable))]
	}
	for i := 0; i < n; i++ {
		if i == embAt {
			t := embT
			if r.Intn(2) == 0 {
				t = reflect.PointerTo(embT)
			}
			// reflect.StructOf requires an embedded field with methods to be first; the pool has none
			fs = append(fs, reflect.StructField{Name: embT.Name(), Type: t, Anonymous: true})
			continue
		}
		f := reflect.StructField{Name: fieldNames[perm[i]], Type: g.fieldType(depth)}
		switch r.Intn(9) {
		case 0:
			f.Tag = reflect.StructTag(fmt.Sprintf(`json:"t%d"`, i))
		case 1:
			f.Tag = reflect.StructTag(fmt.Sprintf(`json:"t%d,omitempty"`, i))
		case 2:
			f.Tag = `json:",omitempty"`
		case 3:
			f.Tag = `json:"-"`
		case 4:
			f.Tag = reflect.StructTag(fmt.Sprintf(`xml:"x%d" json:"t%d"`, i, i))
		case 5:
			// the "string" option: numbers and booleans written as strings
			switch f.Type.Kind() {
			case reflect.Bool, reflect.Int, reflect.Int8, reflect.Int16, reflect.Int32, reflect.Int64, reflect.Uint, reflect.Uint8, reflect.Uint16, reflect.Uint32, reflect.Uint64, reflect.Float32, reflect.Float64:
				switch r.Intn(3) {
				case 0:
					f.Tag = reflect.StructTag(fmt.Sprintf(`json:"t%d,string"`, i))
				case 1:
					f.Tag = reflect.StructTag(fmt.Sprintf(`json:"t%d,omitempty,string"`, i))
				default: // the options in the other order
					f.Tag = reflect.StructTag(fmt.Sprintf(`json:"t%d,string,omitempty"`, i))
				}
			}
		}
		fs = append(fs, f)
	}
	return reflect.StructOf(fs)
}

var f64vals = []float64{0, 1.5, -2.25, 3, 1e10, 0.5}
var strvals = []string{"", "a", "b c", "<x>", "ünï", "q\"t"}

// fill populates v; mode "zero" leaves everything zero, "full" makes every
// pointer/slice/map non-nil and non-empty, "rand" mixes.
func (g *typeGen) fill(v reflect.Value, depth int, mode string) {
	r := g.r
	if mode == "zero" {
		return
	}
	full := mode == "full"
	switch v.Kind() {
	case reflect.Int, reflect.Int8, reflect.Int16, reflect.Int32, reflect.Int64:
		switch {
		case r.Intn(4) == 0:
			// boundary values of the field's width (a value that only fits the full width shows a
			// read or conversion through a narrower type)
			bits := uint(v.Type().Bits())
			max := int64(1)<<(bits-1) - 1
			v.SetInt([]int64{max, -max - 1, max / 2, 127, 128, 255, 256, 32767, 32768, 65535, 65536, -129, -32769}[r.Intn(13)] % (max + 1))
			if full && v.Int() == 0 {
				v.SetInt(max)
			}
		case full:
			v.SetInt(int64(1 + r.Intn(5)))
		default:
			v.SetInt(int64(r.Intn(5) - 1))
		}
	case reflect.Uint, reflect.Uint8, reflect.Uint16, reflect.Uint32, reflect.Uint64:
		switch {
		case r.Intn(4) == 0:
			bits := uint(v.Type().Bits())
			max := uint64(1)<<(bits-1)*2 - 1
			// (64-bit fields reach beyond MaxInt64: every encoder has to write them as unsigned numbers)
			pick := []uint64{max, max / 2, max/2 + 1, 255, 256, 257, 65535, 65536, 4294967295, 4294967296}[r.Intn(10)]
			if max+1 != 0 {
				pick %= max + 1
			}
			v.SetUint(pick)
			if full && v.Uint() == 0 {
				v.SetUint(max)
			}
		case full:
			v.SetUint(uint64(1 + r.Intn(4)))
		default:
			v.SetUint(uint64(r.Intn(4)))
		}
	case reflect.Float32, reflect.Float64:
		switch {
		case v.Kind() == reflect.Float64 && r.Intn(2) == 0:
			// values that need all 64 bits (a float64 written or read through a 32 bit path shows)
			v.SetFloat([]float64{48.858370123456, 0.1, 1.0 / 3, 123456789.123456789, -2.2250738585072014e-308, 1.7976931348623157e308, 1e-7 + 1e-20, 9007199254740993}[r.Intn(8)])
		case full:
			v.SetFloat(f64vals[1+r.Intn(len(f64vals)-1)])
		default:
			v.SetFloat(f64vals[r.Intn(len(f64vals))])
		}
	case reflect.String:
		if full {
			v.SetString(strvals[1+r.Intn(len(strvals)-1)])
		} else {
			v.SetString(strvals[r.Intn(len(strvals))])
		}
	case reflect.Bool:
		v.SetBool(full || r.Intn(2) == 0)
	case reflect.Ptr:
		if depth > 0 && (full || r.Intn(3) > 0) {
			v.Set(reflect.New(v.Type().Elem()))
			g.fill(v.Elem(), depth-1, mode)
		}
	case reflect.Slice:
		c := r.Intn(4)
		if full {
			c = 2
		}
		if v.Type() == bytesType {
			switch c {
			case 0:
			case 1:
				v.SetBytes([]byte{})
			default:
				v.SetBytes([]byte([]string{"hi", "a b", "xyz!"}[r.Intn(3)]))
			}
			return
		}
		switch c {
		case 0: // nil
		case 1:
			v.Set(reflect.MakeSlice(v.Type(), 0, 0))
		default:
			n := 1 + r.Intn(2)
			v.Set(reflect.MakeSlice(v.Type(), n, n))
			for i := 0; i < n; i++ {
				g.fill(v.Index(i), depth-1, mode)
			}
		}
	case reflect.Array:
		for i := 0; i < v.Len(); i++ {
			g.fill(v.Index(i), depth-1, mode)
		}
	case reflect.Map:
		c := r.Intn(4)
		if full {
			c = 2
		}
		switch c {
		case 0:
		case 1:
			v.Set(reflect.MakeMap(v.Type()))
		default:
			v.Set(reflect.MakeMap(v.Type()))
			for i, n := 0, 1+r.Intn(2); i < n; i++ {
				e := reflect.New(v.Type().Elem()).Elem()
				g.fill(e, depth-1, mode)
				v.SetMapIndex(reflect.ValueOf(fmt.Sprintf("k%d", i)), e)
			}
		}
	case reflect.Interface:
		c := r.Intn(7)
		if full {
			c = 1 + r.Intn(6)
		}
		switch c {
		case 0:
		case 1:
			v.Set(reflect.ValueOf(int64(7)))
		case 2:
			v.Set(reflect.ValueOf("s"))
		case 3:
			v.Set(reflect.ValueOf([]any{int64(1), nil, "x"}))
		case 4:
			l := Leaf{LeafA: int64(r.Intn(3))}
			v.Set(reflect.ValueOf(l))
		case 5:
			l := &Leaf{LeafA: int64(r.Intn(3)), LeafB: 1.5}
			v.Set(reflect.ValueOf(l))
		default:
			v.Set(reflect.ValueOf(map[string]any{"m": true, "n": nil}))
		}
	case reflect.Struct:
		for i := 0; i < v.NumField(); i++ {
			if v.Type().Field(i).PkgPath == "" {
				g.fill(v.Field(i), depth-1, mode)
			}
		}
	}
}

// HookWrap and HookCart reach HookHolder as a member held by value and as a slice element of an
// addressable struct: the first use of a type may come through either.
type HookWrap struct {
	N  int
	In HookHolder
}

type HookCart struct {
	Items []HookHolder
	Last  *HookHolder
}
