// Package c15: all encoders agree on how a Go value is encoded. Oracle: the
// reflective reference encoder encref written from the Options
// documentation (with explicit don't-care markers where the documentation can
// be read two ways), encoding/json for the Go-compatible options, and
// cross-agreement of every encoder's parsed output with the reference.
package c15

import (
	"bytes"
	"encoding/base64"
	"encoding/json"
	"fmt"
	"math/rand"
	"reflect"
	"sort"
	"strconv"
	"strings"

	"github.com/ohler55/ojg"
	"github.com/ohler55/ojg/alt"
	"github.com/ohler55/ojg/oj"
	"github.com/ohler55/ojg/pretty"
	"github.com/ohler55/ojg/sen"

	"verif/mon"
)

func init() {
	mon.Register(&mon.Prop{
		ID:      "C15",
		Batches: func(tier string) int { return map[string]int{"quick": 16, "thorough": 48}[tier] },
		Run:     run,
		Rule: "cases: (type, value, options, addressability): types are the hand-written named pool (value/pointer embedding, nested embedding, tags at every position) and random reflect.StructOf types (1-5 fields of scalar, pointer, slice, map, interface, array, []byte, named and anonymous struct kinds, nested to depth 3, optionally embedding a named type by value or pointer at a random position, tags name/omitempty/-/none); values zero, fully populated and random (nil pointers, nil and empty slices/maps, interfaces holding scalars, structs, pointers, nil); " +
			"options from the lattice UseTags x KeyExact x NestEmbed x OmitNil x OmitEmpty x CreateKey x FullTypePath x BytesAs x Indent x Sort; the value is passed as T and as *T and inside []T / map[string]T. " +
			"Every encoder (oj.JSON tight and indented, oj.Marshal, oj.Write, oj.Writer.MustJSON, sen.String tight and indented, sen.Bytes, pretty.JSON, pretty.SEN, alt.Decompose) must produce a text that parses and a tree that matches the reference encoder's; with the Go-compatible options the reference itself must match encoding/json. " +
			"the hook-type holder is also encoded as a member held by value and as a slice element of an addressable struct. non-trivial: a struct with at least two members or one nested container; distinct by digest of (type, value, options)",
		Assumptions: []string{
			"the reference encoder (encref) is written from the ojg.Options comments and encoding/json's documented rules; where the comments can be read two ways the reference accepts both (nil slice/map as null or empty; omission of nil-or-empty containers under OmitNil; omission of zero structs, of non-nil pointers to empty values and of objects whose members were all omitted under OmitEmpty; an untagged field's key under UseTags follows KeyExact or is the exact name)",
			"field names of at most three letters have lower-case tails; key conflicts between embedded and outer fields, tags on embedded fields, non-ASCII field names, time.Time, channels, funcs, complex and non-string map keys are not generated",
			"JSON outputs are read with encoding/json (UseNumber), SEN outputs with sen.Parse (pinned by C10); numbers are compared by value",
			"float32 fields hold values exactly representable in float32",
		},
		Findings: map[string]func(v *mon.Violation) bool{},
		Floors: func(tier string, cover map[string]int64, evals int64) []string {
			var out []string
			for _, k := range []string{"type:named", "type:structof", "type:hook-fields", "type:embedded-value", "type:embedded-pointer", "value:zero", "value:full", "value:rand", "value:nil-embedded-pointer", "pass:value", "pass:pointer", "pass:in-slice", "pass:in-map", "pass:in-pointer-slice", "pass:in-pointer-map", "pass:in-any-slice",
				"opt:UseTags", "opt:KeyExact", "opt:NestEmbed", "opt:OmitNil", "opt:OmitEmpty", "opt:CreateKey", "opt:FullTypePath", "opt:BytesAsBase64", "opt:BytesAsArray", "opt:Indent", "opt:Go-compatible", "encoding/json-compared"} {
				if cover[k] == 0 {
					out = append(out, "coverage class never reached: "+k)
				}
			}
			return out
		},
	})
}

// ---- reference tree with don't-care markers ----

type anyOf []any // one of the alternatives
// f32 is a number that came from a float32: alt.Decompose deliberately rounds
// the widened value ("display nicer"), so such numbers are compared to float32
// precision.
type f32 float64
type anything struct{} // unconstrained
// strOf is a number or boolean written as a string (the "string" tag option).
type strOf struct{ val any }

type member struct {
	keys     []string // acceptable keys (exactly one of them present)
	val      any
	optional bool // presence is don't-care
}

type object struct {
	members []member
	// emptyOK: under OmitEmpty an object whose members were all omitted may
	// itself be omitted by its parent (handled by the parent via optional)
}

func show(v any) string {
	var b strings.Builder
	showTo(&b, v, 0)
	return b.String()
}

func showTo(b *strings.Builder, v any, d int) {
	if d > 40 {
		b.WriteString("<deep>")
		return
	}
	switch t := v.(type) {
	case nil:
		b.WriteString("null")
	case anything:
		b.WriteString("<any>")
	case strOf:
		b.WriteString("string(")
		showTo(b, t.val, d+1)
		b.WriteString(")")
	case anyOf:
		b.WriteString("anyOf(")
		for i, a := range t {
			if i > 0 {
				b.WriteString(" | ")
			}
			showTo(b, a, d+1)
		}
		b.WriteString(")")
	case *object:
		b.WriteString("{")
		for i, m := range t.members {
			if i > 0 {
				b.WriteString(" ")
			}
			b.WriteString(strings.Join(m.keys, "|"))
			if m.optional {
				b.WriteString("?")
			}
			b.WriteString(":")
			showTo(b, m.val, d+1)
		}
		b.WriteString("}")
	case []any:
		b.WriteString("[")
		for i, m := range t {
			if i > 0 {
				b.WriteString(" ")
			}
			showTo(b, m, d+1)
		}
		b.WriteString("]")
	case map[string]any:
		keys := make([]string, 0, len(t))
		for k := range t {
			keys = append(keys, k)
		}
		sort.Strings(keys)
		b.WriteString("{")
		for i, k := range keys {
			if i > 0 {
				b.WriteString(" ")
			}
			b.WriteString(k + ":")
			showTo(b, t[k], d+1)
		}
		b.WriteString("}")
	case string:
		fmt.Fprintf(b, "%q", t)
	case f32:
		fmt.Fprintf(b, "%v", float64(t))
	default:
		fmt.Fprintf(b, "%v", t)
	}
}

// norm converts an observed tree to the comparison domain.
func norm(v any) any {
	switch t := v.(type) {
	case json.Number:
		f, _ := t.Float64()
		return f
	case int64:
		return float64(t)
	case int:
		return float64(t)
	case uint64:
		return float64(t)
	case float32:
		return float64(t)
	case int8, int16, int32, uint, uint8, uint16, uint32:
		rv := reflect.ValueOf(v)
		if rv.CanInt() {
			return float64(rv.Int())
		}
		return float64(rv.Uint())
	case []any:
		out := make([]any, len(t))
		for i, m := range t {
			out[i] = norm(m)
		}
		return out
	case map[string]any:
		out := make(map[string]any, len(t))
		for k, m := range t {
			out[k] = norm(m)
		}
		return out
	}
	return v
}

// senRead is set while the output of a SEN encoder (read with sen.Parse) is matched.
var senRead bool

// keyChoice records, while one encoder's output is matched, which of several acceptable keys it used
// for a member (path -> key). The documentation may leave the key open; the encoders must still agree.
var keyChoice map[string]string

// match returns "" when obs is an acceptable encoding of ref, else where and why not.
func match(ref, obs any, path string) string {
	switch r := ref.(type) {
	case anything:
		return ""
	case anyOf:
		first := ""
		for _, a := range r {
			m := match(a, obs, path)
			if m == "" {
				return ""
			}
			if first == "" {
				first = m
			}
		}
		return first
	case nil:
		if obs != nil {
			return fmt.Sprintf("%s: expected null, got %s", path, show(obs))
		}
	case strOf:
		str, ok := obs.(string)
		if !ok && senRead {
			// "-1" and "true" are written bare by the SEN writers and read back as a number / boolean:
			// C10's open findings F-C10-sign and F-C10-keyword, not an encoder disagreement
			return match(r.val, obs, path)
		}
		if !ok {
			return fmt.Sprintf("%s: expected %s as a string, got %s", path, show(r.val), show(obs))
		}
		switch t := r.val.(type) {
		case bool:
			if str != fmt.Sprint(t) {
				return fmt.Sprintf("%s: expected %q, got %q", path, fmt.Sprint(t), str)
			}
		case float64, f32:
			f, err := strconv.ParseFloat(str, 64)
			if err != nil {
				return fmt.Sprintf("%s: expected a number in a string, got %q", path, str)
			}
			return match(r.val, f, path)
		}
	case f32:
		o, ok := obs.(float64)
		d := o - float64(r)
		if d < 0 {
			d = -d
		}
		m := float64(r)
		if m < 0 {
			m = -m
		}
		if !ok || d > m*2e-7 {
			return fmt.Sprintf("%s: expected %v (float32), got %s", path, float64(r), show(obs))
		}
	case bool, string, float64:
		if !reflect.DeepEqual(ref, obs) {
			return fmt.Sprintf("%s: expected %s, got %s", path, show(ref), show(obs))
		}
	case []any:
		o, ok := obs.([]any)
		if !ok || len(o) != len(r) {
			return fmt.Sprintf("%s: expected array of %d, got %s", path, len(r), show(obs))
		}
		for i := range r {
			if m := match(r[i], o[i], fmt.Sprintf("%s[%d]", path, i)); m != "" {
				return m
			}
		}
	case *object:
		o, ok := obs.(map[string]any)
		if !ok {
			return fmt.Sprintf("%s: expected object, got %s", path, show(obs))
		}
		claimed := map[string]bool{}
		for _, m := range r.members {
			var present []string
			for _, k := range m.keys {
				if _, has := o[k]; has {
					present = append(present, k)
				}
			}
			switch {
			case len(present) == 0 && !m.optional:
				return fmt.Sprintf("%s: member %s is missing", path, strings.Join(m.keys, "|"))
			case len(present) > 1:
				return fmt.Sprintf("%s: member present under several keys %v", path, present)
			case len(present) == 1:
				claimed[present[0]] = true
				if len(m.keys) > 1 && keyChoice != nil {
					keyChoice[path+"."+strings.Join(m.keys, "|")] = present[0]
				}
				if mm := match(m.val, o[present[0]], path+"."+present[0]); mm != "" {
					return mm
				}
			}
		}
		for k := range o {
			if !claimed[k] {
				return fmt.Sprintf("%s: unexpected member %q", path, k)
			}
		}
	default:
		return fmt.Sprintf("%s: reference node %T", path, ref)
	}
	return ""
}

// ---- the reference encoder ----

type enc struct {
	o *ojg.Options
}

func uniqAll(in []string) []string {
	var out []string
	for _, s := range in {
		dup := false
		for _, o := range out {
			dup = dup || o == s
		}
		if !dup {
			out = append(out, s)
		}
	}
	return out
}

func uniq(a, b string) []string {
	if a == b {
		return []string{a}
	}
	return []string{a, b}
}

func lowerFirst(s string) string {
	if s == "" {
		return s
	}
	b := []byte(s)
	if 'A' <= b[0] && b[0] <= 'Z' {
		b[0] |= 0x20
	}
	return string(b)
}

// emptyGo is encoding/json's notion of empty (for omitempty).
func emptyGo(v reflect.Value) bool {
	switch v.Kind() {
	case reflect.Array, reflect.Map, reflect.Slice, reflect.String:
		return v.Len() == 0
	case reflect.Bool:
		return !v.Bool()
	case reflect.Int, reflect.Int8, reflect.Int16, reflect.Int32, reflect.Int64:
		return v.Int() == 0
	case reflect.Uint, reflect.Uint8, reflect.Uint16, reflect.Uint32, reflect.Uint64:
		return v.Uint() == 0
	case reflect.Float32, reflect.Float64:
		return v.Float() == 0
	case reflect.Interface, reflect.Ptr:
		return v.IsNil()
	}
	return false
}

func isNilPtrOrIface(v reflect.Value) bool {
	switch v.Kind() {
	case reflect.Interface, reflect.Ptr:
		return v.IsNil()
	}
	return false
}

func isNilContainer(v reflect.Value) bool {
	switch v.Kind() {
	case reflect.Map, reflect.Slice:
		return v.IsNil()
	}
	return false
}

func (e *enc) value(v reflect.Value) any {
	switch v.Kind() {
	case reflect.Invalid:
		return nil
	case reflect.Ptr, reflect.Interface:
		if v.IsNil() {
			return nil
		}
		return e.value(v.Elem())
	case reflect.Bool:
		return v.Bool()
	case reflect.Int, reflect.Int8, reflect.Int16, reflect.Int32, reflect.Int64:
		return float64(v.Int())
	case reflect.Uint, reflect.Uint8, reflect.Uint16, reflect.Uint32, reflect.Uint64:
		return float64(v.Uint())
	case reflect.Float32:
		return f32(v.Float())
	case reflect.Float64:
		return v.Float()
	case reflect.String:
		return v.String()
	case reflect.Slice:
		if v.Type().Elem().Kind() == reflect.Uint8 {
			return e.bytes(v)
		}
		if v.IsNil() {
			return anyOf{nil, []any{}}
		}
		fallthrough
	case reflect.Array:
		out := make([]any, v.Len())
		for i := range out {
			out[i] = e.value(v.Index(i))
		}
		return out
	case reflect.Map:
		if v.IsNil() {
			return anyOf{nil, &object{}}
		}
		obj := &object{}
		it := v.MapRange()
		for it.Next() {
			mv := it.Value()
			m := member{keys: []string{it.Key().String()}, val: e.value(mv)}
			if e.omitMember(mv, false, &m, true) {
				continue
			}
			obj.members = append(obj.members, m)
		}
		return obj
	case reflect.Struct:
		return e.structValue(v)
	}
	return anything{}
}

func (e *enc) bytes(v reflect.Value) any {
	b := v.Bytes()
	var out any
	switch e.o.BytesAs {
	case ojg.BytesAsBase64:
		out = base64.StdEncoding.EncodeToString(b)
	case ojg.BytesAsArray:
		l := make([]any, len(b))
		for i, c := range b {
			l[i] = float64(c)
		}
		out = l
	default:
		out = string(b)
	}
	if v.IsNil() {
		return anyOf{nil, out}
	}
	return out
}

// refEmpty: the reference encoding is empty in the widest sense (null, zero,
// "", an array of such, an object whose members are all optional or empty).
func refEmpty(n any) bool {
	switch t := n.(type) {
	case nil, anything:
		return true
	case strOf:
		return refEmpty(t.val)
	case bool:
		return !t
	case string:
		return t == ""
	case float64:
		return t == 0
	case f32:
		return t == 0
	case []any:
		for _, m := range t {
			if !refEmpty(m) {
				return false
			}
		}
		return true
	case *object:
		for _, m := range t.members {
			if !m.optional && !refEmpty(m.val) {
				return false
			}
		}
		return true
	case anyOf:
		for _, a := range t {
			if refEmpty(a) {
				return true
			}
		}
	}
	return false
}

// deepNil: a chain of pointers/interfaces that ends in nil.
func deepNil(v reflect.Value) bool {
	for v.Kind() == reflect.Ptr || v.Kind() == reflect.Interface {
		if v.IsNil() {
			return true
		}
		v = v.Elem()
	}
	return false
}

// omitMember applies the omission rules to one object member. It returns true
// when the member must be absent and marks it optional when presence is
// don't-care.
func (e *enc) omitMember(v reflect.Value, tagOmitEmpty bool, m *member, inMap bool) (absent bool) {
	o := e.o
	if tagOmitEmpty && emptyGo(v) {
		return true
	}
	if o.OmitNil || o.OmitEmpty {
		if isNilPtrOrIface(v) {
			if inMap && !o.OmitNil {
				// OmitEmpty alone: the writers keep null and zero scalars in maps, alt.Decompose
				// drops them; the Options comment concedes that maps differ
				m.optional = true
				return false
			}
			return true
		}
		if deepNil(v) {
			m.optional = true // a pointer to a nil pointer, an interface holding a nil pointer
		}
		if isNilContainer(v) {
			// "nil values": a nil slice or map is one; encoding it as an
			// empty container and keeping it can be defended too
			m.optional = true
		}
	}
	if o.OmitNil && (v.Kind() == reflect.Map || v.Kind() == reflect.Slice) && v.Len() == 0 {
		m.optional = true
	}
	if o.OmitEmpty {
		if inMap {
			if refEmpty(m.val) {
				m.optional = true
			}
			return false
		}
		switch v.Kind() {
		case reflect.String, reflect.Bool, reflect.Int, reflect.Int8, reflect.Int16, reflect.Int32, reflect.Int64,
			reflect.Uint, reflect.Uint8, reflect.Uint16, reflect.Uint32, reflect.Uint64, reflect.Float32, reflect.Float64:
			if emptyGo(v) {
				return true
			}
		case reflect.Slice, reflect.Map:
			if v.Len() == 0 {
				return true
			}
			if refEmpty(m.val) {
				m.optional = true
			}
		default:
			// zero structs, arrays of zeros, non-nil pointers/interfaces to
			// empty values, objects left without members: don't-care
			if refEmpty(m.val) {
				m.optional = true
			}
		}
	}
	return false
}

func (e *enc) key(f *reflect.StructField) (keys []string, skip, tagOmit, asString bool) {
	o := e.o
	name := f.Name
	plain := func() []string {
		if o.KeyExact {
			return []string{name}
		}
		if len(name) <= 3 {
			// ojg lower-cases names of at most three letters entirely (ID -> id, URL -> url); the
			// Options comment only speaks of the first character: both are accepted, all encoders must
			// make the same choice
			return uniq(strings.ToLower(name), lowerFirst(name))
		}
		return []string{lowerFirst(name)}
	}
	if !o.UseTags {
		return plain(), false, false, false
	}
	tag, ok := f.Tag.Lookup("json")
	if !ok || tag == "" {
		// "If no tag is present then the KeyExact flag is referenced"; the
		// exact name is what encoding/json does. Both are accepted.
		if o.KeyExact {
			return []string{name}, false, false, false
		}
		return uniqAll(append(plain(), name)), false, false, false
	}
	parts := strings.Split(tag, ",")
	if parts[0] == "-" && len(parts) == 1 {
		return nil, true, false, false
	}
	for _, p := range parts[1:] {
		switch p {
		case "omitempty":
			tagOmit = true
		case "string":
			asString = true
		}
	}
	if parts[0] == "" {
		if o.KeyExact {
			return []string{name}, false, tagOmit, asString
		}
		return uniqAll(append(plain(), name)), false, tagOmit, asString
	}
	return []string{parts[0]}, false, tagOmit, asString
}

func (e *enc) structValue(v reflect.Value) any {
	obj := &object{}
	t := v.Type()
	if e.o.CreateKey != "" {
		name := t.Name()
		if e.o.FullTypePath {
			name = t.PkgPath() + "/" + t.Name()
		}
		m := member{keys: []string{e.o.CreateKey}, val: name}
		if t.Name() == "" {
			// an anonymous struct type has no name to record
			m.val = anything{}
			m.optional = true
		}
		obj.members = append(obj.members, m)
	}
	e.fields(v, obj)
	return obj
}

func (e *enc) fields(v reflect.Value, obj *object) {
	t := v.Type()
	for i := 0; i < t.NumField(); i++ {
		f := t.Field(i)
		if f.PkgPath != "" && !f.Anonymous {
			continue
		}
		fv := v.Field(i)
		if f.Anonymous && !e.o.NestEmbed {
			et := f.Type
			if et.Kind() == reflect.Ptr {
				if fv.IsNil() {
					continue // the promoted fields of a nil embedded pointer do not exist
				}
				fv = fv.Elem()
			}
			if fv.Kind() == reflect.Struct {
				e.fields(fv, obj)
				continue
			}
		}
		if f.PkgPath != "" {
			// NestEmbed and an embedded struct of unexported type: whether an element named after the
			// unexported type is generated is not documented
			obj.members = append(obj.members, member{keys: uniq(f.Name, lowerFirst(f.Name)), val: anything{}, optional: true})
			continue
		}
		keys, skip, tagOmit, asString := e.key(&f)
		if skip {
			continue
		}
		m := member{keys: keys, val: e.value(fv)}
		if asString {
			m.val = strOf{m.val}
		}
		if e.omitMember(fv, tagOmit, &m, false) {
			continue
		}
		obj.members = append(obj.members, m)
	}
}

// ---- encoders under observation ----

type encoder struct {
	name string
	sen  bool
	run  func(v any, o *ojg.Options) (text string, tree any, isTree bool, err error)
}

var encoders = []encoder{
	{"oj.JSON", false, func(v any, o *ojg.Options) (string, any, bool, error) { return oj.JSON(v, o), nil, false, nil }},
	{"oj.Marshal", false, func(v any, o *ojg.Options) (string, any, bool, error) {
		b, err := oj.Marshal(v, o)
		return string(b), nil, false, err
	}},
	{"oj.Write", false, func(v any, o *ojg.Options) (string, any, bool, error) {
		var buf bytes.Buffer
		err := oj.Write(&buf, v, o)
		return buf.String(), nil, false, err
	}},
	{"oj.Writer.MustJSON", false, func(v any, o *ojg.Options) (string, any, bool, error) {
		w := oj.Writer{Options: *o}
		return string(w.MustJSON(v)), nil, false, nil
	}},
	{"sen.String", true, func(v any, o *ojg.Options) (string, any, bool, error) { return sen.String(v, o), nil, false, nil }},
	{"sen.Bytes", true, func(v any, o *ojg.Options) (string, any, bool, error) {
		return string(sen.Bytes(v, o)), nil, false, nil
	}},
	{"pretty.JSON", false, func(v any, o *ojg.Options) (string, any, bool, error) { return pretty.JSON(v, o), nil, false, nil }},
	{"pretty.SEN", true, func(v any, o *ojg.Options) (string, any, bool, error) { return pretty.SEN(v, o), nil, false, nil }},
	{"alt.Decompose", false, func(v any, o *ojg.Options) (string, any, bool, error) { return "", alt.Decompose(v, o), true, nil }},
}

func parseJSON(text string) (any, error) {
	d := json.NewDecoder(strings.NewReader(text))
	d.UseNumber()
	var v any
	if err := d.Decode(&v); err != nil {
		return nil, err
	}
	if d.More() {
		return nil, fmt.Errorf("trailing data")
	}
	return v, nil
}

type checker struct {
	c *mon.Ctx
}

func optString(o *ojg.Options) string {
	var parts []string
	add := func(b bool, s string) {
		if b {
			parts = append(parts, s)
		}
	}
	add(o.UseTags, "UseTags")
	add(o.KeyExact, "KeyExact")
	add(o.NestEmbed, "NestEmbed")
	add(o.OmitNil, "OmitNil")
	add(o.OmitEmpty, "OmitEmpty")
	add(o.CreateKey != "", "CreateKey="+o.CreateKey)
	add(o.FullTypePath, "FullTypePath")
	add(o.BytesAs == ojg.BytesAsBase64, "BytesAsBase64")
	add(o.BytesAs == ojg.BytesAsArray, "BytesAsArray")
	add(o.Indent > 0, fmt.Sprintf("Indent=%d", o.Indent))
	add(o.Sort, "Sort")
	return strings.Join(parts, ",")
}

// optClass is the part of the options that selects behaviour (for de-duplication).
func optClass(o *ojg.Options) string {
	var parts []string
	add := func(b bool, s string) {
		if b {
			parts = append(parts, s)
		}
	}
	add(o.UseTags, "tags")
	add(o.NestEmbed, "nest")
	add(o.OmitNil, "omitnil")
	add(o.OmitEmpty, "omitempty")
	add(o.CreateKey != "", "createkey")
	add(o.Indent > 0, "indent")
	if len(parts) == 0 {
		return "plain"
	}
	return strings.Join(parts, "+")
}

func (ck *checker) one(val any, label string, o *ojg.Options, goCompat bool) {
	c := ck.c
	typeText := fmt.Sprintf("%T", val)
	if len(typeText) > 900 {
		typeText = typeText[:900] + "..."
	}
	var valueText string
	if b, err := json.Marshal(val); err == nil {
		valueText = string(b)
		if len(valueText) > 700 {
			valueText = valueText[:700] + "..."
		}
	}
	cs := map[string]any{"type": typeText, "value_as_encoding/json": valueText, "options": optString(o), "pass": label}
	c.Begin("encoders", cs)
	e := &enc{o: o}
	ref := e.value(reflect.ValueOf(val))
	refText := show(ref)
	if len(refText) > 700 {
		refText = refText[:700] + "..."
	}

	if goCompat {
		c.Cover("opt:Go-compatible")
		if b, err := json.Marshal(val); err == nil {
			if tree, err := parseJSON(string(b)); err == nil {
				c.Cover("encoding/json-compared")
				if m := match(ref, norm(tree), "$"); m != "" {
					// the harness' own reference disagrees with encoding/json: not a verdict on ojg
					c.Violation("reference", "reference-disagrees-with-encoding/json", "harness", cs, string(b), m+" ref="+refText)
					return
				}
			}
		}
	}
	choices := map[string]map[string]string{} // member -> key -> encoder that chose it
	for _, en := range encoders {
		var text string
		var tree any
		var isTree bool
		var err error
		oc := *o
		pn := mon.Guard(func() { text, tree, isTree, err = en.run(val, &oc) })
		c.Eval(1)
		cls := optClass(o)
		switch {
		case pn != nil:
			c.Violation(en.name, "panic", kindOfFault(pn.Msg)+"/"+cls, cs, refText, pn.String())
			continue
		case err != nil:
			c.Violation(en.name, "error", kindOfFault(err.Error())+"/"+cls, cs, refText, err.Error())
			continue
		}
		if !isTree {
			if text == "" {
				c.Violation(en.name, "empty-output", cls, cs, refText, "\"\"")
				continue
			}
			var perr error
			if en.sen {
				tree, perr = sen.Parse([]byte(text))
			} else {
				tree, perr = parseJSON(text)
			}
			if perr != nil {
				c.Violation(en.name, "output-does-not-parse", cls, cs, refText, clip(text)+" :: "+perr.Error())
				continue
			}
		}
		senRead = en.sen
		keyChoice = map[string]string{}
		m := match(ref, norm(tree), "$")
		senRead = false
		for mem, k := range keyChoice {
			if choices[mem] == nil {
				choices[mem] = map[string]string{}
			}
			if _, seen := choices[mem][k]; !seen {
				choices[mem][k] = en.name
			}
		}
		keyChoice = nil
		if m != "" {
			c.Violation(en.name, "differs-from-reference", classify(m)+"/"+cls, cs, refText, m+" :: got "+clip(show(norm(tree))))
		}
	}
	for mem, ks := range choices {
		if len(ks) > 1 {
			var parts []string
			for k, en := range ks {
				parts = append(parts, fmt.Sprintf("%s writes %q", en, k))
			}
			sort.Strings(parts)
			c.Violation("encoders", "disagree-on-member-key", optClass(o), cs, "one key for member "+mem+" from every encoder", strings.Join(parts, "; "))
		}
	}
	c.Distinct(typeText, valueText, optString(o), label)
	if c.WantSample() {
		c.Sample(map[string]any{"type": typeText, "options": optString(o), "reference": refText, "oj.JSON": clip(oj.JSON(val, o))})
	}
}

func clip(s string) string {
	if len(s) > 700 {
		return s[:700] + "..."
	}
	return s
}

func kindOfFault(msg string) string {
	switch {
	case strings.Contains(msg, "nil pointer"), strings.Contains(msg, "invalid memory address"):
		return "nil-deref"
	case strings.Contains(msg, "reflect:"), strings.Contains(msg, "reflect."):
		return "reflect"
	case strings.Contains(msg, "index out of range"):
		return "index"
	}
	return "other"
}

// classify reduces a mismatch description to a stable class.
func classify(m string) string {
	switch {
	case strings.Contains(m, "is missing"):
		return "member-missing"
	case strings.Contains(m, "unexpected member"):
		return "unexpected-member"
	case strings.Contains(m, "several keys"):
		return "duplicate-member"
	case strings.Contains(m, "expected null"):
		return "not-null"
	case strings.Contains(m, "expected object"):
		return "not-object"
	case strings.Contains(m, "expected array"):
		return "not-array"
	}
	return "value"
}

var createKeys = []string{"", "", "^", "type"}

func (ck *checker) options(r *rand.Rand) (o ojg.Options, goCompat bool) {
	c := ck.c
	if r.Intn(6) == 0 {
		o = ojg.GoOptions
		o.Sort = r.Intn(2) == 0
		if r.Intn(2) == 0 {
			o.Indent = 2
		}
		return o, true
	}
	o.UseTags = r.Intn(2) == 0
	o.KeyExact = r.Intn(2) == 0
	o.NestEmbed = r.Intn(3) == 0
	o.OmitNil = r.Intn(3) == 0
	o.OmitEmpty = r.Intn(4) == 0
	o.CreateKey = createKeys[r.Intn(len(createKeys))]
	o.FullTypePath = o.CreateKey != "" && r.Intn(2) == 0
	o.BytesAs = []int{0, ojg.BytesAsString, ojg.BytesAsBase64, ojg.BytesAsArray}[r.Intn(4)] // the constants do not start at zero
	if r.Intn(2) == 0 {
		o.Indent = 1 + r.Intn(3)
	}
	o.Sort = r.Intn(2) == 0
	for k, b := range map[string]bool{"opt:UseTags": o.UseTags, "opt:KeyExact": o.KeyExact, "opt:NestEmbed": o.NestEmbed, "opt:OmitNil": o.OmitNil, "opt:OmitEmpty": o.OmitEmpty,
		"opt:CreateKey": o.CreateKey != "", "opt:FullTypePath": o.FullTypePath, "opt:BytesAsBase64": o.BytesAs == ojg.BytesAsBase64, "opt:BytesAsArray": o.BytesAs == ojg.BytesAsArray, "opt:Indent": o.Indent > 0} {
		if b {
			c.Cover(k)
		}
	}
	goCompat = o.UseTags && o.KeyExact && !o.NestEmbed && !o.OmitNil && !o.OmitEmpty && o.CreateKey == "" && o.BytesAs == ojg.BytesAsBase64
	return o, goCompat
}

func hasNilEmbeddedPtr(v reflect.Value) bool {
	switch v.Kind() {
	case reflect.Ptr, reflect.Interface:
		if v.IsNil() {
			return false
		}
		return hasNilEmbeddedPtr(v.Elem())
	case reflect.Struct:
		for i := 0; i < v.NumField(); i++ {
			f := v.Type().Field(i)
			if f.Anonymous && f.Type.Kind() == reflect.Ptr && v.Field(i).IsNil() {
				return true
			}
			if f.PkgPath == "" && hasNilEmbeddedPtr(v.Field(i)) {
				return true
			}
		}
	case reflect.Slice, reflect.Array:
		for i := 0; i < v.Len(); i++ {
			if hasNilEmbeddedPtr(v.Index(i)) {
				return true
			}
		}
	case reflect.Map:
		it := v.MapRange()
		for it.Next() {
			if hasNilEmbeddedPtr(it.Value()) {
				return true
			}
		}
	}
	return false
}

// hooks: struct fields whose types implement json.Marshaler, encoding.TextMarshaler or alt.Simplifier. The
// Options comments do not say how each encoder treats them (oj and sen call the hooks, pretty and
// alt.Decompose use reflection or Simplify), so there is no reference tree; what must hold: no encoder fails
// whichever way the value is passed, the oj and sen encoders agree with each other, and pretty agrees with
// alt.Decompose.
func (ck *checker) hooks(r *rand.Rand) {
	c := ck.c
	h := HookHolder{HookJ: JM{1 + r.Intn(5)}, HookT: TM{r.Intn(5)}, HookS: SM{r.Intn(5)}, HookPJ: PJM{r.Intn(5)}, HookN: r.Intn(3)}
	if r.Intn(2) == 0 {
		h.HookPP = &PJM{r.Intn(5)}
		h.HookPT = &TM{r.Intn(5)}
		h.HookOJ = JM{r.Intn(3)}
	}
	switch r.Intn(4) {
	case 0:
		h.HookI = SM{7}
	case 1:
		h.HookI = &TM{8}
	case 2:
		h.HookI = JM{9}
	}
	o, _ := ck.options(r)
	var val any
	label := ""
	switch r.Intn(8) {
	case 5:
		val, label = &HookWrap{N: 1, In: h}, "member-by-value-of-addressable-struct"
	case 6:
		val, label = &HookCart{Items: []HookHolder{h}, Last: &h}, "slice-element-of-addressable-struct"
	case 7:
		val, label = HookWrap{N: 2, In: h}, "member-by-value"
	case 0:
		val, label = h, "value"
	case 1:
		val, label = &h, "pointer"
	case 2:
		val, label = []HookHolder{h}, "in-slice"
	case 3:
		val, label = map[string]HookHolder{"k": h}, "in-map"
	default:
		val, label = []any{h, &h}, "in-any-slice"
	}
	cs := map[string]any{"type": fmt.Sprintf("%T", val), "value": fmt.Sprintf("%+v", h), "options": optString(&o), "pass": label}
	c.Begin("encoders(hook types)", cs)
	c.Cover("type:hook-fields")
	groups := map[string]string{} // group -> canonical text of the first member
	first := map[string]string{}
	for _, en := range encoders {
		var text string
		var tree any
		var isTree bool
		var err error
		oc := o
		pn := mon.Guard(func() { text, tree, isTree, err = en.run(val, &oc) })
		c.Eval(1)
		cls := optClass(&o)
		switch {
		case pn != nil:
			c.Violation(en.name, "panic", "hook-types/"+kindOfFault(pn.Msg)+"/"+cls, cs, "an encoding", pn.String())
			continue
		case err != nil:
			c.Violation(en.name, "error", "hook-types/"+kindOfFault(err.Error())+"/"+cls, cs, "an encoding", err.Error())
			continue
		}
		if !isTree {
			if text == "" {
				c.Violation(en.name, "empty-output", "hook-types/"+cls, cs, "an encoding", "\"\"")
				continue
			}
			var perr error
			if en.sen {
				tree, perr = sen.Parse([]byte(text))
			} else {
				tree, perr = parseJSON(text)
			}
			if perr != nil {
				c.Violation(en.name, "output-does-not-parse", "hook-types/"+cls, cs, "a parseable text", clip(text)+" :: "+perr.Error())
				continue
			}
		}
		g := "pretty+decompose"
		if strings.HasPrefix(en.name, "oj.") || strings.HasPrefix(en.name, "sen.") {
			g = "oj+sen"
		}
		t := show(norm(tree))
		if prev, ok := groups[g]; !ok {
			groups[g], first[g] = t, en.name
		} else if prev != t && !o.OmitNil && !o.OmitEmpty {
			c.Violation(en.name, "differs-from-sibling-encoder", "hook-types/"+cls, cs, first[g]+": "+clip(prev), clip(t))
		}
	}
}

func run(c *mon.Ctx) {
	ck := &checker{c: c}
	r := c.Rand("c15")
	g := &typeGen{r: r}
	n := c.Pick(200000, 3000000) / c.Batches
	for i := 0; i < n; i++ {
		if i%40 == 0 {
			ck.hooks(r)
		}
		var st reflect.Type
		switch {
		case i%23 == 0:
			st = extraNamed[r.Intn(len(extraNamed))]
			c.Cover("type:named-extra:" + st.Name())
		case i%5 == 0:
			st = namedTypes[r.Intn(len(namedTypes))]
			c.Cover("type:named")
		default:
			st = g.structType(2, true)
			c.Cover("type:structof")
		}
		for fi := 0; fi < st.NumField(); fi++ {
			if f := st.Field(fi); f.Anonymous {
				if f.Type.Kind() == reflect.Ptr {
					c.Cover("type:embedded-pointer")
				} else {
					c.Cover("type:embedded-value")
				}
			}
		}
		// several values of the type under several option sets (the field plans of a type are built
		// once and cached: the first use happens under a random option set)
		for k := 0; k < 4; k++ {
			mode := []string{"rand", "rand", "full", "zero"}[(i+k)%4]
			c.Cover("value:" + mode)
			pv := reflect.New(st)
			g.fill(pv.Elem(), 3, mode)
			if hasNilEmbeddedPtr(pv.Elem()) {
				c.Cover("value:nil-embedded-pointer")
			}
			o, goCompat := ck.options(r)
			switch r.Intn(9) {
			case 0, 1:
				c.Cover("pass:value")
				ck.one(pv.Elem().Interface(), "value", &o, goCompat)
			case 2, 3:
				c.Cover("pass:pointer")
				ck.one(pv.Interface(), "pointer", &o, goCompat)
			case 4:
				c.Cover("pass:in-slice")
				sl := reflect.MakeSlice(reflect.SliceOf(st), 2, 2)
				sl.Index(0).Set(pv.Elem())
				g.fill(sl.Index(1), 2, "rand")
				ck.one(sl.Interface(), "in-slice", &o, goCompat)
			case 5:
				c.Cover("pass:in-pointer-slice")
				sl := reflect.MakeSlice(reflect.SliceOf(reflect.PointerTo(st)), 3, 3)
				sl.Index(0).Set(pv)
				p2 := reflect.New(st)
				g.fill(p2.Elem(), 2, "rand")
				sl.Index(2).Set(p2)
				ck.one(sl.Interface(), "in-pointer-slice", &o, goCompat)
			case 6:
				c.Cover("pass:in-pointer-map")
				m := reflect.MakeMap(reflect.MapOf(reflect.TypeOf(""), reflect.PointerTo(st)))
				m.SetMapIndex(reflect.ValueOf("key"), pv)
				m.SetMapIndex(reflect.ValueOf("nil"), reflect.Zero(reflect.PointerTo(st)))
				ck.one(m.Interface(), "in-pointer-map", &o, goCompat)
			case 7:
				c.Cover("pass:in-any-slice")
				ck.one([]any{pv.Elem().Interface(), pv.Interface(), nil, int64(3)}, "in-any-slice", &o, goCompat)
			default:
				c.Cover("pass:in-map")
				m := reflect.MakeMap(reflect.MapOf(reflect.TypeOf(""), st))
				m.SetMapIndex(reflect.ValueOf("key"), pv.Elem())
				ck.one(m.Interface(), "in-map", &o, goCompat)
			}
		}
	}
}
