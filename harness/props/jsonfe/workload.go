package jsonfe

import (
	"strings"

	"verif/gen/jsongen"
	"verif/mon"
)

var contexts = []string{"", "[", "[1,", `{"a":`, "[[", `{"a":[`, `[{"k":`, `{"a":1,"b":`}
var keyContexts = []string{"{", `{"a":1,`, `[{`, `{"a":{`}

var tokenPrefixes = []string{
	"", `"`, `"a`, `"\`, `"\u`, `"\u0`, `"\u00`, `"\u00e`, `"é`, "-", "0", "-0", "1", "12", "1.", "1.5", "0.", "0.0", "1e", "1E", "1e+", "1e-", "1e5", "1e+5", "0e", "0e1", "1.5e", "1.5e3",
	"t", "tr", "tru", "true", "f", "fa", "fal", "fals", "false", "n", "nu", "nul", "null", `"a"`, "[]", "{}", "[1]", `{"a":1}`, "1 ", "[", "{", "[1", "[1,", `{"a"`, `{"a":`, `{"a":1`, `{"a":1,`,
}

var keyPrefixes = []string{"", `"`, `"a`, `"\`, `"\u00`, `"a"`, `"a" `, `"a":`, `"a":1`, `"a":1,`, `"a":1 `}

var suffixes = []string{"", `"`, "0", `":1`, "e1", "ull", "rue", "1"}

func closer(ctx string) string {
	var out []byte
	for i := 0; i < len(ctx); i++ {
		switch ctx[i] {
		case '[':
			out = append(out, ']')
		case '{':
			out = append(out, '}')
		case '"':
			// skip the string
			for i++; i < len(ctx) && ctx[i] != '"'; i++ {
			}
		}
	}
	// reverse
	for i, j := 0, len(out)-1; i < j; i, j = i+1, j-1 {
		out[i], out[j] = out[j], out[i]
	}
	return string(out)
}

// Sizes of the workload per tier.
type Sizes struct {
	A256Len, A39Len int
	Texts           int
	Mutants         int
}

func SizesFor(c *mon.Ctx) Sizes {
	if c.Thorough() {
		return Sizes{A256Len: 3, A39Len: 5, Texts: 200000, Mutants: 5}
	}
	return Sizes{A256Len: 2, A39Len: 4, Texts: 16000, Mutants: 5}
}

// Workload calls visit with every byte string of this batch. src names the
// generator ("enum256", "enum39", "state", "text", "mutant", "bom", "long").
// exhaustiveOnly restricts to the enumerated parts.
func Workload(c *mon.Ctx, visit func(x []byte, src string)) {
	sz := SizesFor(c)
	all256 := make([]byte, 256)
	for i := range all256 {
		all256[i] = byte(i)
	}
	// 1. all byte strings over 256 values
	for n := 0; n <= sz.A256Len; n++ {
		jsongen.Enum(all256, n, c.Mine, func(x []byte) { visit(x, "enum256") })
	}
	// 2. all strings over the JSON alphabet (lengths not already covered are 3..)
	for n := 3; n <= sz.A39Len; n++ {
		jsongen.Enum(jsongen.A39, n, c.Mine, func(x []byte) { visit(x, "enum39") })
	}
	// 3. grammar state x context x next byte x suffix
	idx := 0
	var buf []byte
	emit := func(ctx, tok string) {
		cl := closer(ctx)
		for b := 0; b < 256; b++ {
			idx++
			if !c.Mine(idx) {
				continue
			}
			for _, suf := range suffixes {
				for _, closeIt := range []bool{false, true} {
					buf = append(buf[:0], ctx...)
					buf = append(buf, tok...)
					buf = append(buf, byte(b))
					buf = append(buf, suf...)
					if closeIt {
						buf = append(buf, cl...)
					}
					visit(buf, "state")
				}
			}
		}
	}
	for _, ctx := range contexts {
		for _, tok := range tokenPrefixes {
			emit(ctx, tok)
		}
	}
	for _, ctx := range keyContexts {
		for _, tok := range keyPrefixes {
			emit(ctx, tok)
		}
	}
	// 4. generated valid texts and mutants
	r := c.Rand("texts")
	styles := []jsongen.Style{
		{MaxDepth: 3, MaxWidth: 4, WS: 0, Escapes: 0.1},
		{MaxDepth: 4, MaxWidth: 3, WS: 1, Escapes: 0.2, DupKeys: true, HiBytes: true, Surr: true, BigNums: true},
		{MaxDepth: 2, MaxWidth: 5, WS: 2, Escapes: 0.05, BigNums: true},
		{MaxDepth: 6, MaxWidth: 2, WS: 1, Escapes: 0.0},
	}
	per := sz.Texts / c.Batches
	var prev []byte
	for i := 0; i < per; i++ {
		g := jsongen.New(r, styles[i%len(styles)])
		t := []byte(g.Text())
		visit(t, "text")
		for m := 0; m < sz.Mutants; m++ {
			visit(jsongen.Mutate(r, t, prev), "mutant")
		}
		if i%16 == 0 {
			visit(append([]byte{0xEF, 0xBB, 0xBF}, t...), "bom")
			visit(append([]byte{0xEF, 0xBB, 0xBF}, jsongen.Mutate(r, t, prev)...), "bom")
		}
		prev = t
	}
	// 5. BOM followed by each alphabet byte / pair, partial BOMs
	if c.Batch == 0 {
		for _, a := range jsongen.A39 {
			visit([]byte{0xEF, 0xBB, 0xBF, a}, "bom")
			for _, b := range jsongen.A39 {
				visit([]byte{0xEF, 0xBB, 0xBF, a, b}, "bom")
			}
			visit([]byte{0xEF, 0xBB, a}, "bom")
			visit([]byte{0xEF, a}, "bom")
			visit([]byte{' ', 0xEF, 0xBB, 0xBF, a}, "bom")
		}
	}
	// 6. long inputs: an interesting token placed around the 4096 / 8192 refill boundaries
	toks := []string{`"aé\n\"b"`, `-12.5e+3`, `123456789012`, `true`, `false`, `null`, `{"k":[1,2]}`, `"` + strings.Repeat("x", 70) + `"`,
		`tru]`, `1.`, `0e`, `"😀"`, `nul`, `-`, `[1,]`, `"a` + "\n" + `b"`, `1e+`, `{"a" 1}`, `01`}
	li := 0
	for _, base := range []int{4096, 8192} {
		for _, tok := range toks {
			for d := -12; d <= 2; d++ {
				for _, pad := range []string{" ", "1,", "\n"} {
					li++
					if !c.Mine(li) {
						continue
					}
					n := base + d - 1
					if n < 0 {
						continue
					}
					var sb strings.Builder
					sb.WriteByte('[')
					for sb.Len()+len(pad) <= n {
						sb.WriteString(pad)
					}
					for sb.Len() < n {
						sb.WriteByte(' ')
					}
					sb.WriteString(tok)
					visit([]byte(sb.String()+"]"), "long")
					visit([]byte(sb.String()+",2]\n"), "long")
					visit([]byte(sb.String()), "long")
				}
			}
		}
	}
}
