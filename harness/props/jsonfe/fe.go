// Package jsonfe defines the strict-JSON front-ends observed by C01, C06 and
// C09 and the shared byte-string workloads.
package jsonfe

import (
	"errors"
	"fmt"
	"github.com/ohler55/ojg"

	"github.com/ohler55/ojg/gen"
	"github.com/ohler55/ojg/oj"

	"verif/gen/jsongen"
)

// FE is one strict-JSON front-end in single-document mode.
type FE struct {
	Name   string
	Reader bool
	Run    func(x []byte, plan jsongen.Plan) error
}

// FEs lists every front-end of C01's statement, each on a fresh instance and,
// where one exists, through the pooled package-level function.
var FEs = []FE{
	{"oj.Parse", false, func(x []byte, _ jsongen.Plan) error { _, e := oj.Parse(x); return e }},
	{"oj.Parser.Parse", false, func(x []byte, _ jsongen.Plan) error { var p oj.Parser; _, e := p.Parse(x); return e }},
	{"oj.Load", true, func(x []byte, pl jsongen.Plan) error { _, e := oj.Load(pl.Reader(x)); return e }},
	{"oj.Parser.ParseReader", true, func(x []byte, pl jsongen.Plan) error {
		var p oj.Parser
		_, e := p.ParseReader(pl.Reader(x))
		return e
	}},
	{"oj.Validator.Validate", false, func(x []byte, _ jsongen.Plan) error {
		v := oj.Validator{OnlyOne: true}
		return v.Validate(x)
	}},
	{"oj.Validator.ValidateReader", true, func(x []byte, pl jsongen.Plan) error {
		v := oj.Validator{OnlyOne: true}
		return v.ValidateReader(pl.Reader(x))
	}},
	{"oj.Tokenizer.Parse", false, func(x []byte, _ jsongen.Plan) error {
		t := oj.Tokenizer{}
		t.OnlyOne = true
		return t.Parse(x, &oj.ZeroHandler{})
	}},
	{"oj.Tokenizer.Load", true, func(x []byte, pl jsongen.Plan) error {
		t := oj.Tokenizer{}
		t.OnlyOne = true
		return t.Load(pl.Reader(x), &oj.ZeroHandler{})
	}},
	{"gen.Parser.Parse", false, func(x []byte, _ jsongen.Plan) error { var p gen.Parser; _, e := p.Parse(x); return e }},
	{"gen.Parser.ParseReader", true, func(x []byte, pl jsongen.Plan) error {
		var p gen.Parser
		_, e := p.ParseReader(pl.Reader(x))
		return e
	}},
}

// OptionFEs are the strict front-ends called with options that must not change what is accepted (used by
// C01 in addition to FEs).
var OptionFEs = []FE{
	{"oj.Parse(NumConvString)", false, func(x []byte, _ jsongen.Plan) error { _, e := oj.Parse(x, ojg.NumConvString); return e }},
	{"oj.ParseString(NumConvFloat64)", false, func(x []byte, _ jsongen.Plan) error { _, e := oj.ParseString(string(x), ojg.NumConvFloat64); return e }},
	{"oj.Load(NumConvString)", true, func(x []byte, pl jsongen.Plan) error { _, e := oj.Load(pl.Reader(x), ojg.NumConvString); return e }},
	{"oj.Parser.Parse(Reuse)", false, func(x []byte, _ jsongen.Plan) error { p := oj.Parser{Reuse: true}; _, e := p.Parse(x); return e }},
	{"gen.Parser.Parse(twice)", false, func(x []byte, _ jsongen.Plan) error {
		var p gen.Parser
		_, _ = p.Parse(x)
		_, e := p.Parse(x)
		return e
	}},
}

// ReusedFEs are the strict front-ends on instances that live as long as the process and have seen every earlier
// input of the workload (accepted, rejected, cut off by a reader): what is accepted and the position reported
// must not depend on that history.
var ReusedFEs = func() []FE {
	var op oj.Parser
	var gp gen.Parser
	ov := oj.Validator{OnlyOne: true}
	ot := oj.Tokenizer{}
	ot.OnlyOne = true
	return []FE{
		{"oj.Parser(reused).Parse", false, func(x []byte, _ jsongen.Plan) error { _, e := op.Parse(x); return e }},
		{"oj.Parser(reused).ParseReader", true, func(x []byte, pl jsongen.Plan) error { _, e := op.ParseReader(pl.Reader(x)); return e }},
		{"gen.Parser(reused).Parse", false, func(x []byte, _ jsongen.Plan) error { _, e := gp.Parse(x); return e }},
		{"gen.Parser(reused).ParseReader", true, func(x []byte, pl jsongen.Plan) error { _, e := gp.ParseReader(pl.Reader(x)); return e }},
		{"oj.Validator(reused).Validate", false, func(x []byte, _ jsongen.Plan) error { return ov.Validate(x) }},
		{"oj.Validator(reused).ValidateReader", true, func(x []byte, pl jsongen.Plan) error { return ov.ValidateReader(pl.Reader(x)) }},
		{"oj.Tokenizer(reused).Parse", false, func(x []byte, _ jsongen.Plan) error { return ot.Parse(x, &oj.ZeroHandler{}) }},
		{"oj.Tokenizer(reused).Load", true, func(x []byte, pl jsongen.Plan) error { return ot.Load(pl.Reader(x), &oj.ZeroHandler{}) }},
	}
}()

// Pos extracts line and column from a ParseError.
func Pos(err error) (line, col int, ok bool) {
	var pe *oj.ParseError
	if errors.As(err, &pe) {
		return pe.Line, pe.Column, true
	}
	var ge *gen.ParseError
	if errors.As(err, &ge) {
		return ge.Line, ge.Column, true
	}
	return 0, 0, false
}

// Call runs a front-end under the panic guard; a panic is returned as perr.
func Call(fe *FE, x []byte, plan jsongen.Plan) (err error, perr any) {
	defer func() {
		if r := recover(); r != nil {
			perr = r
			err = fmt.Errorf("PANIC: %v", r)
		}
	}()
	return fe.Run(x, plan), nil
}
