// Package c12: filter scripts are total and follow typed comparison semantics.
// Oracle: the reference script evaluator S (ref/jpref) on the constructed
// equation tree; ==/!= complement; Script.Match vs filter membership.
package c12

import (
	"fmt"
	"math"
	"math/rand"
	"strings"

	"github.com/ohler55/ojg/gen"
	"github.com/ohler55/ojg/jp"

	"verif/gen/treegen"
	"verif/mon"
	"verif/props/jpspec"
	"verif/ref/jpref"
)

func init() {
	mon.Register(&mon.Prop{
		ID:      "C12",
		Batches: func(tier string) int { return map[string]int{"quick": 16, "thorough": 48}[tier] },
		Run:     run,
		Rule: "cases: the complete matrix operator (== != < > <= >= && || + - * / in empty has exists =~ match search, unary ! length count) x left operand kind x right operand kind, kinds = nil, false, true, int (0, 1, -1, 2^53+1, min, max), float (0, -0, 1.5, integral, huge), \"\", strings, " +
			"empty/non-empty array, empty/non-empty object, Nothing (missing path), multi-valued path (0/1/many values), regex, list constant - each operand both as a constant and through an @-sub-path (the route that can deliver containers); random equation trees of depth <= 4; " +
			"each evaluated by Script.Match on simple and gen elements, after re-parsing the printed text with NewScript and NewFilter, and as a filter fragment inside Get/First/Has/Locate/Walk/Modify/Remove/RemoveOne over simple and gen documents, also with the operands rooted at the document ($[0].x for @.x over the one-element document) and with the document operand first followed by deeper element operands. The boolean must equal S's, == and != must be complements for single-valued operands, Match(v) must equal membership of v in the filter's result, and nothing may panic. " +
			"a filter with document-rooted operands is first handed other documents (an empty one, the element of the previous case), then the real one. every element is also evaluated with its homogeneous containers held as typed Go containers ([]string, []int, map[string]int, ...), for totality only. non-trivial: every matrix cell and every random tree; distinct: matrix cells by construction, trees by digest",
		Assumptions: []string{
			"cells the operator documentation leaves open (two containers compared, int overflow, division by zero, 'in' with a non-list, count) are don't-care for the value but still checked for totality, determinism and the ==/!= complement",
			"S evaluates the constructed tree (precedence of the printed form is C14's business)",
			"the $-rooted variants are not run through Locate: Locate hands the element to $ operands, recorded as F-C11-locate-root under C11",
		},
		Findings: map[string]func(v *mon.Violation) bool{},
		Floors: func(tier string, cover map[string]int64, evals int64) []string {
			var out []string
			cells := 0
			for k := range cover {
				if strings.HasPrefix(k, "cell:") {
					cells++
				}
			}
			if cells < 3000 {
				out = append(out, fmt.Sprintf("only %d operator x kind x kind cells covered (floor 3000)", cells))
			}
			for _, k := range []string{"route:const", "route:path", "route:filter-in-get", "route:gen", "complement-pairs", "membership-checks", "random-trees", "multi-valued-operands"} {
				if cover[k] == 0 {
					out = append(out, "coverage class never reached: "+k)
				}
			}
			return out
		},
	})
}

type operand struct {
	name  string
	val   any  // the Go value (for the path route it is stored in the element)
	konst *jpref.Eq
	multi []any // for multi-valued path operands: the values
	none  bool  // missing path
}

func operands() []operand {
	return []operand{
		{name: "nil", val: nil, konst: jpspec.CNil()},
		{name: "false", val: false, konst: jpspec.CBool(false)},
		{name: "true", val: true, konst: jpspec.CBool(true)},
		{name: "int0", val: int64(0), konst: jpspec.CInt(0)},
		{name: "int1", val: int64(1), konst: jpspec.CInt(1)},
		{name: "int-1", val: int64(-1), konst: jpspec.CInt(-1)},
		{name: "int2", val: int64(2), konst: jpspec.CInt(2)},
		{name: "int2^53+1", val: int64(1<<53 + 1), konst: jpspec.CInt(1<<53 + 1)},
		{name: "intmin", val: int64(math.MinInt64), konst: jpspec.CInt(math.MinInt64)},
		{name: "intmax", val: int64(math.MaxInt64), konst: jpspec.CInt(math.MaxInt64)},
		{name: "float0", val: 0.0, konst: jpspec.CFloat(0)},
		{name: "float-0", val: math.Copysign(0, -1), konst: jpspec.CFloat(math.Copysign(0, -1))},
		{name: "float1.5", val: 1.5, konst: jpspec.CFloat(1.5)},
		{name: "float2.0", val: 2.0, konst: jpspec.CFloat(2.0)},
		{name: "float1e300", val: 1e300, konst: jpspec.CFloat(1e300)},
		{name: "str-empty", val: "", konst: jpspec.CStr("")},
		{name: "str-abc", val: "abc", konst: jpspec.CStr("abc")},
		{name: "str-b", val: "b", konst: jpspec.CStr("b")},
		{name: "str-1", val: "1", konst: jpspec.CStr("1")},
		{name: "arr-empty", val: []any{}},
		{name: "arr", val: []any{int64(1), "abc"}},
		{name: "obj-empty", val: map[string]any{}},
		{name: "obj", val: map[string]any{"a": int64(1)}},
		{name: "nothing", none: true, konst: jpspec.CNothing()},
		{name: "multi0", multi: []any{}},
		{name: "multi1", multi: []any{int64(1)}},
		{name: "multi3", multi: []any{int64(1), "abc", 1.5}},
		{name: "regex", konst: jpspec.CRegex("^a.c$")},
		{name: "list", konst: jpspec.CList([]any{int64(1), "abc", nil, true, 1.5})},
	}
}

var binOps = []string{"eq", "neq", "lt", "gt", "lte", "gte", "and", "or", "add", "sub", "mul", "div", "in", "empty", "has", "exists", "rx", "match", "search"}

type checker struct {
	c *mon.Ctx
}

func toGen(v any) gen.Node {
	switch t := v.(type) {
	case nil:
		return nil
	case bool:
		return gen.Bool(t)
	case int64:
		return gen.Int(t)
	case float64:
		return gen.Float(t)
	case string:
		return gen.String(t)
	case []any:
		a := make(gen.Array, len(t))
		for i, e := range t {
			a[i] = toGen(e)
		}
		return a
	case map[string]any:
		o := make(gen.Object, len(t))
		for k, e := range t {
			o[k] = toGen(e)
		}
		return o
	}
	panic(fmt.Sprintf("toGen %T", v))
}

// matchAll evaluates the equation on the element through every route and
// returns the boolean per route.
func (ck *checker) routes(e *jpref.Eq, elem any, class string, cs map[string]any) (res map[string]bool, ok bool) {
	c := ck.c
	res = map[string]bool{}
	var script *jp.Script
	var filter *jp.Filter
	if p := mon.Guard(func() {
		q := jpspec.ToEquation(e)
		script = q.Script()
		filter = q.Filter()
	}); p != nil {
		c.Violation("jp.Equation.Script", "panic", class, cs, "a script", p.String())
		return nil, false
	}
	if cs != nil {
		cs["script_text"] = script.String()
	}
	run := func(name string, f func() bool) {
		var b bool
		c.Eval(1)
		if p := mon.Guard(func() { b = f() }); p != nil {
			c.Violation(name, "panic", class+"/"+mon.FaultClass(p.Msg), cs, "a boolean", p.String())
			ok = false
			return
		}
		res[name] = b
	}
	ok = true
	run("Script.Match", func() bool { return script.Match(elem) })
	run("Script.Match(again)", func() bool { return script.Match(elem) })
	c.Cover("route:gen")
	run("Script.Match(gen)", func() bool { return script.Match(toGen(elem)) })
	// the element with its homogeneous containers held as typed Go containers ([]string, []int,
	// map[string]int, ...): which elements are selected there is C11's subject, but evaluation must stay
	// total (operands of uncomparable Go types are simply unequal)
	if tw, changed := typedTwin(elem); changed {
		c.Cover("route:typed-containers-totality")
		c.Eval(2)
		if p := mon.Guard(func() { _ = script.Match(tw); _ = jp.Expr{filter}.Get([]any{tw}) }); p != nil {
			c.Violation("Script.Match(typed containers)", "panic", class+"/"+mon.FaultClass(p.Msg), cs, "a boolean", p.String())
			ok = false
		}
	}
	// the printed form parsed back: && || ! and parentheses must combine exactly as the script prints
	// (a text that does not parse at all is C14's business)
	if hasIntegralFloat(e) {
		c.Cover("parsed-text-skipped:integral-float-constant")
	} else if s2, err := jp.NewScript(script.String()); err == nil {
		c.Cover("route:parsed-text")
		run("NewScript(String()).Match", func() bool { return s2.Match(elem) })
		// the same text through the other constructor
		if f2, err := jp.NewFilter(filter.String()); err == nil {
			c.Cover("route:parsed-text-newfilter")
			run("NewFilter(String()) in Get", func() bool { return len(jp.Expr{f2}.Get([]any{elem})) == 1 })
		}
	}
	c.Cover("route:filter-in-get")
	x := jp.Expr{filter}
	run("Filter in Get", func() bool { return len(x.Get([]any{elem})) == 1 })
	run("Filter in Has", func() bool { return x.Has([]any{elem}) })
	run("Filter in First", func() bool { _, found := x.FirstFound([]any{elem}); return found })
	run("Filter in Locate", func() bool { return len(x.Locate([]any{elem}, 0)) == 1 })
	run("Filter in Get(object member)", func() bool { return len(x.Get(map[string]any{"m": elem})) == 1 })
	c.Cover("route:eval-walk-modify")
	run("Script.Eval", func() bool { out, _ := script.Eval([]any{}, []any{elem}).([]any); return len(out) == 1 })
	run("Filter in Walk", func() bool {
		n := 0
		x.Walk([]any{elem}, func(jp.Expr, []any) { n++ })
		return n == 1
	})
	run("Filter in Modify", func() bool {
		n := 0
		_, _ = x.Modify([]any{elem}, func(e any) (any, bool) { n++; return e, false })
		return n == 1
	})
	run("Filter in Remove", func() bool {
		out, _ := x.Remove([]any{elem})
		l, _ := out.([]any)
		return len(l) == 0
	})
	// the same filter over gen data, and the filter with its operands rooted at the document instead of the
	// element ($[0].x for @.x: the document is the one-element list, so the truth value is the same) over both
	// representations: every evaluator has to hand the document, not the element, to the script
	type variant struct {
		name string
		f    *jp.Filter
		wrap bool
	}
	variants := []variant{{"Filter", filter, false}}
	if er, changed := rootify(e, false, new(int)); changed {
		// a third form: the element sits one level down ({"w": element}), the first operand is rooted at the
		// document and the later ones at the element ($[0].w.l == @.w.r): an evaluator must go back to the
		// element after it has looked at the document, on paths longer than the one-member shortcut
		em, _ := rootify(e, true, new(int))
		var f1, f2 *jp.Filter
		if p := mon.Guard(func() { f1, f2 = jpspec.ToEquation(er).Filter(), jpspec.ToEquation(em).Filter() }); p != nil {
			c.Violation("jp.Equation.Filter", "panic", class, cs, "a filter", p.String())
			return res, false
		}
		variants = append(variants, variant{"Filter($-rooted operands)", f1, false}, variant{"Filter($ operand, then deeper @ operands)", f2, true})
		c.Cover("route:document-rooted-operands")
	}
	for _, vr := range variants {
		fname := vr.name
		fx := jp.Expr{vr.f}
		for _, rep := range []string{"simple", "gen"} {
			if fname == "Filter" && rep == "simple" {
				continue // done above
			}
			wrap := vr.wrap
			doc := func() any {
				el := elem
				if wrap {
					el = map[string]any{"w": elem}
				}
				if rep == "gen" {
					return gen.Array{toGen(el)}
				}
				return []any{el}
			}
			size := func(v any) int {
				switch t := v.(type) {
				case []any:
					return len(t)
				case gen.Array:
					return len(t)
				}
				return -1
			}
			sfx := " in "
			if fname != "Filter" {
				// a shared filter value must read the document operands anew for every document: first hand
				// it other documents (an empty one and the element of the previous case), then the real one
				c.Cover("route:document-rooted-operands-after-other-documents")
				_ = mon.Guard(func() {
					for _, other := range []any{[]any{map[string]any{}}, []any{prevElem}, []any{map[string]any{"w": prevElem}}} {
						if rep == "gen" {
							other = toGen(other)
						}
						_ = fx.Get(other)
						_ = fx.Has(other)
					}
				})
			}
			run(fname+sfx+"Get("+rep+")", func() bool { return len(fx.Get(doc())) == 1 })
			run(fname+sfx+"Has("+rep+")", func() bool { return fx.Has(doc()) })
			run(fname+sfx+"First("+rep+")", func() bool { _, found := fx.FirstFound(doc()); return found })
			if fname == "Filter" { // Locate hands the element to $ operands: recorded as F-C11-locate-root under C11
				run(fname+sfx+"Locate("+rep+")", func() bool { return len(fx.Locate(doc(), 0)) == 1 })
			}
			run(fname+sfx+"Walk("+rep+")", func() bool {
				n := 0
				fx.Walk(doc(), func(jp.Expr, []any) { n++ })
				return n == 1
			})
			run(fname+sfx+"Modify("+rep+")", func() bool {
				n := 0
				_, _ = fx.Modify(doc(), func(e any) (any, bool) { n++; return e, false })
				return n == 1
			})
			run(fname+sfx+"Remove("+rep+")", func() bool {
				out, _ := fx.Remove(doc())
				return size(out) == 0
			})
			run(fname+sfx+"RemoveOne("+rep+")", func() bool {
				out, _ := fx.RemoveOne(doc())
				return size(out) == 0
			})
		}
	}
	prevElem = elem
	return res, ok
}

// prevElem is the element of the previous case (a different document for the same kind of script).
var prevElem any

// rootify returns e with its element-rooted operand paths (@...) rooted at the document ($[0]...), for a
// document that is a one-element list holding the element; filters nested inside a path keep their @. With
// mixed, the element is expected one level down under "w": the first operand becomes $[0].w..., the later ones
// @.w... .
func rootify(e *jpref.Eq, mixed bool, seen *int) (*jpref.Eq, bool) {
	if e == nil {
		return nil, false
	}
	out := *e
	if e.Op == "path" && len(e.Path) > 0 && e.Path[0].Kind == "at" {
		*seen++
		switch {
		case !mixed:
			out.Path = append(jpref.Path{jpspec.Root(), jpspec.Nth(0)}, e.Path[1:]...)
		case *seen == 1:
			out.Path = append(jpref.Path{jpspec.Root(), jpspec.Nth(0), jpspec.Child("w")}, e.Path[1:]...)
		default:
			out.Path = append(jpref.Path{jpspec.At(), jpspec.Child("w")}, e.Path[1:]...)
		}
		return &out, true
	}
	var c1, c2 bool
	out.L, c1 = rootify(e.L, mixed, seen)
	out.R, c2 = rootify(e.R, mixed, seen)
	return &out, c1 || c2
}

// check evaluates e on elem and compares with S.
func (ck *checker) check(e *jpref.Eq, elem any, class string, cs map[string]any) (match bool, defined bool, ok bool) {
	c := ck.c
	c.Begin("script", cs)
	want, def := jpref.TruthDefined(e, elem, elem)
	res, ok := ck.routes(e, elem, class, cs)
	if !ok {
		return false, def, false
	}
	base := res["Script.Match"]
	for name, b := range res {
		if b != base {
			c.Violation(name, "differs-from-Script.Match", class, cs, fmt.Sprint("Script.Match = ", base), fmt.Sprint(b))
			return base, def, false
		}
	}
	c.Cover("membership-checks")
	if def && base != want {
		c.Violation("Script.Match", "wrong-truth-value", class, cs, fmt.Sprint(want, " (S: ", kindDesc(e, elem), ")"), fmt.Sprint(base))
		return base, def, false
	}
	if !def {
		c.Cover("dont-care-cells")
	}
	return base, def, true
}

// hasIntegralFloat: a float constant with an integral value prints without a fraction and parses back as an
// int, which changes arithmetic (that loss is C14's business, not a question of && || ! grouping).
func hasIntegralFloat(e *jpref.Eq) bool {
	if e == nil {
		return false
	}
	if e.Op == "const" && e.Kind == "float" {
		f, _ := e.Const.(float64)
		return f == math.Trunc(f)
	}
	return hasIntegralFloat(e.L) || hasIntegralFloat(e.R)
}

func kindDesc(e *jpref.Eq, elem any) string {
	if e.L != nil && e.R != nil {
		return fmt.Sprintf("%s %s %s", jpref.KindOf(jpref.Value(e.L, elem, elem)), e.Op, jpref.KindOf(jpref.Value(e.R, elem, elem)))
	}
	return e.Op
}

func (ck *checker) cell(op string, l, r operand, route string) {
	c := ck.c
	elem := map[string]any{}
	build := func(o operand, key string) *jpref.Eq {
		switch {
		case o.multi != nil:
			// a multi-valued path: @.key[*]
			elem[key] = o.multi
			c.Cover("multi-valued-operands")
			return jpspec.P(jpspec.At(), jpspec.Child(key), jpspec.Wild())
		case o.none && route == "path":
			return jpspec.P(jpspec.At(), jpspec.Child(key+"_missing"))
		case route == "path" && o.konst != nil && (o.name == "regex" || o.name == "list"):
			return o.konst
		case route == "path":
			elem[key] = o.val
			return jpspec.P(jpspec.At(), jpspec.Child(key))
		}
		return o.konst
	}
	if route == "const" && (l.konst == nil || r.konst == nil) && l.multi == nil && r.multi == nil {
		return // containers exist only through paths
	}
	le, re := build(l, "l"), build(r, "r")
	if le == nil || re == nil {
		return
	}
	e := jpspec.Bin(op, le, re)
	class := op + "/" + l.name + "/" + r.name
	cs := map[string]any{"equation": e.String(), "element": treegen.Show(elem), "route": route}
	c.Cover("cell:" + class)
	c.Cover("route:" + route)
	c.DistinctEnum(1)
	if c.WantSample() && route == "path" && op == "lt" {
		c.Sample(cs)
	}
	var top *jpref.Eq
	switch op {
	case "add", "sub", "mul", "div":
		// arithmetic: compare the result with what S computes (when defined), and with itself
		v := jpref.Value(e, elem, elem)
		switch t := v.(type) {
		case int64:
			top = jpspec.Bin("eq", e, jpspec.CInt(t))
		case float64:
			if math.IsInf(t, 0) || math.IsNaN(t) {
				top = jpspec.Bin("exists", e, jpspec.CBool(true))
			} else {
				top = jpspec.Bin("eq", e, jpspec.CFloat(t))
			}
		case string:
			top = jpspec.Bin("eq", e, jpspec.CStr(t))
		default:
			top = jpspec.Bin("eq", e, e) // totality only
		}
	default:
		top = e
	}
	m, def, ok := ck.check(top, elem, class, cs)
	if !ok {
		return
	}
	// ==/!= complement for single-valued operands
	if op == "eq" && l.multi == nil && r.multi == nil {
		ne := jpspec.Bin("neq", le, re)
		cs2 := map[string]any{"equation": ne.String(), "element": treegen.Show(elem), "route": route}
		m2, _, ok2 := ck.check(ne, elem, "neq/"+l.name+"/"+r.name, cs2)
		c.Cover("complement-pairs")
		if ok2 && m == m2 {
			c.Violation("Script.Match", "eq-and-neq-not-complements", class, cs, fmt.Sprint("== is ", m, " so != must be ", !m), fmt.Sprint("!= is ", m2))
		}
	}
	_ = def
}

func run(c *mon.Ctx) {
	ck := &checker{c: c}
	ops := operands()
	idx := 0
	for _, op := range binOps {
		for _, l := range ops {
			for _, r := range ops {
				idx++
				if !c.Mine(idx) {
					continue
				}
				ck.cell(op, l, r, "const")
				ck.cell(op, l, r, "path")
			}
		}
	}
	// unary: not, length, count
	for i, o := range ops {
		if !c.Mine(i) {
			continue
		}
		elem := map[string]any{}
		var oe *jpref.Eq
		switch {
		case o.multi != nil:
			elem["l"] = o.multi
			oe = jpspec.P(jpspec.At(), jpspec.Child("l"), jpspec.Wild())
		case o.none:
			oe = jpspec.P(jpspec.At(), jpspec.Child("missing"))
		case o.name == "regex" || o.name == "list":
			continue
		default:
			elem["l"] = o.val
			oe = jpspec.P(jpspec.At(), jpspec.Child("l"))
		}
		cs := map[string]any{"element": treegen.Show(elem)}
		ne := &jpref.Eq{Op: "not", L: oe}
		c.Cover("cell:not/" + o.name)
		c.DistinctEnum(1)
		ck.check(ne, elem, "not/"+o.name, with(cs, "equation", ne.String()))
		for _, k := range []int64{0, 1, 2, 3} {
			le := jpspec.Bin("eq", &jpref.Eq{Op: "length", L: oe}, jpspec.CInt(k))
			c.Cover("cell:length/" + o.name)
			ck.check(le, elem, "length/"+o.name, with(cs, "equation", le.String()))
			ce := jpspec.Bin("gte", &jpref.Eq{Op: "count", L: oe}, jpspec.CInt(k))
			c.Cover("cell:count/" + o.name)
			ck.check(ce, elem, "count/"+o.name, with(cs, "equation", ce.String()))
		}
	}
	// random equation trees
	r := c.Rand("trees")
	g := &treeGen{r: r}
	n := c.Pick(1600000, 16000000) / c.Batches
	for i := 0; i < n; i++ {
		e := g.boolean(1 + r.Intn(3))
		elem := g.element()
		cs := map[string]any{"equation": e.String(), "element": treegen.Show(elem)}
		c.Cover("random-trees")
		c.Distinct(e.String(), treegen.Show(elem))
		ck.check(e, elem, "tree/"+e.Op, cs)
	}
}

func with(cs map[string]any, k string, v any) map[string]any {
	m := map[string]any{k: v}
	for a, b := range cs {
		m[a] = b
	}
	return m
}

type treeGen struct{ r *rand.Rand }

var leafVals = []any{nil, false, true, int64(0), int64(1), int64(2), int64(-3), 1.5, 2.0, "", "abc", "b", []any{}, []any{int64(1), int64(2)}, map[string]any{}, map[string]any{"x": int64(1)}}

func (g *treeGen) element() any {
	m := map[string]any{}
	for _, k := range []string{"a", "b", "c", "d"} {
		if g.r.Intn(5) != 0 {
			m[k] = leafVals[g.r.Intn(len(leafVals))]
		}
	}
	if g.r.Intn(3) == 0 {
		m["m"] = []any{leafVals[g.r.Intn(len(leafVals))], leafVals[g.r.Intn(len(leafVals))], leafVals[g.r.Intn(len(leafVals))]}
	}
	return m
}

func (g *treeGen) operand(depth int) *jpref.Eq {
	switch g.r.Intn(9) {
	case 0, 1, 2:
		return jpspec.P(jpspec.At(), jpspec.Child([]string{"a", "b", "c", "d", "zz"}[g.r.Intn(5)]))
	case 3:
		return jpspec.P(jpspec.At(), jpspec.Child("m"), jpspec.Wild())
	case 4:
		return jpspec.CInt(int64(g.r.Intn(5) - 1))
	case 5:
		return jpspec.CFloat([]float64{0, 1.5, 2, -3}[g.r.Intn(4)])
	case 6:
		return jpspec.CStr([]string{"", "abc", "b"}[g.r.Intn(3)])
	case 7:
		return []*jpref.Eq{jpspec.CNil(), jpspec.CBool(true), jpspec.CBool(false), jpspec.CNothing()}[g.r.Intn(4)]
	default:
		if depth > 0 {
			return jpspec.Bin([]string{"add", "sub", "mul", "div"}[g.r.Intn(4)], g.operand(depth-1), g.operand(depth-1))
		}
		return jpspec.CInt(1)
	}
}

func (g *treeGen) boolean(depth int) *jpref.Eq {
	if depth > 0 {
		switch g.r.Intn(4) {
		case 0:
			return jpspec.Bin("and", g.boolean(depth-1), g.boolean(depth-1))
		case 1:
			return jpspec.Bin("or", g.boolean(depth-1), g.boolean(depth-1))
		case 2:
			return &jpref.Eq{Op: "not", L: g.boolean(depth - 1)}
		}
	}
	switch g.r.Intn(10) {
	case 0:
		return jpspec.Bin("exists", g.operand(0), jpspec.CBool(g.r.Intn(2) == 0))
	case 1:
		return jpspec.Bin("has", g.operand(0), jpspec.CBool(g.r.Intn(2) == 0))
	case 2:
		return jpspec.Bin("empty", g.operand(0), jpspec.CBool(g.r.Intn(2) == 0))
	case 3:
		return jpspec.Bin("in", g.operand(0), jpspec.CList([]any{int64(1), "abc", nil, 1.5}))
	case 4:
		return jpspec.Bin("rx", g.operand(0), jpspec.CRegex("^a"))
	case 5:
		// the two-argument functions (a ! directly in front of one must negate the call, not its first argument)
		return jpspec.Bin([]string{"match", "search"}[g.r.Intn(2)], g.operand(0), jpspec.CStr([]string{"a.*", "b", "^ab", ".", ""}[g.r.Intn(5)]))
	default:
		return jpspec.Bin([]string{"eq", "neq", "lt", "gt", "lte", "gte"}[g.r.Intn(6)], g.operand(1), g.operand(1))
	}
}

// typedTwin returns v with every homogeneous container of strings or int64s replaced by the typed Go
// container ([]string, []int, map[string]string, map[string]int).
func typedTwin(v any) (any, bool) {
	switch t := v.(type) {
	case []any:
		if len(t) > 0 {
			if ss, ok := allOf[string](t); ok {
				return ss, true
			}
			if is, ok := allOf[int64](t); ok {
				out := make([]int, len(is))
				for i, x := range is {
					out[i] = int(x)
				}
				return out, true
			}
		}
		out := make([]any, len(t))
		changed := false
		for i, e := range t {
			var ch bool
			out[i], ch = typedTwin(e)
			changed = changed || ch
		}
		return out, changed
	case map[string]any:
		if len(t) > 0 {
			vals := make([]any, 0, len(t))
			keys := make([]string, 0, len(t))
			for k, e := range t {
				keys = append(keys, k)
				vals = append(vals, e)
			}
			if ss, ok := allOf[string](vals); ok {
				m := map[string]string{}
				for i, k := range keys {
					m[k] = ss[i]
				}
				return m, true
			}
			if is, ok := allOf[int64](vals); ok {
				m := map[string]int{}
				for i, k := range keys {
					m[k] = int(is[i])
				}
				return m, true
			}
		}
		out := make(map[string]any, len(t))
		changed := false
		for k, e := range t {
			var ch bool
			out[k], ch = typedTwin(e)
			changed = changed || ch
		}
		return out, changed
	}
	return v, false
}

func allOf[T any](a []any) ([]T, bool) {
	out := make([]T, len(a))
	for i, e := range a {
		x, ok := e.(T)
		if !ok {
			return nil, false
		}
		out[i] = x
	}
	return out, true
}
